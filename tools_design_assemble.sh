#!/bin/bash
# Rebuilds section 8 of DESIGN.md from design_fragments/ and the generated tables (evidence/*.json, seeded/*/meta.json).
cd /verif
python3 - <<'PY'
import subprocess, re
s = open('DESIGN.md').read()
marker = '\n---------------------------------------------------------------------------------------------------\n\n## 8. Build report'
i = s.find(marker)
if i >= 0:
    s = s[:i]
s = s.rstrip('\n') + '\n'
tables = subprocess.run(['.venv/bin/python', 'tools_design_tables.py'], capture_output=True, text=True).stdout
t1, t2 = tables.split('\n\n', 1)
out = s + open('design_fragments/8_head.md').read() + t1 + '\n' + open('design_fragments/8_tail.md').read() + t2 + open('design_fragments/8_end.md').read()
open('DESIGN.md', 'w').write(out)
PY
