#!/bin/bash
# usage: tools_seed_eval.sh <seed-dir> <prop>...   - run checks against a scratch copy of /repo with the seeded patch applied
SRC=$1; shift
S=/tmp/seedeval-$$; rm -rf $S; mkdir -p $S; cp -r /repo/src /repo/include /repo/optree $S/; rm -f $S/optree/*.so
(cd $S && git init -q . 2>/dev/null; patch -p1 -s < $SRC/patch.diff) || { echo "patch failed"; exit 3; }
cd /verif
for p in "$@"; do
  out=$(OCV_REPO=$S ./check $p quick 2>&1); rc=$?
  echo "== $p rc=$rc $(echo "$out" | grep -c '^VIOLATION') violation line(s)"
  echo "$out" | grep "^VIOLATION\|^UNDECIDED\|^TOOL-ERROR" | cut -c1-230 | head -4
  echo "$out" | grep -A1 "^VIOLATION" | grep -v "^VIOLATION\|^--" | cut -c1-200 | head -3
done
rm -rf $S
