#!/bin/bash
# usage: tools_seed_confirm.sh <name> <seed-dir>   (seed-dir holds patch.diff + demo.py)
# Confirms a seeded change in a scratch worktree: applies, builds, demo fails with / passes without the change, existing suite passes.
set -u
NAME=$1; SRC=$2
W=/tmp/confirm/$NAME
rm -rf $W; git -C /repo worktree prune; git -C /repo worktree add --detach $W HEAD >/dev/null 2>&1 || { echo "worktree failed"; exit 3; }
cd $W && git apply $SRC/patch.diff || { echo "RESULT $NAME patch-does-not-apply"; exit 3; }
BUILT=$(cd /verif && OCV_REPO=$W /verif/.venv/bin/python -m ocv.build 2>/tmp/confirm/$NAME.build.log | tail -1) || { echo "RESULT $NAME build-failed"; exit 3; }
BASE=$(cd /verif && /verif/.venv/bin/python -m ocv.build | tail -1)
(cd /tmp && PYTHONPATH=$BUILT timeout 600 /venv/bin/python $SRC/demo.py) >/tmp/confirm/$NAME.demo_changed.log 2>&1; RC1=$?
(cd /tmp && PYTHONPATH=$BASE timeout 600 /venv/bin/python $SRC/demo.py) >/tmp/confirm/$NAME.demo_base.log 2>&1; RC0=$?
cp $BUILT/optree/_C.cpython-312-x86_64-linux-gnu.so $W/optree/
SUITE=$(cd $W && PYTHONPATH=$W timeout 3000 /venv/bin/python -m pytest -q -p no:cacheprovider --timeout=900 2>&1 | tail -1)
echo "RESULT $NAME demo_changed_rc=$RC1 demo_unchanged_rc=$RC0 suite=[$SUITE]"
cd /; git -C /repo worktree remove --force $W; rm -rf $BUILT
