#!/bin/bash
# Official run of every stored seeded change against /repo itself: git apply, ./check <prop> quick, git checkout -- .
# (nothing else may use /repo meanwhile).  Writes seeded/official_runs.log; evidence/ is restored afterwards by re-running the checks.
cd /verif
LOG=seeded/official_runs.log; : > $LOG
git -C /repo status --short | grep -v '^??' | grep . && { echo "/repo is dirty"; exit 3; }
for d in seeded/C*-SEED* seeded/D*; do
  id=$(basename $d)
  [ -f $d/patch.diff ] || continue
  if [[ $id == D* ]]; then props=$(python3 -c "import json;print(json.load(open('$d/meta.json')).get('property','') if __import__('os').path.exists('$d/meta.json') else '')"); else props=${id%%-*}; fi
  [ -z "$props" ] && continue
  if ! git -C /repo apply --check $PWD/$d/patch.diff 2>/dev/null; then echo "$id does-not-apply-to-HEAD" >> $LOG; continue; fi
  git -C /repo apply $PWD/$d/patch.diff
  out=$(./check $props quick 2>&1); rc=$?
  git -C /repo checkout -- .
  nv=$(echo "$out" | grep -c '^VIOLATION'); nf=$(echo "$out" | grep -c 'no-failing-input-found')
  echo "$id property=$props exit=$rc violation_lines=$nv without_native_input=$nf" >> $LOG
done
git -C /repo status --short | grep -v '^??'
cat $LOG
