from z3 import *
import time
K=Function('K',IntSort(),IntSort()); A=Function('A',IntSort(),IntSort())
NL=Function('NL',IntSort(),IntSort()); NN=Function('NN',IntSort(),IntSort())
cpos=Function('cpos',IntSort(),IntSort(),IntSort())
PL=Function('PL',IntSort(),IntSort())
LEAF=1
n=Int('n')
def start(i): return i+1-NN(i)
i,j,k=Ints('i j k')
def WF(n):
    inr=And(0<=i,i<n)
    return [
     ForAll([i],Implies(inr,And(NN(i)>=1,NN(i)<=i+1,A(i)>=0,NL(i)>=0)),patterns=[NN(i)]),
     ForAll([i],Implies(And(inr,K(i)==LEAF),And(A(i)==0,NL(i)==1)),patterns=[K(i)]),
     ForAll([i],Implies(And(inr,A(i)==0),NN(i)==1),patterns=[A(i)]),
     ForAll([i],Implies(And(inr,A(i)>0),And(cpos(i,A(i)-1)==i-1, start(cpos(i,0))==start(i))),patterns=[A(i)]),
     ForAll([i,k],Implies(And(inr,0<=k,k<A(i)),And(start(i)<=cpos(i,k),cpos(i,k)<i, start(cpos(i,k))>=start(i))),patterns=[cpos(i,k)]),
     ForAll([i,k],Implies(And(inr,1<=k,k<A(i)),cpos(i,k-1)==start(cpos(i,k))-1),patterns=[cpos(i,k)]),
     PL(0)==0,
     ForAll([k],Implies(And(0<=k,k<n),PL(k+1)==PL(k)+If(K(k)==LEAF,1,0)),patterns=[PL(k+1)]),
     ForAll([i],Implies(inr,NL(i)==PL(i+1)-PL(start(i))),patterns=[NL(i)]),
    ]
def prove(name,hyps,goal):
    s=Solver(); s.set('timeout',20000)
    for h in hyps: s.add(h)
    s.add(Not(goal))
    t=time.time(); r=s.check(); print(name, 'PROVED' if r==unsat else r, f'{time.time()-t:.2f}s')
    if r==sat: print(s.model())
root=n-1
pre=WF(n)+[n>=1, NN(root)==n]
pos,ii=Ints('pos ii')
arity=A(root)
def Inv(pos,ii): return And(-1<=ii, ii<arity, Implies(ii>=0,pos-1==cpos(root,ii)), Implies(ii==-1,pos==0), 0<=pos, pos<=n-1)
# init
prove('init',pre,Inv(n-1,arity-1))
# at(pos-1) in range & EXPECT_GE(pos, node.num_nodes)
prove('safe_at',pre+[Inv(pos,ii),ii>=0],And(0<=pos-1,pos-1<n))
prove('expect_ge',pre+[Inv(pos,ii),ii>=0],pos>=NN(pos-1))
# copy range valid
prove('copy_range',pre+[Inv(pos,ii),ii>=0],And(0<=pos-NN(pos-1),pos-NN(pos-1)<=pos,pos<=n))
# child sanity: last element of slice has num_nodes == slice length  (trivial)
# preserve
prove('preserve',pre+[Inv(pos,ii),ii>=0],Inv(pos-NN(pos-1),ii-1))
# exit: pos==0
prove('exit_pos0',pre+[Inv(pos,ii),Not(ii>=0)],pos==0)
# children counts sum: sum of child num_nodes = n-1: telescoping is implied by pos reaching 0.
# mutation: pos -= node.num_nodes - 1  (off by one) must fail
prove('MUT preserve(off-by-one) should FAIL',pre+[Inv(pos,ii),ii>=0],Inv(pos-NN(pos-1)+1,ii-1))
