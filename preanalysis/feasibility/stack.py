from z3 import *
import time
exec(open(__import__('os').path.join(__import__('os').path.dirname(__file__),'wf.py')).read().split("def prove")[0])   # reuse K,A,NL,NN,cpos,PL,start,WF, i,j,k
def prove(name,hyps,goal):
    s=Solver(); s.set('timeout',30000)
    s.add(*hyps); s.add(Not(goal))
    t=time.time(); r=s.check(); print(name,'PROVED' if r==unsat else r,f'{time.time()-t:.2f}s')
    if r==sat: print(s.model().eval(n), )
rp=Function('rp',IntSort(),IntSort())     # pre-state agenda ghost: cell j -> root position
rp2=Function('rp2',IntSort(),IntSort())   # post-state
kk,size,t=Ints('kk size t')
a=A(kk)
def I(rp,k_,size_):
    jj=Int('jj')
    return And(size_>=0, (size_==0)==(k_==0),
               Implies(size_>0, rp(size_-1)==k_-1),
               Implies(size_>0, start(rp(0))==0),
               ForAll([jj],Implies(And(1<=jj,jj<size_),And(rp(jj-1)==start(rp(jj))-1)),patterns=[rp(jj)]),
               ForAll([jj],Implies(And(0<=jj,jj<size_),And(0<=rp(jj),rp(jj)<k_)),patterns=[rp(jj)]))
pre=WF(n)+[0<=kk,kk<n,I(rp,kk,size)]
def L(t): return And(size-1-t>=0, rp(size-1-t)==cpos(kk,a-1-t))
prove('L base',pre+[a>0],L(0))
prove('L step',pre+[0<=t,t+1<a,L(t)],L(t+1))
tt=Int('tt')
Lall=ForAll([tt],Implies(And(0<=tt,tt<a),And(size-1-tt>=0, rp(size-1-tt)==cpos(kk,a-1-tt))),patterns=[rp(size-1-tt)])
Lall2=[Implies(a>0,And(size-a>=0, rp(size-a)==cpos(kk,0)))]  # instance t=a-1
prove('no underflow (EXPECT_GE size>=arity)',pre+Lall2,size>=a)
# post state
jj=Int('jj')
size2=size-a+1
post=[ForAll([jj],Implies(And(0<=jj,jj<size-a),rp2(jj)==rp(jj)),patterns=[rp2(jj)]), rp2(size-a)==kk]
prove('preserve I',pre+Lall2+post,I(rp2,kk+1,size2))
# end: k==n => size==1  (root NN==n => start(root)==0)
prove('singleton at end',WF(n)+[n>=1,NN(n-1)==n,I(rp,n,size)],size==1)
# mutation: agenda.resize(size - arity + 1)?? i.e., new size off by one -> invariant must fail
prove('MUT should FAIL',pre+Lall2+[ForAll([jj],Implies(And(0<=jj,jj<size-a+1),rp2(jj)==rp(jj)),patterns=[rp2(jj)]), rp2(size-a+1)==kk],I(rp2,kk+1,size-a+2))
