from z3 import *
import time, subprocess
m,n,k,i,j=Ints('m n k i j')
def prove(name,hyps,goal,tactic=None):
    s=Solver() if tactic is None else Then(tactic,'smt').solver()
    s.set('timeout',20000)
    s.add(*hyps); s.add(Not(goal))
    t=time.time(); r=s.check(); print(name,'PROVED' if r==unsat else r,f'{time.time()-t:.2f}s')
    return s
# lemma 1: for n>0: k*n < m*n <-> k < m
prove('range_len',[n>0,m>=0,k>=0],(k*n<m*n)==(k<m))
# lemma 2: i<m -> i*n+n <= m*n
prove('slice_in_range',[n>0,m>0,0<=i,i<m],i*n+n<=m*n)
# lemma 3: index i*n+j within [0,m*n)
prove('idx_in_range',[n>0,m>0,0<=i,i<m,0<=j,j<n],And(0<=i*n+j,i*n+j<m*n))
# lemma 4 (involution index): decode (i*n+j) uniquely: (i*n+j)/n == i and %n == j
s=prove('divmod',[n>0,0<=i,0<=j,j<n],And((i*n+j)/n==i,(i*n+j)%n==j))
# injectivity
i2,j2=Ints('i2 j2')
prove('inj',[n>0,0<=i,0<=j,j<n,0<=i2,0<=j2,j2<n,i*n+j==i2*n+j2],And(i==i2,j==j2))
