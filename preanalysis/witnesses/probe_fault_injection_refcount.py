import optree, sys, gc
from collections import OrderedDict, defaultdict, deque, namedtuple
Pt=namedtuple('Pt','x y')
class Boom(Exception): pass
class Cu:
    def __init__(s,a,b): s.a=a;s.b=b
cnt=[0]; target=[None]
def tick():
    cnt[0]+=1
    if cnt[0]==target[0]: raise Boom(cnt[0])
def fl(c): tick(); return ((c.a,c.b),None,('a','b'))
def un(m,ch): tick(); return Cu(*ch)
optree.register_pytree_node(Cu, fl, un, namespace='ns', path_entry_type=optree.GetAttrEntry)
class Leaf: pass
def mk():
    Ls=[Leaf() for _ in range(8)]
    t={'k1':(Ls[0],[Ls[1],Cu(Ls[2],Pt(Ls[3],None))]),'k0':deque([Ls[4]],maxlen=3),'k2':OrderedDict(z=Cu(Ls[5],Ls[6]),a=defaultdict(int,q=Ls[7]))}
    return t,Ls
def pred(x): tick(); return False
def f(*xs): tick(); return xs[0]
ops={
 'flatten': lambda t: optree.tree_flatten(t,is_leaf=pred,namespace='ns'),
 'flatten_with_path': lambda t: optree.tree_flatten_with_path(t,is_leaf=pred,namespace='ns'),
 'iter': lambda t: list(optree.tree_iter(t,is_leaf=pred,namespace='ns')),
 'map': lambda t: optree.tree_map(f,t,t,is_leaf=pred,namespace='ns'),
 'map_with_path': lambda t: optree.tree_map_with_path(f,t,t,namespace='ns'),
 'map_with_accessor': lambda t: optree.tree_map_with_accessor(f,t,t,namespace='ns'),
 'broadcast_common': lambda t: optree.tree_broadcast_common(t,t,is_leaf=pred,namespace='ns'),
 'broadcast_prefix': lambda t: optree.tree_broadcast_prefix(t,t,namespace='ns'),
 'transpose_map': lambda t: optree.tree_transpose_map(lambda x: (f(x),f(x)),t,namespace='ns'),
 'prefix_errors': lambda t: optree.prefix_errors(t,t,is_leaf=pred,namespace='ns'),
 'flatten_one_level': lambda t: optree.tree_flatten_one_level(t['k2']['z'],namespace='ns'),
 'accessors': lambda t: optree.tree_accessors(t,is_leaf=pred,namespace='ns'),
 'walk': lambda t: optree.tree_structure(t,namespace='ns').walk(optree.tree_leaves(t,namespace='ns'),lambda ty,d,ch:(tick(),ch)[1],lambda l:(tick(),l)[1]),
 'traverse': lambda t: optree.tree_structure(t,namespace='ns').traverse(optree.tree_leaves(t,namespace='ns'),lambda n:(tick(),n)[1],lambda l:(tick(),l)[1]),
 'transform': lambda t: optree.tree_structure(t,namespace='ns').transform(lambda s:(tick(),s)[1],lambda s:(tick(),s)[1]),
}
bad=0
for name,op in ops.items():
    t,Ls=mk(); cnt[0]=0; target[0]=None; op(t); K=cnt[0]
    for k in range(1,K+1):
        t,Ls=mk(); gc.collect()
        before=[sys.getrefcount(x) for x in Ls]+[sys.getrefcount(t)]
        cnt[0]=0; target[0]=k
        try:
            r=op(t); print("NO EXC",name,k); bad+=1
        except Boom as e:
            if e.args!=(k,): print("WRONG EXC",name,k,e)
            del e
        except BaseException as e:
            print("OTHER EXC",name,k,type(e),e); bad+=1; del e
        gc.collect()
        after=[sys.getrefcount(x) for x in Ls]+[sys.getrefcount(t)]
        if before!=after:
            bad+=1; print("REFCOUNT",name,k,before,after)
    print(name,"K=",K)
print("bad",bad)
