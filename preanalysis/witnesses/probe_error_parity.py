import optree
class C:
    def __init__(s,x): s.x=x
optree.register_pytree_node(C, lambda c: (c.x, None), lambda m,ch: C(ch), namespace='n')
def run(name, f):
    try:
        r = f(); print(name, "->", r)
    except BaseException as e:
        print(name, "EXC", type(e).__name__, str(e)[:70])
for bad in [5, None, iter([1,2]), [1,2], {'a':1}, 'ab']:
    print("children =", repr(bad))
    t = C(bad)
    run(" flatten", lambda: optree.tree_flatten(t, namespace='n')[0])
    t = C(bad if not hasattr(bad,'__next__') else iter([1,2]))
    run(" with_path", lambda: optree.tree_flatten_with_path(t, namespace='n')[1])
    t = C(bad if not hasattr(bad,'__next__') else iter([1,2]))
    run(" iter", lambda: list(optree.tree_iter(t, namespace='n')))
