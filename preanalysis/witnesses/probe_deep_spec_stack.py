import optree, sys
which = sys.argv[1]
s = optree.treespec_tuple([optree.treespec_leaf()])
for _ in range(int(sys.argv[2])):
    s = s.compose(s)
print("nodes", s.num_nodes, flush=True)
if which == 'paths':
    print(len(s.paths()[0]))
elif which == 'accessors':
    print(len(s.accessors()[0]))
elif which == 'broadcast':
    print(s.broadcast_to_common_suffix(s).num_nodes)
elif which == 'repr':
    print(len(repr(s)))
elif which == 'unflatten':
    t = s.unflatten([1]); print(type(t))
    print(optree.tree_leaves(t))
