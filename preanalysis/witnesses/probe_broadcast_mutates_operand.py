import optree
from collections import OrderedDict
a = optree.tree_structure({'a': 1, 'c': 2})
od = OrderedDict([('b', 1), ('a', (2, 3))])
b = optree.tree_structure(od)
print("before:", b, b.entries(), optree.tree_unflatten(b, [10, 20, 30]))
try:
    a.broadcast_to_common_suffix(b)
except ValueError as e:
    print("ValueError:", str(e)[:80])
print("after: ", b, b.entries(), optree.tree_unflatten(b, [10, 20, 30]))
