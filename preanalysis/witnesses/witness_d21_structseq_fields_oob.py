"""D21 (C16, C18): structseq_fields read tp_members[i] for every i below the class attribute n_sequence_fields, which can be
rebound on the mutable struct sequence types of os / time / resource.  Before the fix: SIGSEGV (1000) / abort or
RuntimeError with the error indicator set (-1).  Exit 1 when a child dies or the twins disagree, 0 otherwise."""
import subprocess
import sys

CHILD = '''
import os, sys
os.sched_param.n_sequence_fields = int(sys.argv[1])
from optree import typing as T
a = T.structseq_fields(os.sched_param)
b = T.structseq_fields.__python_implementation__(os.sched_param)
print(a, b)
sys.exit(0 if a == b else 1)
'''
rc = 0
for n in ('1000', '-1', '-100', '0', '1'):
    p = subprocess.run([sys.executable, '-c', CHILD, n], capture_output=True, text=True)
    print(n, p.returncode, p.stdout.strip(), p.stderr.strip()[-200:])
    rc |= p.returncode != 0
sys.exit(1 if rc else 0)
