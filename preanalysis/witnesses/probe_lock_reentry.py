import optree, sys, warnings, collections, faulthandler
faulthandler.dump_traceback_later(8, exit=True)
Point = collections.namedtuple('Point', 'x y')
def hook(message, category, filename, lineno, file=None, line=None):
    print("hook: re-entering optree", flush=True)
    print(optree.tree_flatten((1, 2)), flush=True)
warnings.showwarning = hook
warnings.simplefilter('always')
optree.register_pytree_node(Point, lambda p: (tuple(p), None), lambda m,ch: Point(*ch), namespace='w')
print("registered ok")
