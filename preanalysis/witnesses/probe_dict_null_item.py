import optree, sys
which=sys.argv[1]
class C:
    def __init__(s,x): s.x=x
d = {}
def fl(c):
    d.pop('b', None); d.pop('c', None)
    return ((c.x,), None)
optree.register_pytree_node(C, fl, lambda m,ch: C(*ch), namespace='n')
d.update({'a': C(1), 'b': 2, 'c': 3})
if which=='flatten':
    print(optree.tree_flatten(d, namespace='n'))
elif which=='path':
    print(optree.tree_flatten_with_path(d, namespace='n'))
elif which=='iterlt':
    class K:
        def __init__(s,n,dd): s.n=n; s.dd=dd
        def __hash__(s): return hash(s.n)
        def __eq__(s,o): return s.n==o.n
        def __lt__(s,o):
            for k in list(s.dd):
                if k is not s and k is not o: del s.dd[k]
            return s.n<o.n
    dd={}
    for i in range(5): dd[K(i,dd)]=i
    print(list(optree.tree_iter(dd)))
