import optree, sys, warnings, collections
which = sys.argv[1]
if which == 'dict':
    d = {'a': 1, 'b': 2, 'c': 3}
    def is_leaf2(x):
        if x == 1:
            d.pop('b', None); d.pop('c', None)
        return False
    print(optree.tree_flatten(d, is_leaf=is_leaf2))
elif which == 'list':
    lst = [[1],[2],[3],[4],[5],[6],[7],[8]]
    def is_leaf(x):
        if x == [1]:
            del lst[1:]
        return False
    print(optree.tree_flatten(lst, is_leaf=is_leaf))
elif which == 'hash':
    class C:
        def __init__(s,x): s.x=x
    optree.register_pytree_node(C, lambda c: ((c.x,), None), lambda m,ch: C(*ch), namespace=optree.registry.__GLOBAL_NAMESPACE)
    a = optree.tree_structure(C(1))
    b = optree.tree_structure(C(1), namespace='ns')
    print(a, b, a==b, hash(a)==hash(b), a.namespace, b.namespace)
elif which == 'bcast':
    class D:
        def __init__(s,x,y): s.x=x; s.y=y
    optree.register_pytree_node(D, lambda c: ((c.x,c.y), None, ('x','y')), lambda m,ch: D(*ch), namespace='ns', path_entry_type=optree.GetAttrEntry)
    a = optree.tree_structure(D(1,2), namespace='ns')
    b = optree.tree_structure(D((1,2),3), namespace='ns')
    c = a.broadcast_to_common_suffix(b)
    print(a.paths(), b.paths(), c.paths(), c, c == b)
    print(optree.tree_broadcast_common(D(1,2), D((1,2),3), namespace='ns'))
elif which == 'warn':
    Point = collections.namedtuple('Point', 'x y')
    warnings.simplefilter('error')
    try:
        optree.register_pytree_node(Point, lambda p: (tuple(p), None), lambda m,ch: Point(*ch), namespace='w')
    except BaseException as e:
        print("EXC", type(e), e)
    warnings.simplefilter('default')
    print("python get:", optree.register_pytree_node.get(Point, namespace='w'))
    print("flatten:", optree.tree_flatten(Point(1,2), namespace='w'))
    try:
        optree.unregister_pytree_node(Point, namespace='w')
    except BaseException as e:
        print("UNREG EXC", type(e), e)
    print("flatten after:", optree.tree_flatten(Point(1,2), namespace='w'))
elif which == 'prefix':
    try:
        print(optree.prefix_errors({1: 0, 'a': 1}, {2j: 0, None: 3}))
    except BaseException as e:
        print("EXC", type(e), e)
    try:
        optree.tree_structure({1: 0, 'a': 1}).flatten_up_to({2j: 0, None: 3})
    except BaseException as e:
        print("EXC", type(e), e)
elif which == 'twin':
    from optree.typing import is_namedtuple_class
    class TT(tuple): pass
    class Fake(tuple):
        _fields = TT(('a',))
        _make = classmethod(lambda cls, it: cls(it))
        def _asdict(self): return {}
    print(is_namedtuple_class(Fake), is_namedtuple_class.__python_implementation__(Fake))
