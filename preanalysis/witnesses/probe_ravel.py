import numpy as np, itertools, warnings
warnings.simplefilter('ignore')
import optree
from optree.integration import numpy as onp
shapes=[(),(0,),(1,),(2,3),(0,2),(2,1,2)]
dts=[np.bool_,np.int8,np.int32,np.float32,np.float64,np.complex64]
bad=0;n=0
def chk(mod,mk,eq,name):
    global bad,n
    for k in (0,1,2,3):
        for combo in itertools.product(itertools.product(shapes[:5],dts[:5]),repeat=k):
            if k==3 and hash(combo)%7: continue
            leaves=[mk(s,d,i) for i,(s,d) in enumerate(combo)]
            tree={'a':leaves[:1],'b':tuple(leaves[1:]),'c':None}
            try:
                flat,unravel=mod.tree_ravel(tree)
                back=unravel(flat)
                bl=optree.tree_leaves(back)
                ok=len(bl)==len(leaves) and all(eq(x,y) for x,y in zip(bl,leaves)) and optree.tree_structure(back)==optree.tree_structure(tree)
                f2,_=mod.tree_ravel(back)
                ok=ok and eq(f2,flat)
                if not ok: bad+=1; print("MISMATCH",name,combo)
            except Exception as e:
                bad+=1; print("EXC",name,combo,type(e).__name__,str(e)[:100])
            n+=1
def mk_np(s,d,i): return (np.arange(int(np.prod(s)),dtype=np.float64).reshape(s)+i).astype(d)
def eq_np(x,y): x=np.asarray(x);y=np.asarray(y); return x.shape==y.shape and x.dtype==y.dtype and np.array_equal(x,y)
chk(onp,mk_np,eq_np,'numpy')
import torch
from optree.integration import torch as ot
tdt={np.bool_:torch.bool,np.int8:torch.int8,np.int32:torch.int32,np.float32:torch.float32,np.float64:torch.float64}
def mk_t(s,d,i): return torch.from_numpy(np.ascontiguousarray(mk_np(s,d,i))).clone() if s!=() else torch.tensor(mk_np(s,d,i).item(),dtype=tdt[d])
def eq_t(x,y): return x.shape==y.shape and x.dtype==y.dtype and torch.equal(x,y)
chk(ot,mk_t,eq_t,'torch')
import jax, jax.numpy as jnp
from optree.integration import jax as oj
def mk_j(s,d,i): return jnp.asarray(mk_np(s,d,i))
def eq_j(x,y): x=np.asarray(x);y=np.asarray(y); return x.shape==y.shape and x.dtype==y.dtype and np.array_equal(x,y)
chk(oj,mk_j,eq_j,'jax')
print("n",n,"bad",bad)
