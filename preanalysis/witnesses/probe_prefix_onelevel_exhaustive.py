import optree, itertools
from collections import OrderedDict, defaultdict
S=optree.tree_structure
def chk(a,b):
    sa,sb=S(a),S(b)
    r1=sa.is_prefix(sb)
    try:
        sa.flatten_up_to(b); r2=True
    except ValueError: r2=False
    r3=(optree.prefix_errors(a,b)==[])
    if not (r1==r2==r3): print("DISAGREE",a,b,r1,r2,r3)
    return r1,r2,r3
subs=[1,(1,2),[1,(2,3)],{'x':1,'y':(1,2)},None,()]
keys=['a','b','c']
n=0
for perm in itertools.permutations(keys):
    for vals in itertools.product(subs,repeat=3):
        full=OrderedDict(zip(perm,vals))
        fulld=dict(zip(keys,[full[k] for k in keys]))
        for pv in itertools.product([0,(0,0),{'x':0,'y':0}],repeat=3):
            pre=dict(zip(keys,pv))
            for P in (pre, OrderedDict((k,pre[k]) for k in reversed(keys)), defaultdict(int,pre)):
                r=chk(P,full); r0=chk(P,fulld); n+=2
                if r!=r0: print("ORDER-DEP",P,full,r,r0)
print("checked",n)
# strict / equality under reordering
a=S(OrderedDict([('b',(1,2)),('a',1)])); b=S({'a':1,'b':(1,2)})
print(a<=b,b<=a,a<b,b<a,a==b)
c=S(OrderedDict([('b',0),('a',(0,(0,0)))])); d=S({'a':(1,(2,3)),'b':(4,5)})
print(c.is_prefix(d), c.is_prefix(d,strict=True), d.is_suffix(c))
