import optree, random, pickle, itertools, sys, time
from collections import OrderedDict, defaultdict, deque, namedtuple
random.seed(int(sys.argv[1]) if len(sys.argv)>1 else 0)
Pt=namedtuple('Pt','x y')
class Cu:
    def __init__(s,a,b,m=0): s.a=a;s.b=b;s.m=m
    def __eq__(s,o): return type(o) is Cu and (s.a,s.b,s.m)==(o.a,o.b,o.m)
optree.register_pytree_node(Cu, lambda c: ((c.a,c.b),c.m,('a','b')), lambda m,ch: Cu(*ch,m), namespace='ns', path_entry_type=optree.GetAttrEntry)
class Cf:
    def __init__(s,*xs): s.xs=list(xs)
    def __eq__(s,o): return type(o) is Cf and s.xs==o.xs
optree.register_pytree_node(Cf, lambda c: (c.xs,None), lambda m,ch: Cf(*ch), namespace='ns')
class L:
    def __init__(s,i,j): s.i=i;s.j=j
KEYS=['a','b','c',1,2,(1,2),None,3.5]
def leaf(): return random.choice([1,'s',2.5,object()])
def gen(d):
    if d==0 or random.random()<0.25: return random.choice([leaf(),leaf(),None,(),[] ,{}])
    k=random.randrange(10); n=random.randint(0,3)
    ch=[gen(d-1) for _ in range(n)]
    if k==0: return tuple(ch)
    if k==1: return list(ch)
    if k==2: 
        ks=random.sample(KEYS,n); return dict(zip(ks,ch))
    if k==3:
        ks=random.sample(KEYS,n); return OrderedDict(zip(ks,ch))
    if k==4:
        ks=random.sample(KEYS,n); return defaultdict(random.choice([int,list,None]),zip(ks,ch))
    if k==5: return deque(ch,maxlen=random.choice([None,n,n+2]))
    if k==6: return Pt(gen(d-1),gen(d-1))
    if k==7: return Cu(gen(d-1),gen(d-1),random.choice([0,'m']))
    if k==8: return Cf(*ch)
    return tuple(ch)
def same(a,b):
    if type(a) is not type(b): return False
    if isinstance(a,(dict,)):
        if list(a.keys())!=list(b.keys()): return False
        if isinstance(a,defaultdict) and a.default_factory is not b.default_factory: return False
        return all(same(a[k],b[k]) for k in a)
    if isinstance(a,deque): return a.maxlen==b.maxlen and len(a)==len(b) and all(same(x,y) for x,y in zip(a,b))
    if isinstance(a,(tuple,list)): return len(a)==len(b) and all(same(x,y) for x,y in zip(a,b))
    if isinstance(a,Cu): return a.m==b.m and same(a.a,b.a) and same(a.b,b.b)
    if isinstance(a,Cf): return same(a.xs,b.xs)
    return a is b
bad=0
def fail(*a):
    global bad; bad+=1
    if bad<12: print("FAIL",*a)
t0=time.time(); N=0
while time.time()-t0<float(sys.argv[2] if len(sys.argv)>2 else 20):
    N+=1
    t=gen(3); nil=random.random()<0.5; ns='ns'
    kw=dict(none_is_leaf=nil,namespace=ns)
    leaves,spec=optree.tree_flatten(t,**kw)
    r=optree.tree_unflatten(spec,leaves)
    if not same(t,r): fail("roundtrip",t,r)
    paths,l2,s2=optree.tree_flatten_with_path(t,**kw)
    if not (len(leaves)==len(l2) and all(x is y for x,y in zip(leaves,l2)) and spec==s2 and hash(spec)==hash(s2) and repr(spec)==repr(s2)): fail("withpath",t)
    l3=list(optree.tree_iter(t,**kw))
    if not (len(l3)==len(leaves) and all(x is y for x,y in zip(leaves,l3))): fail("iter",t)
    if paths!=spec.paths(): fail("paths",t,paths,spec.paths())
    acc=spec.accessors()
    for a,p,l in zip(acc,paths,leaves):
        if a.path!=p: fail("accpath",t,a,p)
        try:
            if a(t) is not l: fail("acc",t,a)
        except Exception as e:
            if 'FlattenedEntry' not in repr(e): fail("accexc",t,a,repr(e))
    # children rebuild
    ch=spec.children()
    if sum(c.num_nodes for c in ch)!=spec.num_nodes-1: fail("childsum",t)
    for i in range(-len(ch),len(ch)):
        if spec.child(i)!=ch[i]: fail("child",t,i)
    if spec.transform()!=spec or spec.transform(lambda s:s,lambda s:s)!=spec: fail("transform-id",t)
    if spec.transform(lambda s:s,lambda s:s).paths()!=spec.paths(): fail("transform-paths",t)
    # pickle
    s3=pickle.loads(pickle.dumps(spec))
    if not (s3==spec and hash(s3)==hash(spec) and repr(s3)==repr(spec) and s3.paths()==spec.paths() and same(s3.unflatten(leaves),r)): fail("pickle",t)
    # broadcast
    u=gen(2)
    su=optree.tree_structure(u,**kw)
    try:
        c1=spec.broadcast_to_common_suffix(su)
    except ValueError: c1=None
    try:
        c2=su.broadcast_to_common_suffix(spec)
    except ValueError: c2=None
    if (c1 is None)!=(c2 is None): fail("bcast-sym-raise",t,u)
    if c1 is not None:
        if not (spec.is_prefix(c1) and su.is_prefix(c1)): fail("bcast-notsuffix",t,u,c1)
        if c1.broadcast_to_common_suffix(c1)!=c1: fail("bcast-idem",t,u)
        if not (c1.is_prefix(c2) and c2.is_prefix(c1)): fail("bcast-sym",t,u,c1,c2)
        if c1.paths()!=optree.tree_paths(c1.unflatten(range(c1.num_leaves)),**kw): fail("bcast-paths",t,u,c1.paths())
    # compose
    if spec.num_leaves and su.num_leaves:
        comp=spec.compose(su)
        tt=spec.unflatten([su.unflatten([0]*su.num_leaves) for _ in range(spec.num_leaves)])
        if comp!=optree.tree_structure(tt,**kw): fail("compose",t,u)
        tr=optree.tree_transpose(spec,su,spec.unflatten([su.unflatten([L(i,j) for j in range(su.num_leaves)]) for i in range(spec.num_leaves)]))
        lv=optree.tree_leaves(tr,**kw)
        exp=[(i,j) for j in range(su.num_leaves) for i in range(spec.num_leaves)]
        if [(x.i,x.j) for x in lv]!=exp: fail("transpose",t,u)
print("cases",N,"bad",bad)
