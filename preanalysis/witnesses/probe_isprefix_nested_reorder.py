import optree
from collections import OrderedDict as OD
S=optree.tree_structure
def show(pre,full):
    sa,sb=S(pre),S(full)
    try: r1=sa.is_prefix(sb)
    except Exception as e: r1=type(e).__name__
    try: sa.flatten_up_to(full); r2=True
    except ValueError: r2=False
    print(pre,'|',full,'| is_prefix',r1,'flatten_up_to',r2)
# minimal candidates: outer reorder with unequal sizes + inner reorder
show(OD(x=OD(p=0,q=0), y=0), OD(y=(1,2), x=OD(q=1,p=2)))
show(OD(x=OD(p=0,q=0), y=0), OD(y=1, x=OD(q=1,p=2)))
show(OD(y=0, x=OD(p=0,q=0)), OD(x=OD(q=1,p=(2,3)), y=(1,2)))
show(OD(x=OD(p=0,q=0), y=0), OD(y=(1,2), x=OD(q=(1,1),p=2)))
