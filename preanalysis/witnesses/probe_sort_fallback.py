import optree
from optree.utils import total_order_sorted
class A:
    def __init__(s,n): s.n=n
    def __repr__(s): return f'A{s.n}'
a1,a2=A(1),A(2)
for keys in ([3,1,2,a1,a2], [a1,3,a2,1,2], [3,2,1,'b','a',a1,a2], [5,4,3,2,1,a1,a2]):
    d={k:i for i,k in enumerate(keys)}
    leaves,spec=optree.tree_flatten(d)
    print("keys", keys, "| engine order:", spec.entries(), "| python twin:", total_order_sorted(keys), "| one_level:", optree.tree_flatten_one_level(d).entries)
    rebuilt = optree.tree_unflatten(spec, leaves)
    print("   roundtrip keys:", list(rebuilt), "values ok:", rebuilt==d)
