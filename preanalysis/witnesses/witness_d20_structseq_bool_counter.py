"""D20 (C18): struct sequence class whose counter was rebound to a bool: engine and Python twin must agree.
Exit 1 on disagreement (the tree before fix 3fef7f1), 0 otherwise."""
import sys
import time

time.struct_time.n_fields = True      # a mutable heap type on CPython 3.12
from optree import typing as T  # noqa: E402

a = T.is_structseq_class(time.struct_time)
b = T.is_structseq_class.__python_implementation__(time.struct_time)
print('engine', a, 'python', b)
sys.exit(0 if a == b else 1)
