#!/bin/bash
# Offline setup: python3.12 overlay venv with z3/cvc5/crosshair/deal/icontract/hypothesis from the
# local wheelhouse, plus a .pth so that /venv's site-packages (numpy, jax, torch, pytest) import.
set -e
cd "$(dirname "$0")"
export PIP_NO_INDEX=1
PY=/root/.pyenv/versions/3.12.1/bin/python
if [ ! -x .venv/bin/python ] || ! .venv/bin/python -c "import z3, cvc5" 2>/dev/null; then
  rm -rf .venv
  $PY -m venv .venv
  .venv/bin/pip install -q --no-index --find-links /opt/veriftools/wheels z3-solver cvc5 crosshair-tool deal icontract hypothesis jsonschema
  SP=$(.venv/bin/python -c "import site; print(site.getsitepackages()[0])")
  echo "import site; site.addsitedir('/venv/lib/python3.12/site-packages')" > "$SP/zz_overlay.pth"
fi
.venv/bin/python -c "import z3, cvc5, numpy; print('venv ok', z3.get_version_string())"
mkdir -p .build evidence replays
# /repo/optree/_C*.so is an untracked build product (editable install) that goes stale when the C++
# sources change (e.g. by the `fix:` commits). Refresh it from the current sources so that the
# repository's own test-suite exercises the code that is in the tree. The checks never use it.
D=$(.venv/bin/python -m ocv.build)
if [ -w /repo/optree ]; then cp "$D/optree/_C.cpython-312-x86_64-linux-gnu.so" /repo/optree/ || true; fi
echo "setup done"
