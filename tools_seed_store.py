#!/usr/bin/env python3
"""usage: tools_seed_store.py <name> <seed-dir> <property> <result-line-file>...
Stores a confirmed seeded change as /verif/seeded/<name>/ (patch.diff, demo.py, README.txt of its author, meta.json) and records
which checks detect it (evaluated on a scratch copy of /repo with the patch applied, OCV_REPO pointing at it)."""
import json, os, re, shutil, subprocess, sys, tempfile
from pathlib import Path

VERIF = Path(__file__).resolve().parent
name, src, pid = sys.argv[1], Path(sys.argv[2]).resolve(), sys.argv[3]
logs = [Path(p) for p in sys.argv[4:]] or sorted((VERIF / 'seeded' / 'confirm_logs').glob('*.log'))
res_line = ''
for lg in logs:
    if lg.exists():
        for line in lg.read_text().splitlines():
            if line.startswith(f'RESULT {os.environ.get("RESULT_NAME", name)} ') and ('demo_changed_rc=1' in line or not res_line):
                res_line = line
m = re.search(r'demo_changed_rc=(\d+) demo_unchanged_rc=(\d+) suite=\[(.*)\]', res_line)
if not m:
    sys.exit(f'{name}: no confirmation result ({res_line!r})')
rc1, rc0, suite = int(m.group(1)), int(m.group(2)), m.group(3)
confirmed = rc1 == 1 and rc0 == 0 and re.search(r'\b94003 passed\b', suite) and 'failed' not in suite
out = VERIF / 'seeded' / name
out.mkdir(parents=True, exist_ok=True)
for f in ('patch.diff', 'demo.py', 'README.txt'):
    if (src / f).exists() and (src / f).resolve() != (out / f).resolve():
        shutil.copy(src / f, out / f)
readme = (src / 'README.txt').read_text() if (src / 'README.txt').exists() else ''

def section(*heads):
    for h in heads:
        mm = re.search(h + r'[^\n]*\n[-=]*\n?(.*?)(?:\n\s*\n[A-Z][^\n]*\n[-=]{3,}|\n\n[A-Z][a-z]+[^\n]*\n[-=]{3,}|\Z)', readme, re.S)
        if mm:
            return ' '.join(mm.group(1).split())[:900]
    return ''

# detection: run the property's quick check against a scratch copy
tmp = Path(tempfile.mkdtemp(prefix='seedstore-'))
for d in ('src', 'include', 'optree'):
    shutil.copytree('/repo/' + d, tmp / d)
for so in (tmp / 'optree').glob('*.so'):
    so.unlink()
subprocess.run(['patch', '-p1', '-s', '-i', str(src / 'patch.diff')], cwd=tmp, check=True)
env = dict(os.environ, OCV_REPO=str(tmp))
r = subprocess.run(['./check', pid, 'quick'], cwd=VERIF, env=env, capture_output=True, text=True)
shutil.rmtree(tmp)
viol = [l for l in r.stdout.splitlines() if l.startswith('VIOLATION')]
names = sorted({re.sub(r'-[0-9a-f]{10}\.py.*$', '', l.split('replay=')[1].split('/')[-1]) for l in viol})
bnd = [x for x in names if re.match(r'^C\d\d-C\d\d\.', x)]          # clause keys of bounded monitors: Cxx-Cxx.<clause>
ded = [x for x in names if x not in bnd]                          # everything else is a named proof obligation
meta = {
    'id': name,
    'property': pid,
    'files_changed': re.findall(r'^\+\+\+ b/(\S+)', (src / 'patch.diff').read_text(), re.M),
    'breaks': section('Clause of the property that is broken', 'Clause broken', 'Clause'),
    'needs_to_manifest': section('What is needed for it to manifest', 'What it needs', 'Needs'),
    'origin': 'written by an independent sub-agent that was given only the property text and a scratch worktree',
    'confirmed_by_me': {
        'how': 'tools_seed_confirm.sh: fresh git worktree of /repo at HEAD under /tmp, git apply patch.diff, g++ build, demo.py on the '
               'changed and on the unchanged build, then the unedited repository test-suite (pytest -q -p no:cacheprovider) in the worktree',
        'demo_exit_changed_build': rc1, 'demo_exit_unchanged_build': rc0, 'test_suite_with_change': suite,
        'verdict': 'confirmed' if confirmed else 'NOT confirmed',
    },
    'detection': {
        'command': f'OCV_REPO=<scratch copy with the patch> ./check {pid} quick',
        'exit_code': r.returncode, 'violation_lines': len(viol),
        'failed_obligations (deductive)': ded[:12], 'bounded_clauses': bnd[:12],
        'no_failing_input_found_lines': sum('no-failing-input-found' in l for l in viol),
    },
}
(out / 'meta.json').write_text(json.dumps(meta, indent=1) + '\n')
print(name, meta['confirmed_by_me']['verdict'], 'check rc', r.returncode, 'deductive', len(ded), 'bounded', len(bnd))
