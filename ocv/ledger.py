"""Regenerate the baseline ledger of discharged obligations (python -m ocv.ledger) - run on the unchanged tree only."""
import importlib
import json
from pathlib import Path

from .manifest import ALL

VERIF = Path(__file__).resolve().parent.parent


def main():
    led = {}
    for pid in ALL:
        try:
            p = importlib.import_module(f'ocv.props.{pid}')
        except ModuleNotFoundError:
            continue
        if not hasattr(p, 'deductive'):
            continue
        obs, _ = p.deductive('quick', 0)
        bad = [o.id for o in obs if o.status != 'discharged']
        if bad:
            raise SystemExit(f'{pid}: obligations not discharged on the baseline tree: {bad[:5]}')
        led[pid] = sorted(o.id for o in obs)
        print(pid, len(led[pid]))
    (VERIF / 'ocv' / 'ledger.json').write_text(json.dumps(led, indent=0) + '\n')


if __name__ == '__main__':
    main()
