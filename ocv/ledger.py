"""Regenerate the baseline ledger of discharged obligations (python -m ocv.ledger) - run on the unchanged tree only."""
import importlib
import json
from pathlib import Path

from .manifest import ALL

VERIF = Path(__file__).resolve().parent.parent


def main():
    led = {}
    for pid in ALL:
        try:
            p = importlib.import_module(f'ocv.props.{pid}')
        except ModuleNotFoundError:
            continue
        if not hasattr(p, 'deductive'):
            continue
        obs, _ = p.deductive('quick', 0)
        bad = [o.id for o in obs if o.status != 'discharged']
        if bad:
            raise SystemExit(f'{pid}: obligations not discharged on the baseline tree: {bad[:5]}')
        led[pid] = sorted(o.id for o in obs)
        print(pid, len(led[pid]))
    (VERIF / 'ocv' / 'ledger.json').write_text(json.dumps(led, indent=0) + '\n')
    loops()


def loops():
    """Baseline loop fingerprints per function (ocv/loops.json): loop specifications are keyed by baseline ordinal."""
    from .cxx.ast import load_program
    from .cxx.symex import Engine
    prog = load_program()
    eng = Engine(prog, {})
    out = {}
    for q, fn in sorted(prog.functions.items()):
        fps = [eng.loop_fingerprint(d) for d in eng.loop_nodes(fn)]
        if fps:
            out[q] = fps
    (VERIF / 'ocv' / 'loops.json').write_text(json.dumps(out, indent=0) + '\n')
    print('loops.json', len(out), 'functions with loops')


if __name__ == '__main__':
    main()
