"""Specification predicates shared by the Python twins (pyvc) and the engine twins (cxxvc) of C18.

Vocabulary (A-ATTR: attribute lookup on a class is deterministic and free of side effects; a lookup either yields a value
or fails with AttributeError - lookups raising anything else are the known finding C18.*_twin_agrees):"""
import z3

from .cxx.model import NULL, Bool, Int, Ref, Str

nt_is_type = z3.Function('nt_is_type', Ref, Bool)                 # isinstance(c, type)   / PyType_Check
nt_tuple_subclass = z3.Function('nt_tuple_subclass', Ref, Bool)   # issubclass(c, tuple)  / Py_TPFLAGS_TUPLE_SUBCLASS
nt_has = z3.Function('nt_has_attr', Ref, Str, Bool)               # the attribute exists
nt_attr = z3.Function('nt_attr', Ref, Str, Ref)                   # its value
nt_exact_tuple = z3.Function('nt_exact_tuple', Ref, Bool)         # type(v) is tuple      / PyTuple_CheckExact
nt_exact_str = z3.Function('nt_exact_str', Ref, Bool)             # type(v) is str        / PyUnicode_CheckExact
nt_callable = z3.Function('nt_callable', Ref, Bool)               # callable(v)           / PyCallable_Check
nt_len = z3.Function('py_len', Ref, Int)
nt_item = z3.Function('py_item', Ref, Int, Ref)


def nt_name(s):
    return z3.Const('name_' + s, Str)


NAMES = ('_fields', '_make', '_asdict')


def names_distinct():
    return z3.Distinct(*[nt_name(n) for n in NAMES])


def NT(c):
    """namedtuple class: a type, subclass of tuple, `_fields` an exact tuple of exact strs, `_make` and `_asdict` callable."""
    f = nt_attr(c, nt_name('_fields'))
    i = z3.Int('i!nt')
    return z3.And(nt_is_type(c), nt_tuple_subclass(c), nt_has(c, nt_name('_fields')), nt_exact_tuple(f),
                  z3.ForAll([i], z3.Implies(z3.And(0 <= i, i < nt_len(f)), nt_exact_str(nt_item(f, i)))),
                  nt_has(c, nt_name('_make')), nt_callable(nt_attr(c, nt_name('_make'))),
                  nt_has(c, nt_name('_asdict')), nt_callable(nt_attr(c, nt_name('_asdict'))))


def NT_impl(c):
    """What IsNamedTupleClassImpl decides: NT without the PyType_Check that its only caller IsNamedTupleClass performs first."""
    f = nt_attr(c, nt_name('_fields'))
    i = z3.Int('i!nt')
    return z3.And(nt_tuple_subclass(c), nt_has(c, nt_name('_fields')), nt_exact_tuple(f),
                  z3.ForAll([i], z3.Implies(z3.And(0 <= i, i < nt_len(f)), nt_exact_str(nt_item(f, i)))),
                  nt_has(c, nt_name('_make')), nt_callable(nt_attr(c, nt_name('_make'))),
                  nt_has(c, nt_name('_asdict')), nt_callable(nt_attr(c, nt_name('_asdict'))))


# ---- struct sequence classes -----------------------------------------------------------------------------------------
SS_NAMES = ('n_fields', 'n_sequence_fields', 'n_unnamed_fields')
ss_bases = z3.Function('ss_bases', Ref, Ref)                      # cls.__bases__          / type_object->tp_bases
ss_exact_int = z3.Function('ss_exact_int', Ref, Bool)             # type(v) is int         / PyLong_CheckExact
ss_is_int = z3.Function('ss_is_int', Ref, Bool)                   # isinstance(v, int)     / PyLong_Check
ss_basetype = z3.Function('ss_basetype', Ref, Bool)               # the class may be subclassed (Py_TPFLAGS_BASETYPE)
ss_tuple_type = z3.Const('py_tuple', Ref)                         # the object `tuple`     / &PyTuple_Type


def ss_names_distinct():
    return z3.Distinct(*[nt_name(n) for n in SS_NAMES])


def ss_bases_is_tuple_only(c):
    """`cls.__bases__ == (tuple,)` for the bases tuple of a class: one base, and it is `tuple` itself."""
    b = ss_bases(c)
    return z3.And(nt_exact_tuple(b), nt_len(b) == 1, nt_item(b, 0) == ss_tuple_type)


def SS_impl(c):
    """What IsStructSequenceClassImpl decides for a type object (its only caller IsStructSequenceClass does PyType_Check
    first): direct and only base `tuple`, the three counters present and exact ints, and the class is final."""
    return z3.And(nt_tuple_subclass(c), ss_bases(c) != NULL, ss_bases_is_tuple_only(c),
                  *[z3.And(nt_has(c, nt_name(n)), ss_exact_int(nt_attr(c, nt_name(n)))) for n in SS_NAMES],
                  z3.Not(ss_basetype(c)))
