"""Regenerate MANIFEST.json from the property modules (python -m ocv.manifest)."""
import importlib
import json
from pathlib import Path

VERIF = Path(__file__).resolve().parent.parent
ALL = [f'C{i:02d}' for i in range(1, 21)]
BASELINE = ('cd /repo && /venv/bin/python -m pytest -ra -q -p no:cacheprovider --timeout=900 '
            '--continue-on-collection-errors')


def main():
    checks, na = [], []
    for pid in ALL:
        try:
            p = importlib.import_module(f'ocv.props.{pid}')
        except ModuleNotFoundError:
            na.append({'property_id': pid, 'reason': 'check not built yet (work in progress; see DESIGN.md section 2 for the plan)'})
            continue
        if getattr(p, 'NOT_APPLICABLE', None):
            na.append({'property_id': pid, 'reason': p.NOT_APPLICABLE})
            continue
        checks.append({
            'property_id': pid,
            'quick_cmd': f'./check {pid} quick',
            'thorough_cmd': f'./check {pid} thorough',
            'evidence_file': f'/verif/evidence/{pid}.json',
            'replay_cmd_template': f'./check {pid} --replay {{path}}',
            'engine': 'ocv',
            'level_claimed': {'category': p.LEVEL, 'text': p.LEVEL_TEXT, 'design_ref': f'DESIGN.md section 2, {pid}'},
            'level_note': p.LEVEL_NOTE,
            'technique': p.TECHNIQUE,
        })
    m = {
        'version': 1,
        'setup_cmd': './setup.sh',
        'hooks': {
            'guard': 'OPTREE_VERIF',
            'enable': 'no hook is needed: abstract views come from PyTreeSpec.__getstate__/__setstate__; every check rebuilds '
                      'the extension from /repo\'s working tree with g++ into /verif/.build/<hash> (python -m ocv.build)',
            'baseline_off_cmd': BASELINE,
            'source_commits': [],
            'add_only': True,
        },
        'engines': [
            {'name': 'ocv', 'path': '/verif/ocv', 'serves_properties': [c['property_id'] for c in checks],
             'kind_free_text': 'contract-based deductive verification: VC generators over the clang-14 JSON AST of the real C++ '
                               '(cxxvc) and the python ast of the real Python (pyvc), sidecar contracts, z3/cvc5; native replay; '
                               'bounded contract monitors as labelled stand-ins'},
        ],
        'checks': checks,
        'not_applicable': na,
        'notes': 'See DESIGN.md. Exit codes: 0 held, 1 VIOLATION, 2 undecided, 3 tool error.',
    }
    (VERIF / 'MANIFEST.json').write_text(json.dumps(m, indent=1) + '\n')
    print(f'{len(checks)} checks, {len(na)} not applicable')


if __name__ == '__main__':
    main()
