"""Abstract std::unordered_map / std::unordered_set: a characteristic function `has` and a value function `val`,
keyed by one or two z3 terms (identity keys: py::handle, std::string, std::pair<std::string, py::handle>)."""
from __future__ import annotations

from dataclasses import dataclass, replace
from typing import Any

import z3

from .model import NULL, Bool, Ref, Str, Opaque, Ptr, PyObj, Tup


@dataclass(frozen=True)
class AbsMap:
    has: Any          # Array(K1 -> Bool) or Array(K1 -> Array(K2 -> Bool))
    val: Any          # same shape -> Ref (None for sets)
    nkeys: int
    name: str = ''
    guard: str = ''   # name of the mutex that must be held for every access (lockset discipline, C17 L2)

    @staticmethod
    def symbolic(name, sorts, valued=True, guard=''):
        def arr(suffix, rng):
            s = rng
            for k in reversed(sorts):
                s = z3.ArraySort(k, s)
            return z3.Const(f'{name}.{suffix}', s)
        return AbsMap(arr('has', Bool), arr('val', Ref) if valued else None, len(sorts), name, guard)

    def _sel(self, a, key):
        for k in key:
            a = z3.Select(a, k)
        return a

    def _store(self, a, key, v):
        if len(key) == 1:
            return z3.Store(a, key[0], v)
        inner = z3.Store(z3.Select(a, key[0]), key[1], v)
        return z3.Store(a, key[0], inner)

    def contains(self, key):
        return self._sel(self.has, key)

    def get(self, key):
        return self._sel(self.val, key)

    def put(self, key, v=None, cond=None):
        has = self._store(self.has, key, z3.BoolVal(True))
        val = self.val
        if val is not None and v is not None:
            val = self._store(self.val, key, v)
        if cond is not None:
            has = z3.If(cond, has, self.has)
            val = z3.If(cond, val, self.val) if val is not None else None
        return replace(self, has=has, val=val)

    def remove(self, key):
        return replace(self, has=self._store(self.has, key, z3.BoolVal(False)))


@dataclass(frozen=True)
class MapIt:
    oid: int
    key: tuple | None      # None = end()


def keyof(v):
    from .symex import refof, Unsupported
    if isinstance(v, Tup):
        out = ()
        for x in v.items:
            out += keyof(x)
        return out
    if isinstance(v, PyObj):
        return (v.ref,)
    if z3.is_expr(v):
        return (v,)
    raise Unsupported(f'map key {v!r}')


def map_method(eng, st, base: Ptr, m: AbsMap, name, A, n):
    from .symex import Unsupported
    oid = base.oid
    if m.guard:
        eng.oblige(st, 'IV', f'L2:lockset:{m.name}.{name}-under-{m.guard}', z3.BoolVal(m.guard in st.ghost['locks']),
                   n.get('line'))
    if name == 'find':
        return [(st, MapIt(oid, keyof(A[0])))]
    if name in ('end', 'cend'):
        return [(st, MapIt(oid, None))]
    if name == 'emplace':
        key = keyof(A[0])
        v = None
        if len(A) > 1:
            v = A[1].ref if isinstance(A[1], PyObj) else A[1]
        inserted = z3.Not(m.contains(key))
        st.heap[oid] = m.put(key, v, cond=inserted)
        return [(st, Tup((MapIt(oid, key), inserted)))]
    if name == 'insert':
        key = keyof(A[0])
        inserted = z3.Not(m.contains(key))
        st.heap[oid] = m.put(key)
        return [(st, Tup((MapIt(oid, key), inserted)))]
    if name == 'erase':
        a = A[0]
        key = a.key if isinstance(a, MapIt) else keyof(a)
        if isinstance(a, MapIt):
            eng.oblige(st, 'II', f'{m.name}.erase:iterator-is-valid', m.contains(key), n.get('line'))
        st.heap[oid] = m.remove(key)
        return [(st, None)]
    if name == 'size':
        # the cardinality is not tracked: an unknown non-negative number
        from .model import Int, fresh
        sz = fresh(f'{m.name}.size', Int)
        st.pc.append(sz >= 0)
        return [(st, sz)]
    raise Unsupported(f'map method {name}')


def it_equal(st, a: MapIt, b: MapIt):
    from .symex import Unsupported
    if a.oid != b.oid:
        raise Unsupported('iterators of different maps')
    m = st.heap[a.oid]
    if a.key is None and b.key is None:
        return z3.BoolVal(True)
    if b.key is None:
        return z3.Not(m.contains(a.key))
    if a.key is None:
        return z3.Not(m.contains(b.key))
    return z3.And(*[x == y for x, y in zip(a.key, b.key)])
