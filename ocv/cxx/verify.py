"""Run cxxvc on a list of functions under contract and discharge the generated VCs."""
from __future__ import annotations

import importlib
import pkgutil
import sys
import time
import traceback

from ..result import Obligation
from . import contract as C
from .ast import load_program
from .solver import discharge
from .symex import Engine, Unsupported

DROPS = [
    'string building (std::ostringstream, PyRepr/PyStr results, exception messages): opaque; only the exception class is kept '
    '(calls to PyRepr/PyStr are kept as may-call-Python effects)',
    'reference counting / ownership inside py::object and py::handle (RAII trusted to pybind11)',
    'reserve/shrink_to_fit, [[likely]] attributes, scoped_critical_section* (no-ops on the GIL build compiled here)',
    'Python objects are an uninterpreted sort with abstract observers (py_len, py_item, py_type, py_eq, py_hash)',
    'machine integers are mathematical integers (A-INT)',
    'source ranges, implicit casts / temporaries / cleanups / parentheses (value-preserving wrappers)',
]


def load_contracts():
    import ocv.contracts as pkg
    for m in pkgutil.iter_modules(pkg.__path__):
        importlib.import_module(f'ocv.contracts.{m.name}')
    return C.REGISTRY


def _cache_key():
    import hashlib
    from pathlib import Path
    from .. import build as B
    h = hashlib.sha256()
    h.update(B.tree_hash(B.REPO, 'cxx').encode())
    root = Path(__file__).resolve().parent.parent
    for p in sorted(list((root / 'cxx').glob('*.py')) + list((root / 'contracts').glob('*.py'))):
        h.update(p.read_bytes())
    return h.hexdigest()[:16]


def _fname(q: str) -> str:
    return q.replace(':', '_').replace('<', '.lt.').replace('>', '.gt.').replace('=', '.eq.').replace('!', '.not.')


def verify(functions: list[str], budgets=(8, 30, 60), verbose=False, use_cache=True):
    """Obligations of the given functions.  Results are cached per function, keyed by the content hash of the C++
    tree and of the engine + contracts (so every property check of one run shares the work)."""
    import json
    from pathlib import Path
    cache_dir = Path(__file__).resolve().parent.parent.parent / '.cache'
    cache_dir.mkdir(exist_ok=True)
    key = _cache_key()
    cached, todo = {}, []
    for q in functions:
        cf = cache_dir / f'vc-{key}-{_fname(q)}.json'
        if use_cache and cf.exists():
            try:
                cached[q] = [Obligation(**o) for o in json.loads(cf.read_text())]
                continue
            except Exception:
                pass
        todo.append(q)
    obs_new, info = _verify(todo, budgets, verbose) if todo else ([], None)
    if todo:
        for old in cache_dir.glob('vc-*.json'):
            if not old.name.startswith(f'vc-{key}-'):
                old.unlink()
        byfn = {}
        for o in obs_new:
            byfn.setdefault(o.function.split('<')[0], []).append(o)
        for q in todo:
            cf = cache_dir / f'vc-{key}-{_fname(q)}.json'
            if all(o.status in ('discharged', 'failed') for o in byfn.get(q, [])) and byfn.get(q):
                cf.write_text(json.dumps([o.to_json() for o in byfn[q]]))
    obs = []
    for q in functions:
        if q in cached:
            obs += cached[q]
    obs += obs_new
    info = info or {'drops': DROPS, 'vc_generation_s': 0.0}
    info['functions'] = list(functions)
    info['classes'] = {c: sum(1 for o in obs if o.cls == c) for c in sorted({o.cls for o in obs})}
    info['backends'] = {b: sum(1 for o in obs if o.backend == b) for b in sorted({o.backend for o in obs})}
    info['from_cache'] = sorted(cached)
    return obs, info


def _canary_one(job):
    from .solver import _z3_check
    fn, smt2 = job
    r, detail = _z3_check(smt2, 4000, 0, False)
    return fn, r, detail


def _canaries(vcs):
    """Vacuity guard: for every function (instance) the hypotheses of its last postcondition obligation - the WF axioms, the
    contract's facts and lemmas, a full path condition - must not be refutable.  `unsat` here means the proof context is
    contradictory and every obligation of the function would be discharged vacuously: reported as an engine error."""
    from concurrent.futures import ProcessPoolExecutor
    import z3
    from .solver import vc_to_smt2
    # candidates: the contexts of up to 8 postcondition obligations per function (different paths); a single one may
    # belong to an infeasible path (its obligation is then trivially true, which is fine) - what must not happen is that
    # ALL contexts of a function are contradictory
    import re as _re
    cands = {}
    seen_paths = {}
    for vc in vcs:
        if not ('::post:' in vc.id or '::frame' in vc.id):
            continue
        m = _re.search(r'#(\d+)$', vc.id)
        path = m.group(1) if m else '0'
        sp = seen_paths.setdefault(vc.function, set())
        if path in sp or len(sp) >= 12:
            continue                       # one context per path, at most 12 paths per function
        sp.add(path)
        cands.setdefault(vc.function, []).append(vc)
    for vc in vcs:
        if not cands.get(vc.function):
            cands[vc.function] = [vc]
    jobs = [(f'{fn}#{k}', vc_to_smt2(vc.hyps, z3.BoolVal(False))) for fn, lst in cands.items() for k, vc in enumerate(lst)]
    out = []
    if not jobs:
        return out
    verdicts = {}
    with ProcessPoolExecutor(max_workers=14) as ex:
        for key, r, detail in ex.map(_canary_one, jobs, chunksize=1):
            verdicts.setdefault(key.rsplit('#', 1)[0], []).append(r)
    for fn, rs in verdicts.items():
        bad = all(r == 'unsat' for r in rs)
        out.append(Obligation(id=f'{fn}::X::hypotheses-are-not-contradictory', function=fn, cls='X',
                              status='error' if bad else 'discharged', backend=f"canary(z3:{'/'.join(sorted(set(rs)))})",
                              detail='every proof context of this function is contradictory: its obligations would be '
                                     'discharged vacuously' if bad else f'{sum(r != "unsat" for r in rs)} of {len(rs)} sampled contexts not refutable'))
    return out


def _lifetime_obligation(prog, q):
    """Syntactic lifetime obligation over the function AND its explicit instantiations (where dependent container types are
    resolved): no non-owning py::handle - a variable, or an element pushed into a std::vector<py::handle> - is copied from a
    temporary that solely owns a new Python object (the markers are computed by ocv/cxx/ast.py from the unreduced clang AST)."""
    hits = []

    def walk(n):
        yield n
        for c in n.c:
            yield from walk(c)
    for k, fn in prog.functions.items():
        if k == q or k.startswith(q + '<'):
            for d in walk(fn):
                if d.get('dangling') and (d.get('handle_push') or d.get('handle_var')):
                    hits.append(f"L{d.get('line')} in {k}: {'pushed handle' if d.get('handle_push') else 'handle variable ' + str(d.name)} "
                                f"is copied from the temporary {d.get('dangling')}")
    return Obligation(id=f'{q}::II::lifetime:no-handle-outlives-a-temporary-that-solely-owns-its-object', function=q, cls='II',
                      status='failed' if hits else 'discharged', backend='syntactic(lifetime)',
                      detail='; '.join(sorted(set(hits))[:4]))


def _verify(functions: list[str], budgets=(8, 30, 60), verbose=False):
    prog = load_program()
    contracts = load_contracts()
    all_vcs = []
    errors = []
    covers = {}
    t0 = time.time()
    for q in functions:
        if q not in contracts:
            errors.append(Obligation(id=f'{q}::contract-exists', function=q, cls='X', status='error',
                                     detail='no sidecar contract for this function'))
            continue
        if q not in prog.functions:
            errors.append(Obligation(id=f'{q}::function-exists', function=q, cls='X', status='unknown',
                                     detail='the function named by the sidecar no longer exists (contract drift)'))
            continue
        eng = Engine(prog, contracts)
        try:
            insts = getattr(contracts[q], 'template_instances', None) or [None]
            for inst in insts:
                import z3 as _z3
                contracts[q].template_instance = ({k: _z3.BoolVal(v) for k, v in inst.items()} if inst else {})
                label = '' if not inst else '<' + ','.join(f'{k}={str(v).lower()}' for k, v in inst.items()) + '>'
                eng.names = {}
                eng.run(q, contracts[q], label=label)
        except Unsupported as e:
            errors.append(Obligation(id=f'{q}::extraction', function=q, cls='X', status='unknown',
                                     detail=f'construct outside the modelled subset: {e}'
                                            + (f' ({len(eng.vcs)} obligations generated on the paths explored before it are still decided)'
                                               if eng.vcs else '')))
            if verbose:
                traceback.print_exc()
            # partial extraction: the obligations generated before the unsupported construct was reached are proper
            # verification conditions of complete path prefixes; they are decided (a failure among them is a failed named
            # obligation), the function as a whole stays undecided
            all_vcs += eng.vcs
            continue
        except Exception:
            errors.append(Obligation(id=f'{q}::engine', function=q, cls='X', status='error',
                                     detail=traceback.format_exc()[-1500:]))
            if verbose:
                traceback.print_exc()
            continue
        all_vcs += eng.vcs
        for fn, normal in eng.covers:
            covers[fn] = normal
        errors.append(_lifetime_obligation(prog, q))
    t_gen = time.time() - t0
    obs = discharge(all_vcs, budgets)
    obs += _canaries(all_vcs)
    # cover obligations: every function must have a reachable normal exit (non-vacuous precondition)
    for fn, normal in covers.items():
        obs.append(Obligation(id=f'{fn}::COVER::normal-exit-reachable', function=fn, cls='COVER',
                              status='discharged' if normal > 0 or getattr(contracts[fn.split('<')[0]], 'never_returns', False) else 'failed',
                              backend='symex', detail=f'{normal} feasible normal exit path(s)'))
    obs += errors
    info = {
        'functions': [q for q in functions],
        'classes': {c: sum(1 for o in obs if o.cls == c) for c in sorted({o.cls for o in obs})},
        'backends': {b: sum(1 for o in obs if o.backend == b) for b in sorted({o.backend for o in obs})},
        'drops': DROPS,
        'vc_generation_s': round(t_gen, 2),
    }
    return obs, info


if __name__ == '__main__':
    fns = [a for a in sys.argv[1:] if not a.startswith('--')]
    if not fns:
        # call-site summaries of functions that are not under contract themselves are not verification targets
        fns = sorted(q for q, c in load_contracts().items()
                     if not (getattr(c, 'external_summary', False) or getattr(c, 'summary_only', False)))
    t = time.time()
    obs, info = verify(fns, verbose=True, use_cache='--cache' in sys.argv)
    for o in obs:
        flag = {'discharged': 'ok  ', 'failed': 'FAIL', 'unknown': '??? ', 'error': 'ERR '}[o.status]
        print(f'{flag} {o.id}  [{o.backend} {o.time_s}s] {o.source} {o.detail[:300] if o.status != "discharged" else ""}')
    print(info['classes'], f'{time.time() - t:.1f}s', 'discharged', sum(o.status == 'discharged' for o in obs), '/', len(obs))
