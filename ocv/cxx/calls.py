"""Call models of cxxvc: STL containers / algorithms, pybind11 and the CPython access helpers of pytypes.h are
external (contracts of the trusted base, DESIGN.md 1.2 "External calls"); in-repo functions are replaced by their
sidecar contract or, when small and without contract, inlined from their own AST."""
from __future__ import annotations

import re
from dataclasses import replace

import z3

from . import model as M
from .model import (EMPTY, Int, Bool, KIND, NULL, PYNONE, Ref, Str, BackInserter, Bound, ElemRef, Func, Iter, Lam, NodeVal, OptNode,
                    NodeVec, Opaque, PairVec, Ptr, PtrVec, PyObj, PySeqIter, ScalarVec, SpecObj, Tup, fresh)

# epoch-indexed length of mutable Python containers reachable from user code
list_len_at = z3.Function('list_len_at', Ref, Int, Int)
dict_has_at = z3.Function('dict_has_at', Ref, Ref, Int, Bool)
py_truthy = z3.Function('py_truthy', Ref, Int, Bool)
py_call = z3.Function('py_call_result', Ref, Int, Ref)


class PyMethod:
    def __init__(self, obj, name):
        self.obj, self.name = obj, name


def U():
    from .symex import Unsupported
    return Unsupported


def pylen(eng, st, o: PyObj, mutable: bool):
    """len(o) as seen now.  Fresh or spec-owned containers are stable, others are indexed by the Python-call epoch."""
    if not mutable or o.fresh or getattr(o, 'stable', False):
        return M.py_len(o.ref)
    ln = list_len_at(o.ref, z3.IntVal(st.ghost['epoch']))
    st.pc.append(ln >= 0)
    return ln


# ------------------------------------------------------------------------------------------------
def call(eng, n, st):
    from .symex import Unsupported, as_int, as_bool, refof
    callee_n = n.c[0]
    args_n = n.c[1:]
    # callee
    if callee_n.k == 'DeclRefExpr' and st.scope.lookup(callee_n.name) is not None and callee_n.get('refk') != 'FunctionDecl':
        v = st.get(callee_n.name)
        if isinstance(v, Lam):
            return call_lambda(eng, v, args_n, st)
    name = callee_n.name or ''
    hook = getattr(eng.cur_contract, 'call_hook', None)
    if hook is not None:
        r = hook(eng, st, name, args_n, n)
        if r is not None:
            return r
    if callee_n.k in ('CXXDependentScopeMemberExpr', 'UnresolvedMemberExpr') or \
            (callee_n.k == 'MemberExpr' and callee_n.c):
        # member call whose overload is unresolved in a template pattern
        outs = []
        base_n = callee_n.c[0] if callee_n.c else None
        bases = eng.ev(base_n, st) if base_n is not None else [(st, st.this)]
        for s, base in bases:
            for s2, args in eng.ev_seq([a for a in args_n if a.k != 'CXXDefaultArgExpr'], s):
                outs += method(eng, s2, base, name, args, n, callee_n)
        return outs
    if callee_n.k == 'MemberExpr':       # static method through member syntax
        name = callee_n.name
    if not name and callee_n.k in ('UnresolvedLookupExpr',):
        name = (callee_n.get('lookups') or [''])[0]
    outs = []
    if name == 'HashCombine' and len(args_n) == 2:
        # HashCombine(seed&, value): seed := hc(seed, value) with hc uninterpreted (sound for equality of folds)
        for s, v in eng.ev(args_n[1], st):
            hook = getattr(eng.cur_contract, 'hash_combine', None)
            if hook:
                hook(eng, s, v, n)
            s, p = eng.place(args_n[0], s)
            old = eng.read_place(s, p)
            vi = v.ref if isinstance(v, PyObj) else v
            if z3.is_bool(vi):
                vi = z3.If(vi, z3.IntVal(1), z3.IntVal(0))
            if z3.is_expr(vi) and vi.sort() == Str:
                vi = z3.Function('str_hash', Str, Int)(vi)
            if not (z3.is_expr(vi) and z3.is_int(vi)):
                raise Unsupported(f'HashCombine of {v!r}')
            eng.write_place(s, p, z3.Function('hash_combine', Int, Int, Int)(old, vi))
            outs.append((s, None))
        return outs
    for s, args in eng.ev_seq([a for a in args_n if a.k != 'CXXDefaultArgExpr'], st):
        outs += call_named(eng, s, name, args, n, callee_n)
    return outs


def call_lambda(eng, lam: Lam, args_n, st):
    body = lam.node
    # LambdaExpr children: CXXRecordDecl (closure type) ..., CompoundStmt body; parameters are in the CXXMethodDecl operator()
    params = []
    for d in eng.walk(body):
        if d.k == 'CXXMethodDecl' and d.name == 'operator()':
            params = [c for c in d.c if c.k == 'ParmVarDecl']
            break
    comp = [c for c in body.c if c.k == 'CompoundStmt'][-1]
    outs = []
    for s, args in eng.ev_seq(args_n, st):
        # run the body in a scope chained to the *current* scope (captures are by reference to live variables)
        saved = s.scope
        s.scope = type(saved)(saved)
        for p, a in zip(params, args):
            s.set(p.name, a, declare=True)
        eng.inline_depth += 0
        res = eng.ex(comp, s)
        for s2, o in res:
            # unwind to the caller's scope object of *that* state
            sc = s2.scope
            while sc is not None and not _is_marker(sc, params):
                sc = sc.parent
            s2.scope = sc.parent if sc is not None else s2.scope
            if o == ('normal',):
                outs.append((s2, None))
            elif o[0] == 'return':
                outs.append((s2, o[1]))
            else:
                raise Unsupported(f'lambda ended with {o}')
    return outs


def _is_marker(sc, params):
    names = {p.name for p in params}
    return names.issubset(sc.vars.keys()) and (names or not sc.vars)


def call_named(eng, st, name, args, n, callee_n=None):
    from .symex import Unsupported, as_int, as_bool, refof
    line = n.get('line')
    A = args
    # ---- trivial wrappers
    if name in ('ssize_t_cast', 'move', 'forward', 'as_const', 'addressof'):
        return [(st, A[0])]
    if name == 'min':
        return [(st, z3.If(as_int(A[0]) < as_int(A[1]), as_int(A[0]), as_int(A[1])))]
    if name in ('make_pair', 'make_tuple') and not n.t.startswith('pybind11') and 'py::' not in n.t:
        return [(st, Tup(tuple(A)))]
    if name == 'make_tuple':
        # py::make_tuple(a0, ..., ak): a new Python tuple holding exactly these objects
        r = fresh('py_tuple', Ref)
        st.pc.append(z3.And(r != NULL, M.py_len(r) == len(A), z3.Function('py_is_tuple', Ref, Bool)(r)))
        for i, a in enumerate(A):
            a = eng.load(st, a) if isinstance(a, ElemRef) else a
            st.pc.append(M.py_item(r, z3.IntVal(i)) == (a.ref if isinstance(a, PyObj) else a))
        return [(st, PyObj(r, fresh=True, stable=True))]
    if name == 'reserved_vector':
        return [(st, new_vector(eng, st, n.t, 'vec'))]
    if name == 'make_unique':
        if not A:
            return [(st, new_spec(st))]
        src = A[0]
        if isinstance(src, Ptr) and isinstance(st.heap.get(src.oid), SpecObj):
            so = st.heap[src.oid]
            nv = st.alloc(st.heap[so.trav])
            return [(st, Ptr(st.alloc(SpecObj(nv, so.nil, so.ns))))]
        raise Unsupported(f'make_unique({src!r})')
    if name == 'make_shared':
        r = fresh('registration', Ref)
        st.pc.append(r != NULL)
        return [(st, r)]
    if name == 'Singleton':
        hook = getattr(eng.cur_contract, 'singleton', None)
        if hook is None:
            raise Unsupported('Singleton() outside a registry contract')
        return [(st, hook(eng, st, template_args(eng, callee_n, 'Singleton')))]
    if name == 'back_inserter':
        return [(st, BackInserter(A[0].oid))]
    if name == 'copy':
        return [(st, std_copy(eng, st, A[0], A[1], A[2], line))]
    if name == 'reverse':
        std_reverse(eng, st, A[0], A[1], line)
        return [(st, None)]
    if name in ('rethrow_exception',):
        eng.throw(st, 'rethrow', line)
        return []
    if name == 'current_exception':
        return [(st, Opaque('exc'))]
    if name == 'get_id':
        return [(st, Opaque('thread_id'))]
    # ---- CPython access helpers (pytypes.h) and pybind11
    r = py_model(eng, st, name, A, n)
    if r is not None:
        return r
    # ---- in-repo function: contract or inline
    q = resolve(eng, name, n)
    if q is not None:
        params = eng.prog.template_params.get(q)
        if params:
            targs = template_args(eng, callee_n, name)
            saved = dict(eng.template_env)
            for pn, tv in zip(params, targs):
                if tv is not None:
                    eng.template_env[pn] = tv
            try:
                return call_repo(eng, st, q, None, A, n)
            finally:
                eng.template_env = saved
        return call_repo(eng, st, q, None, A, n)
    raise Unsupported(f'call to {name}({len(A)} args) at L{line} in {eng.fn}')


def template_args(eng, callee_n, name):
    """Template arguments of a call: explicit ones recorded by clang for the referenced specialisation, otherwise
    (dependent call inside a pattern) the enclosing function's own symbolic/concrete template parameters."""
    if callee_n is not None and (callee_n.get('ref') or callee_n.get('refm')):
        tu = getattr(eng, 'cur_tu', None)
        for key in ((tu, callee_n.get('ref') or callee_n.get('refm')),):
            if key in eng.prog.spec_targs:
                return [z3.BoolVal(bool(v)) if v is not None else None for v in eng.prog.spec_targs[key]]
    env = eng.template_env
    if 'NoneIsLeaf' in env:
        return [env['NoneIsLeaf']]
    return []


def resolve(eng, name, n=None, owner_hint=None):
    cands = [q for q in eng.prog.functions if q.split('::')[-1].split('/')[0] == name]
    if owner_hint:
        c2 = [q for q in cands if owner_hint in q]
        cands = c2 or cands
    if not cands:
        for q in eng.contracts:
            if q.split('::')[-1] == name:
                return q
        return None
    if len(cands) > 1 and n is not None:
        nargs = len([a for a in n.c[1:]])
        c2 = [q for q in cands if sum(1 for c in eng.prog.functions[q].c if c.k == 'ParmVarDecl') == nargs]
        cands = c2 or cands
    return sorted(cands, key=len)[-1] if len(cands) > 1 and any('PyTreeSpec' in c for c in cands) else cands[0]


def call_repo(eng, st, q, this, args, n):
    """Call of an in-repo function: by contract if there is one (modular), else inline its body."""
    from .symex import Unsupported, Ctx, NORMAL
    c = eng.contracts.get(q)
    if c is not None and not getattr(c, 'inline', False):
        return c.apply(eng, st, this, args, n)
    fn = eng.prog.functions.get(q)
    if fn is None:
        raise Unsupported(f'no body and no contract for {q}')
    if eng.inline_depth > 6:
        raise Unsupported(f'inline depth exceeded at {q}')
    params = [p for p in fn.c if p.k == 'ParmVarDecl']
    body = next(x for x in fn.c if x.k == 'CompoundStmt')
    saved_scope, saved_this, saved_loop, saved_ic = st.scope, st.this, eng.loop_ordinal, getattr(eng, 'inline_contract', None)
    saved_tu = getattr(eng, 'cur_tu', None)
    eng.cur_tu = fn.get('tu', saved_tu)
    st.scope = type(saved_scope)(None)          # fresh frame
    st.scope.vars['__frame__'] = q
    for p, a in zip(params, args):
        st.set(p.name, a, declare=True)
    # defaulted parameters
    for p in params[len(args):]:
        dflt = [x for x in p.c if not x.k.endswith('Attr')]
        if dflt:
            (s_, v), = eng.ev(dflt[0], st)
            st.set(p.name, v, declare=True)
    st.this = this if this is not None else st.this
    eng.inline_depth += 1
    eng.inline_contract = c
    eng.index_loops(fn)
    saved_exc = eng.exc
    eng.exc = []
    res = eng.ex(body, st)
    thrown = eng.exc
    eng.exc = saved_exc
    eng.inline_depth -= 1
    eng.cur_tu = saved_tu
    eng.loop_ordinal = saved_loop
    eng.inline_contract = saved_ic
    outs = []
    # NOTE: forks inside the callee cloned the caller's scope chain as well; since the callee frame has no parent we
    # re-attach a clone-consistent caller scope: states produced by clone() keep an independent copy of every scope
    # reachable from *their* st.scope, and the caller scope is not reachable from the callee frame.  Therefore the
    # callee is only allowed to fork when the caller scope can be shared (values are immutable records).
    for s2, o in res:
        s2.scope = saved_scope if s2 is st else _clone_scope(saved_scope)
        s2.this = saved_this
        if o is NORMAL:
            outs.append((s2, None))
        elif o[0] == 'return':
            outs.append((s2, o[1]))
        else:
            raise Unsupported(f'callee {q} ended with {o}')
    for s2, o in thrown:
        s2.scope = saved_scope if s2 is st else _clone_scope(saved_scope)
        s2.this = saved_this
        eng.exc.append((s2, o))
    return outs


def _clone_scope(sc):
    return sc.clone({})


# ------------------------------------------------------------------------------------------------
def new_vector(eng, st, t, name):
    from .symex import type_class, Unsupported
    tc = type_class(t)
    if tc == 'nodevec':
        return Ptr(st.alloc(NodeVec.empty(name)))
    if tc == 'intvec':
        return Ptr(st.alloc(ScalarVec.empty(name, Int)))
    if tc == 'objvec':
        return Ptr(st.alloc(ScalarVec.empty(name, Ref)))
    if tc == 'pairvec':
        return Ptr(st.alloc(PairVec(z3.IntVal(0), z3.K(Int, z3.IntVal(0)), z3.K(Int, z3.IntVal(0)))))
    if tc == 'ptrvec':
        return Ptr(st.alloc(PtrVec(z3.IntVal(0), ())))
    if 'vector<PyTreeSpec' in t or 'vector<optree::PyTreeSpec' in t:
        # std::vector<PyTreeSpec> of copies of *existing* treespec objects: each element is identified by the Python object
        # it was cast from; its contents are the (immutable) contents of that object (M.ext_spec_*)
        return Ptr(st.alloc(ScalarVec.empty('specvec:' + name, Ref)))
    if 'vector<std::basic_string' in t or 'vector<std::string' in t:
        return Ptr(st.alloc(ScalarVec(z3.IntVal(0), z3.K(Int, EMPTY), Str, name)))
    raise Unsupported(f'new_vector of {t}')


def new_spec(st):
    v = st.alloc(NodeVec.empty('newspec'))
    return Ptr(st.alloc(SpecObj(v, z3.BoolVal(False), EMPTY)))


def std_copy(eng, st, first, last, out, line):
    from .symex import Unsupported
    if not (isinstance(first, Iter) and isinstance(last, Iter) and first.oid == last.oid):
        raise Unsupported('std::copy on non-iterators')
    src = st.heap[first.oid]
    if first.rev != last.rev:
        raise Unsupported('mixed iterators')
    if isinstance(out, BackInserter):
        dst = st.heap[out.oid]
        lo, hi = first.pos, last.pos
        eng.oblige(st, 'II', 'std::copy:source-range-valid', z3.And(0 <= lo, lo <= hi, hi <= src.len), line)
        newvec, facts = dst.append_slice(src, lo, hi, rev=first.rev)
        st.heap[out.oid] = newvec
        st.facts += facts
        return out
    raise Unsupported(f'std::copy into {out!r}')


def std_reverse(eng, st, first, last, line):
    from .symex import Unsupported
    if not (isinstance(first, Iter) and isinstance(last, Iter) and first.oid == last.oid):
        raise Unsupported('std::reverse on non-iterators')
    v = st.heap[first.oid]
    j = z3.Int('j!lam')
    # whole-vector reverse only (begin(), end())
    eng.oblige(st, 'II', 'std::reverse:whole-range', z3.And(first.pos == 0, last.pos == v.len), line)
    if isinstance(v, NodeVec):
        newvec, facts = v.reversed()
        st.heap[first.oid] = newvec
        st.facts += facts
    elif isinstance(v, ScalarVec):
        tag = f'rev!{next(M._counter)}'
        arr = z3.Array(tag, Int, v.sort)
        st.facts.append(z3.ForAll([j], z3.Implies(z3.And(0 <= j, j < v.len), z3.Select(arr, j) == z3.Select(v.arr, v.len - 1 - j)),
                                  patterns=[z3.Select(arr, j)]))
        st.heap[first.oid] = replace(v, arr=arr)
    else:
        raise Unsupported('reverse of ' + repr(v))


# ------------------------------------------------------------------------------------------------
# Python / pybind11 models

def take_newref(st, r, what, line):
    st.ghost['newrefs'] = st.ghost.get('newrefs', ()) + (r,)
    st.ghost['trace'] = st.ghost['trace'] + ((f'new reference from {what}', line),)


def release_newref(st, v):
    r = v.ref if isinstance(v, PyObj) else v
    refs = list(st.ghost.get('newrefs', ()))
    for k, x in enumerate(refs):
        if z3.is_expr(r) and x.eq(r):
            refs.pop(k)
            st.ghost['newrefs'] = tuple(refs)
            return True
    return False


def py_model(eng, st, name, A, n):
    from .symex import Unsupported, as_int, as_bool, refof
    line = n.get('line')
    t = n.t

    def P(i):
        v = A[i]
        if isinstance(v, ElemRef):
            v = eng.load(st, v)
        if isinstance(v, PyObj):
            return v
        if z3.is_expr(v) and v.sort() == Ref:
            return PyObj(v)
        raise Unsupported(f'{name}: argument {i} is not a python object: {v!r}')

    if name in ('TupleGetSize',):
        return [(st, M.py_len(P(0).ref))]
    if name in ('ListGetSize', 'DictGetSize'):
        return [(st, pylen(eng, st, P(0), True))]
    if name in ('TupleGetItem', 'TupleGetItemAs'):
        o, i = P(0), as_int(A[1])
        eng.oblige(st, 'II', f'{name}:index-in-range', z3.And(0 <= i, i < M.py_len(o.ref)), line)
        return [(st, PyObj(M.py_item(o.ref, i), stable=getattr(o, 'stable', False)))]
    if name in ('ListGetItem', 'ListGetItemAs'):
        o, i = P(0), as_int(A[1])
        ln = pylen(eng, st, o, True)
        inr = z3.And(0 <= i, i < ln)
        summ = eng.helper_summary('ListGetItemAs')
        if summ.get('checked'):
            s_bad = st.clone()
            eng.assume(s_bad, z3.Not(inr))
            if eng.feasible(s_bad):
                eng.throw(s_bad, 'pybind11::error_already_set', line, 'IndexError')
            eng.assume(st, inr)
            if not eng.feasible(st):
                return []
        else:
            eng.oblige(st, 'II', f'{name}:index-in-range-at-access-time', inr, line)
        return [(st, PyObj(M.py_item(o.ref, i), stable=getattr(o, 'stable', False)))]
    if name in ('DictGetItem', 'DictGetItemAs'):
        d, k = P(0), P(1)
        hook = getattr(eng.cur_contract, 'dict_get_item', None)
        if hook and d.fresh:
            return [(st, hook(eng, st, d, k, n))]
        eng.may_call_python(st, 'key __hash__/__eq__ (dict lookup)', line) if not d.fresh else None
        summ = eng.helper_summary('DictGetItemAs')
        has = dict_has_at(d.ref, k.ref, z3.IntVal(st.ghost['epoch'])) if not d.fresh else z3.BoolVal(True)
        if summ.get('checked'):
            s_bad = st.clone()
            eng.assume(s_bad, z3.Not(has))
            if eng.feasible(s_bad):
                eng.throw(s_bad, 'pybind11::error_already_set', line, 'KeyError')
            eng.assume(st, has)
            if not eng.feasible(st):
                return []
        else:
            eng.oblige(st, 'II', f'{name}:result-non-null', has, line)
        return [(st, PyObj(fresh('dict_item', Ref)))]
    if name in ('TupleSetItem', 'ListSetItem'):
        o, i = P(0), as_int(A[1])
        eng.oblige(st, 'II', f'{name}:index-in-range', z3.And(0 <= i, i < M.py_len(o.ref)), line)
        eng.oblige(st, 'IV', f'F1:{name}:target-is-fresh', z3.BoolVal(bool(o.fresh)), line)
        items = dict(st.ghost.get('items', {}))
        key = o.ref.sexpr()
        ref, arr = items.get(key, (o.ref, z3.K(Int, NULL)))
        items[key] = (ref, z3.Store(arr, i, P(2).ref))
        st.ghost['items'] = items
        return [(st, None)]
    if name == 'DictSetItem':
        d = P(0)
        eng.oblige(st, 'IV', 'DictSetItem:target-is-fresh', z3.BoolVal(bool(d.fresh)), line)
        eng.may_call_python(st, 'key __hash__/__eq__ (dict insert)', line)
        s_exc = st.clone()
        eng.throw(s_exc, 'pybind11::error_already_set', line, 'from key __hash__/__eq__')
        return [(st, None)]
    if name in ('PyRepr', 'PyStr'):
        if A and isinstance(A[0], (PyObj,)) or (A and z3.is_expr(A[0]) and A[0].sort() == Ref):
            eng.may_call_python(st, f'{name}', line)
            s_exc = st.clone()
            eng.throw(s_exc, 'pybind11::error_already_set', line, 'from __repr__/__str__')
        return [(st, Opaque('str'))]
    if name in ('reinterpret_borrow', 'reinterpret_steal'):
        v = A[0]
        if name == 'reinterpret_steal':
            release_newref(st, v)                # the pybind11 object takes the reference over
        if isinstance(v, PyObj):
            return [(st, v)]
        if z3.is_expr(v) and v.sort() == Ref:
            return [(st, PyObj(v))]
        if isinstance(v, Opaque):
            return [(st, PyObj(fresh('borrowed', Ref)))]
        raise Unsupported(f'{name}({v!r})')
    if name == 'none':
        return [(st, PyObj(PYNONE, stable=True))]
    if name.startswith('Py_ID_'):
        return [(st, Opaque('pyid:' + name[6:]))]
    if name in ('getattr',) and len(A) > 1 and isinstance(A[1], Opaque) and A[1].tag == 'pyid:copy':
        # list.copy bound method of an engine-owned / fresh list
        return [(st, Opaque('list.copy'), )] if False else [(st, PyMethod(P(0), 'copy'))]
    if name in ('getattr',):
        eng.may_call_python(st, 'getattr', line)
        s_exc = st.clone()
        eng.throw(s_exc, 'pybind11::error_already_set', line, 'from getattr')
        res = PyObj(fresh('attr', Ref))
        hook = getattr(eng.cur_contract, 'on_getattr', None)
        if hook and len(A) > 1 and isinstance(A[1], Opaque) and A[1].tag.startswith('pyid:'):
            hook(eng, st, P(0), A[1].tag[5:], res, n)
        return [(st, res)]
    if name == 'hash':
        o = P(0)
        eng.may_call_python(st, '__hash__', line)
        s_exc = st.clone()
        eng.throw(s_exc, 'pybind11::error_already_set', line, 'from __hash__')
        return [(st, M.py_hash(o.ref))]
    if name in ('thread_safe_cast', 'cast'):
        from .symex import type_class
        tc = type_class(t)
        o = P(0)
        eng.may_call_python(st, f'conversion to {tc}', line)
        s_exc = st.clone()
        eng.throw(s_exc, 'pybind11::cast_error', line, 'conversion failed')
        if tc == 'bool':
            return [(st, M.py_as_bool(o.ref) if o.stable else py_truthy(o.ref, z3.IntVal(st.ghost['epoch'])))]
        if tc == 'int':
            return [(st, M.py_as_int(o.ref))]
        if tc == 'str':
            return [(st, M.py_as_str(o.ref))]
        if tc == 'py':
            short = t.replace('const ', '').split('::')[-1].strip()
            pred = {'tuple': M.py_is_tuple, 'list': M.py_is_list, 'type': M.py_is_type}.get(short)
            if pred is not None:
                # py::tuple(x) / py::list(x): borrows x when it already is one, otherwise converts (a new object)
                conv = z3.Function('py_convert_' + short, Ref, Ref)
                r = z3.If(pred(o.ref), o.ref, conv(o.ref))
                return [(st, PyObj(r, fresh=False, stable=o.stable))]
            return [(st, o)]
        if tc in ('spec', 'specptr') or 'PyTreeSpec' in t:
            hook = getattr(eng.cur_contract, 'cast_spec', None)
            if hook:
                return [(st, hook(eng, st, o))]
        raise Unsupported(f'cast to {t}')
    if name == 'isinstance':
        return [(st, z3.Function('py_isinstance_PyTreeSpec', Ref, Bool)(P(0).ref))]
    if name in ('PyErr_SetString', 'set_error'):
        st.ghost['pyerr'] = z3.BoolVal(True)
        return [(st, None)]
    if name == 'PyErr_Clear':
        st.ghost['pyerr'] = z3.BoolVal(False)
        return [(st, None)]
    if name == 'PyErr_WarnEx':
        # external contract (A-CAPI): runs the warnings machinery (Python code); returns 0, or -1 with the error
        # indicator set when the warning is turned into an exception or the machinery itself fails
        eng.may_call_python(st, 'PyErr_WarnEx (warnings machinery)', line)
        s_fail = st.clone()
        s_fail.ghost['pyerr'] = z3.BoolVal(True)
        return [(st, z3.IntVal(0)), (s_fail, z3.IntVal(-1))]
    if name in ('HashCombine',):
        hook = getattr(eng.cur_contract, 'hash_combine', None)
        if hook:
            hook(eng, st, A, n)
            return [(st, None)]
    if name == 'DictKeys':
        d = P(0)
        # PyDict_Keys for exact dicts; list(od) for subclasses (OrderedDict): iteration may run key __hash__/__eq__
        eng.may_call_python(st, 'listing the keys of a dict (subclass iteration)', line)
        s_exc = st.clone()
        eng.throw(s_exc, 'pybind11::error_already_set', line, 'from iterating the dict')
        r = fresh('dict_keys', Ref)
        st.pc.append(z3.And(r != NULL, M.py_is_list(r)))
        hook = getattr(eng.cur_contract, 'on_dict_keys_result', None)
        if hook:
            hook(eng, st, d, r, n)
        return [(st, PyObj(r, fresh=True))]
    if name in ('PyList_GET_SIZE', 'PyTuple_GET_SIZE', 'PyList_Size', 'PyTuple_Size'):
        # external contract (A-CAPI): the current length, no Python code runs
        return [(st, pylen(eng, st, P(0), name.startswith('PyList')))]
    if name in ('PyList_GET_ITEM', 'PyTuple_GET_ITEM'):
        # external contract (A-CAPI): UNCHECKED borrowed item access - the index must be in range at access time (C16)
        o, i = P(0), as_int(A[1])
        eng.oblige(st, 'II', f'{name}:index-in-range-at-access-time', z3.And(0 <= i, i < pylen(eng, st, o, name.startswith('PyList'))), line)
        return [(st, PyObj(M.py_item(o.ref, i), stable=getattr(o, 'stable', False)))]
    if name in ('PySequence_List', 'PySequence_Tuple'):
        # external contract (A-CAPI): list(o) / tuple(o) - iterates o (user code may run); a NEW reference, or NULL with
        # the error indicator set
        o = P(0)
        eng.may_call_python(st, f'{name} (iteration)', line)
        s_fail = st.clone()
        s_fail.ghost['pyerr'] = z3.BoolVal(True)
        r = fresh('new_' + name[11:].lower(), Ref)
        st.pc.append(z3.And(r != NULL, (M.py_is_list if name.endswith('List') else M.py_is_tuple)(r)))
        take_newref(st, r, name, line)
        return [(st, PyObj(r, fresh=True)), (s_fail, PyObj(NULL))]
    if name in ('Py_DECREF', 'Py_XDECREF') and st.ghost.get('newrefs'):
        if release_newref(st, A[0]):
            return [(st, None)]
    if name == 'PyDict_Keys':
        # external contract (A-CAPI): the keys of the dict *storage* as a new list, no Python code runs.  For an exact dict
        # (and defaultdict) that is its iteration order; an OrderedDict keeps its own order, so the caller must exclude it
        d = P(0)
        hook = getattr(eng.cur_contract, 'on_pydict_keys', None)
        ok = hook(eng, st, d, n) if hook else z3.BoolVal(False)
        eng.oblige(st, 'III', 'PyDict_Keys:never-applied-to-an-OrderedDict-whose-own-order-differs-from-storage-order', ok, line)
        r = fresh('dict_keys', Ref)
        st.pc.append(z3.And(r != NULL, M.py_is_list(r)))
        take_newref(st, r, name, line)
        return [(st, PyObj(r, fresh=True))]
    if name == 'len' and len(A) == 1 and (isinstance(A[0], PyObj) or (z3.is_expr(A[0]) and A[0].sort() == Ref)):
        # py::len(obj): PyObject_Size - runs obj.__len__ (user code) and raises for objects without a length
        o = P(0)
        eng.may_call_python(st, '__len__ (py::len)', line)
        s_exc = st.clone()
        eng.throw(s_exc, 'pybind11::error_already_set', line, 'from __len__ / object has no len()')
        ln = fresh('py_len_result', Int)
        st.pc.append(ln >= 0)
        return [(st, ln)]
    if name == 'ptr' and not A:
        return None
    if name == 'PyList_Reverse':
        o = P(0)
        eng.oblige(st, 'IV', 'F1:PyList_Reverse:target-is-fresh', z3.BoolVal(bool(o.fresh)), line)
        return [(st, z3.IntVal(0))]
    if name == 'TotalOrderSort':
        o = P(0)
        # mutating primitive (list.sort in place): class IV - only engine-fresh lists may be sorted (C14 F1)
        eng.oblige(st, 'IV', 'F1:TotalOrderSort:target-is-fresh', z3.BoolVal(bool(o.fresh)), line)
        hook = getattr(eng.cur_contract, 'on_sort', None)
        if hook:
            hook(eng, st, o, n)
        eng.may_call_python(st, 'key __lt__ (sort)', line)
        s_exc = st.clone()
        eng.throw(s_exc, 'pybind11::error_already_set', line, 'from key __lt__')
        return [(st, None)]
    if name == 'DictKeysEqual':
        eng.may_call_python(st, 'key __hash__/__eq__ (DictKeysEqual)', line)
        s_exc = st.clone()
        eng.throw(s_exc, 'pybind11::error_already_set', line, 'from key __hash__/__eq__')
        return [(st, z3.Function('dict_keys_equal', Ref, Ref, Bool)(P(0).ref, P(1).ref))]
    if name == 'DictKeysDifference':
        eng.may_call_python(st, 'key __hash__/__eq__/__lt__ (DictKeysDifference)', line)
        s_exc = st.clone()
        eng.throw(s_exc, 'pybind11::error_already_set', line, 'from key methods')
        return [(st, Tup((PyObj(fresh('missing_keys', Ref), fresh=True), PyObj(fresh('extra_keys', Ref), fresh=True))))]
    if name.startswith('AssertExact'):
        o = P(0)
        ok = z3.Function('is_exact_' + name[len('AssertExact'):], Ref, Bool)(o.ref)
        s_bad = st.clone()
        eng.assume(s_bad, z3.Not(ok))
        if eng.feasible(s_bad):
            if name in ('AssertExactNamedTuple', 'AssertExactStructSequence'):
                eng.may_call_python(s_bad, 'class predicate (getattr)', line)
            eng.throw(s_bad, 'pybind11::value_error', line, name)
        eng.assume(st, ok)
        return [(st, None)]
    if name in ('ImportOrderedDict', 'ImportDefaultDict', 'ImportDeque', 'GetCxxModule'):
        return [(st, PyObj(z3.Const('py_' + name, Ref), stable=True))]
    if name in ('Py_TYPE', 'of', 'handle_of'):
        return [(st, PyObj(M.py_type(P(0).ref), stable=True))]
    if name == 'PyObject_TypeCheck' and len(A) == 2:
        # external contract (A-CAPI): isinstance-like test - the exact type or any subtype of it; no Python code runs
        t = M.py_type(P(0).ref)
        sub = z3.Function('py_is_proper_subtype', Ref, Ref, Bool)
        return [(st, z3.If(z3.Or(t == P(1).ref, sub(t, P(1).ref)), z3.IntVal(1), z3.IntVal(0)))]
    if name == 'PyType_HasFeature' and len(A) == 2:
        # external contract (A-CAPI): a type flag (e.g. Py_TPFLAGS_LIST_SUBCLASS: the type is list or a subclass of it)
        feat = z3.Function('py_type_has_feature', Ref, Int, Bool)
        return [(st, z3.If(feat(P(0).ref, as_int(A[1])), z3.IntVal(1), z3.IntVal(0)))]
    if name == 'Py_IS_TYPE' and len(A) == 2:
        # external contract (A-CAPI): exact type test, no Python code runs
        return [(st, z3.If(M.py_type(P(0).ref) == P(1).ref, z3.IntVal(1), z3.IntVal(0)))]
    if name in ('PyDict_Values', 'PyDict_Items'):
        # external contract (A-CAPI): like PyDict_Keys - the *storage* order of the dict, which is not the order of an
        # OrderedDict; the same obligation therefore applies
        d = P(0)
        hook = getattr(eng.cur_contract, 'on_pydict_keys', None)
        ok = hook(eng, st, d, n) if hook else z3.BoolVal(False)
        eng.oblige(st, 'III', f'{name}:never-applied-to-an-OrderedDict-whose-own-order-differs-from-storage-order', ok, line)
        r = fresh('dict_' + name[7:].lower(), Ref)
        st.pc.append(z3.And(r != NULL, M.py_is_list(r)))
        take_newref(st, r, name, line)
        return [(st, PyObj(r, fresh=True))]
    return None


# ------------------------------------------------------------------------------------------------
def member_call(eng, n, st):
    from .symex import Unsupported, as_int, as_bool, refof
    if n.get('handle_push'):
        # lifetime (C16): a vector of non-owning handles must not receive a temporary that solely owns a new object
        eng.oblige(st, 'II', 'handle-container-does-not-receive-a-temporary-that-solely-owns-its-object',
                   z3.BoolVal(not n.get('dangling')), n.get('line'),
                   note=f'the pushed handle is copied from the temporary {n.get("dangling")}' if n.get('dangling') else '')
    callee = n.c[0]
    args_n = [a for a in n.c[1:] if a.k != 'CXXDefaultArgExpr']
    outs = []
    if callee.k in ('MemberExpr', 'CXXDependentScopeMemberExpr'):
        for s, base in eng.ev(callee.c[0], st):
            for s2, args in eng.ev_seq(args_n, s):
                outs += method(eng, s2, base, callee.name, args, n, callee)
        return outs
    raise Unsupported(f'member call through {callee.k}')


def method(eng, st, base, name, A, n, callee=None):
    from .symex import Unsupported, as_int, as_bool, refof, type_class
    line = n.get('line')
    if isinstance(base, ElemRef):
        # method on a vector element (e.g. children[i]->..., node.node_data.is_none())
        base = eng.load(st, base)
    hook0 = getattr(eng.cur_contract, 'method_hook', None)
    if hook0 is not None:
        r0 = hook0(eng, st, base, name, A, n)
        if r0 is not None:
            return r0
    # ---- python objects
    if isinstance(base, PyObj) or (z3.is_expr(base) and base.sort() == Ref):
        o = base if isinstance(base, PyObj) else PyObj(base)
        if name == 'ptr':
            return [(st, o)]
        if name == 'operator bool':
            return [(st, o.ref != NULL)]
        if name == 'operator object':
            return [(st, o)]
        if name == 'is_none':
            return [(st, o.ref == PYNONE)]
        if name == 'is':
            return [(st, o.ref == refof(A[0]))]
        if name in ('not_equal', 'equal'):
            eng.may_call_python(st, '__eq__ (rich comparison)', line)
            s_exc = st.clone()
            eng.throw(s_exc, 'pybind11::error_already_set', line, 'from __eq__')
            e = M.py_eq(o.ref, refof(A[0]))
            return [(st, z3.Not(e) if name == 'not_equal' else e)]
        if name in ('inc_ref', 'dec_ref'):
            st.ghost.setdefault('refs', ())
            st.ghost['refs'] = st.ghost['refs'] + ((name, o.ref.sexpr()),)
            return [(st, o)]
        if name == 'release':
            return [(st, o)]
        if name == 'has_value':
            return [(st, o.ref != NULL)]
        if name == 'value':
            return [(st, o)]
        if name in ('size',):
            return [(st, M.py_len(o.ref))]
        if name == 'begin':
            # iter(obj): may run user code and may raise
            eng.may_call_python(st, 'iter() of a Python iterable', line)
            s_exc = st.clone()
            eng.throw(s_exc, 'pybind11::error_already_set', line, 'from __iter__/__next__')
            st.pc.append(M.iter_len(o.ref) >= 0)
            return [(st, PySeqIter(o.ref, z3.IntVal(0)))]
        if name == 'end':
            return [(st, PySeqIter(o.ref, None))]
        if name == 'get_stored':
            return [(st, o)]
        if name == 'attr':
            eng.may_call_python(st, 'getattr', line)
            return [(st, PyObj(fresh('attr', Ref)))]
        raise Unsupported(f'python method {name} at L{line}')
    if isinstance(base, Ptr) and base.oid is not None:
        obj = st.heap[base.oid]
        if isinstance(obj, (NodeVec, ScalarVec, PairVec, PtrVec)):
            return vector_method(eng, st, base, obj, name, A, n)
        from .absmap import AbsMap, map_method
        if isinstance(obj, AbsMap):
            return map_method(eng, st, base, obj, name, A, n)
        if isinstance(obj, SpecObj):
            q = resolve(eng, name, n, owner_hint='PyTreeSpec::')
            if q is None:
                raise Unsupported(f'PyTreeSpec::{name}')
            params = eng.prog.template_params.get(q)
            if params and callee is not None:
                targs = template_args(eng, callee, name)
                saved = dict(eng.template_env)
                for pn, tv in zip(params, targs):
                    if tv is not None:
                        eng.template_env[pn] = tv
                try:
                    return call_repo(eng, st, q, base, A, n)
                finally:
                    eng.template_env = saved
            return call_repo(eng, st, q, base, A, n)
    if isinstance(base, OptNode):
        if name in ('operator bool', 'has_value'):
            return [(st, base.has)]
        if name == 'value_or':
            alt = eng.to_nodeval(st, A[0])
            return [(st, NodeVal(tuple((k, z3.If(base.has, base.node.get(k), alt.get(k))) for k in M.NODE_FIELDS)))]
        if name == 'value':
            return [(st, base.node)]
    if isinstance(base, NodeVal):
        raise Unsupported(f'method {name} on node value')
    if z3.is_expr(base) and base.sort() == Str:
        if name == 'empty':
            return [(st, base == EMPTY)]
        if name in ('c_str', 'str'):
            return [(st, Opaque('cstr'))]
    if isinstance(base, Opaque):
        if name == 'str' and base.tag.startswith('oss'):
            r = fresh('built_string', Str)
            if base.tag == 'oss+':
                st.pc.append(r != EMPTY)
            else:
                st.pc.append(r == EMPTY)
            return [(st, r)]
        if name == 'empty':
            return [(st, fresh('opaque_empty', Bool))]
        if name in ('str', 'c_str', 'what', 'matches'):
            if name == 'matches':
                caught = st.ghost.get('caught')
                hook = getattr(eng.cur_contract, 'exc_matches', None)
                if hook:
                    return [(st, hook(eng, st, caught, A))]
                return [(st, fresh('exc_matches', Bool))]
            return [(st, Opaque('str'))]
        if name == 'call_once_and_store_result':
            # gil_safe_call_once_and_store: the stored object is the attribute named in the initialiser lambda
            lit = ''
            if A and isinstance(A[0], Lam):
                for d in eng.walk(A[0].node):
                    if d.k == 'StringLiteral':
                        lit = d['v'].strip('"')
            return [(st, PyObj(z3.Const('py_attr_' + (lit or 'stored'), Ref), stable=True))]
        if name == 'get_stored':
            return [(st, base)]
    if isinstance(base, Tup) and name in ('first', 'second'):
        return [(st, base.items[0 if name == 'first' else 1])]
    hook = getattr(eng.cur_contract, 'method', None)
    if hook:
        r = hook(eng, st, base, name, A, n)
        if r is not None:
            return r
    raise Unsupported(f'method {name} on {base!r} at L{line} in {eng.fn}')


def vector_method(eng, st, base: Ptr, v, name, A, n):
    from .symex import Unsupported, as_int, as_bool, refof
    line = n.get('line')
    oid = base.oid
    if name == 'empty':
        return [(st, v.len == 0)]
    if name == 'size':
        return [(st, v.len)]
    if name in ('shrink_to_fit', 'reserve'):
        return [(st, None)]
    if name in ('begin', 'cbegin'):
        return [(st, Iter(oid, z3.IntVal(0)))]
    if name in ('end', 'cend'):
        return [(st, Iter(oid, v.len))]
    if name in ('rbegin', 'crbegin'):
        return [(st, Iter(oid, z3.IntVal(0), rev=True))]
    if name in ('rend', 'crend'):
        return [(st, Iter(oid, v.len, rev=True))]
    if name == 'back':
        eng.oblige(st, 'II', 'vector::back:non-empty', v.len >= 1, line)
        return [(st, ElemRef(oid, v.len - 1))]
    if name == 'front':
        eng.oblige(st, 'II', 'vector::front:non-empty', v.len >= 1, line)
        return [(st, ElemRef(oid, z3.IntVal(0)))]
    if name == 'at':
        i = as_int(A[0])
        eng.oblige(st, 'II', 'vector::at:index-in-range', z3.And(0 <= i, i < v.len), line)
        return [(st, ElemRef(oid, i))]
    if name == 'pop_back':
        eng.oblige(st, 'II', 'vector::pop_back:non-empty', v.len >= 1, line)
        st.heap[oid] = replace(v, len=v.len - 1)
        hook = getattr(eng.cur_contract, 'on_vector_op', None)
        if hook:
            hook(eng, st, 'pop_back', v, st.heap[oid])
        return [(st, None)]
    if name == 'resize':
        k = as_int(A[0])
        eng.oblige(st, 'II', 'vector::resize:non-negative', k >= 0, line)
        if isinstance(v, PtrVec):
            st.heap[oid] = replace(v, len=k)
        else:
            eng.oblige(st, 'II', 'vector::resize:shrinks-only', k <= v.len, line,
                       note='growing resize is not modelled (default elements)')
            st.heap[oid] = replace(v, len=k)
        return [(st, None)]
    if name in ('emplace_back', 'push_back'):
        if isinstance(v, NodeVec):
            if not A:
                nv = NodeVal.default()
            else:
                nv = eng.to_nodeval(st, A[0]) if not isinstance(A[0], NodeVal) else A[0]
            st.heap[oid] = v.push(nv)
            return [(st, ElemRef(oid, v.len))]
        if isinstance(v, ScalarVec):
            if not A:
                val = NULL if v.sort == Ref else z3.IntVal(0)
            else:
                a = eng.load(st, A[0])
                if v.sort == Str:
                    val = a if (z3.is_expr(a) and a.sort() == Str) else fresh('string', Str)
                else:
                    val = refof(a) if v.sort == Ref else as_int(a)
            st.heap[oid] = replace(v, len=v.len + 1, arr=z3.Store(v.arr, v.len, val))
            return [(st, ElemRef(oid, v.len))]
        if isinstance(v, PairVec):
            x, y = eng.load(st, A[0]), eng.load(st, A[1])
            a = refof(x) if v.a.sort().range() == Ref else as_int(x)
            b = refof(y) if v.b.sort().range() == Ref else as_int(y)
            st.heap[oid] = PairVec(v.len + 1, z3.Store(v.a, v.len, a), z3.Store(v.b, v.len, b))
            hook = getattr(eng.cur_contract, 'on_vector_op', None)
            if hook:
                hook(eng, st, 'emplace_back', v, st.heap[oid])
            return [(st, ElemRef(oid, v.len))]
        if isinstance(v, PtrVec):
            key = v.len.sexpr()
            st.heap[oid] = PtrVec(v.len + 1, v.entries + ((key, v.len, A[0]),))
            return [(st, ElemRef(oid, v.len))]
    raise Unsupported(f'vector method {name} at L{line}')


# ------------------------------------------------------------------------------------------------
def operator_call(eng, n, st):
    from .symex import Unsupported, as_int, as_bool, refof
    op = n.c[0].name
    line = n.get('line')
    args_n = n.c[1:]
    if op == 'operator=' and 'pybind11::arg' in args_n[0].t:
        # py::arg("name") = value : a keyword argument for a Python call
        return [(s, Opaque('kwarg')) for s, _v in eng.ev(args_n[1], st)]
    if op == 'operator=':
        outs = []
        for s, v in eng.ev(args_n[1], st):
            s, p = eng.place(args_n[0], s)
            v = eng.load(s, v) if isinstance(v, ElemRef) else v
            if isinstance(v, Ptr) and v.oid is not None and isinstance(s.heap.get(v.oid), (NodeVec, ScalarVec)) \
                    and args_n[1].k not in ('CallExpr',) and p[0] == 'var':
                v = Ptr(s.alloc(s.heap[v.oid]))          # vector copy assignment
            if p[0] == 'obj':      # *ptr = value  (whole object assignment)
                s.heap[p[1]] = s.heap[v.oid] if isinstance(v, Ptr) else v
            else:
                eng.write_place(s, p, v)
            outs.append((s, v))
        return outs
    if op == 'operator()':
        # call of a lambda / std::function / py::object
        callee = args_n[0]
        if callee.k == 'DeclRefExpr' and st.scope.lookup(callee.name) is not None and isinstance(st.get(callee.name), Lam):
            return call_lambda(eng, st.get(callee.name), args_n[1:], st)
        outs = []
        for s, vals in eng.ev_seq(args_n, st):
            f = vals[0]
            if isinstance(f, Lam):
                raise Unsupported('indirect lambda call')
            hookm = getattr(eng.cur_contract, 'on_pymethod_call', None)
            if isinstance(f, PyMethod) and hookm is not None:
                rm = hookm(eng, s, f, vals[1:], n)
                if rm is not None:
                    outs += rm
                    continue
            if isinstance(f, PyMethod) and f.name == 'copy':
                src = f.obj
                r = fresh('list_copy', Ref)
                s.pc.append(r != NULL)
                if src.fresh or src.stable:
                    s.pc.append(M.py_len(r) == M.py_len(src.ref))
                    i_cp = z3.Int('i!lcp')
                    s.facts.append(z3.ForAll([i_cp], M.py_item(r, i_cp) == M.py_item(src.ref, i_cp), patterns=[M.py_item(r, i_cp)]))
                else:
                    eng.may_call_python(s, 'copy() of a user-reachable object', line)
                outs.append((s, PyObj(r, fresh=True)))
                continue
            if isinstance(f, PyObj) or (z3.is_expr(f) and f.sort() == Ref):
                outs += python_call(eng, s, f if isinstance(f, PyObj) else PyObj(f), vals[1:], n)
            else:
                raise Unsupported(f'operator() on {f!r}')
        return outs
    if op in ('operator->', 'operator*'):
        outs = []
        for s, v in eng.ev(args_n[0], st):
            v = eng.load(s, v) if isinstance(v, ElemRef) and isinstance(s.heap.get(v.oid), PtrVec) else v
            outs.append((s, eng.deref(s, v)))
        return outs
    if op == 'operator[]':
        outs = []
        for s, (vec, idx) in eng.ev_seq(args_n[:2], st):
            if isinstance(vec, Ptr):
                v = s.heap[vec.oid]
                i = as_int(idx)
                eng.oblige(s, 'II', 'vector::operator[]:index-in-range', z3.And(0 <= i, i < v.len), line)
                outs.append((s, ElemRef(vec.oid, i)))
            elif isinstance(vec, PyObj):
                # py::tuple t; t[i]  (pybind11 accessor: checked PyTuple_GetItem at conversion time)
                i = as_int(idx)
                s_bad = s.clone()
                eng.assume(s_bad, z3.Not(z3.And(0 <= i, i < M.py_len(vec.ref))))
                if eng.feasible(s_bad):
                    eng.throw(s_bad, 'pybind11::error_already_set', line, 'IndexError')
                eng.assume(s, z3.And(0 <= i, i < M.py_len(vec.ref)))
                outs.append((s, PyObj(M.py_item(vec.ref, i), stable=vec.stable)))
            else:
                raise Unsupported(f'operator[] on {vec!r}')
        return outs
    if op in ('operator==', 'operator!=', 'operator<', 'operator+', 'operator-', 'operator<=', 'operator>', 'operator>='):
        outs = []
        for s, (a, b) in eng.ev_seq(args_n[:2], st):
            outs.append((s, eng.binop(s, op[len('operator'):], a, b)))
        return outs
    if op in ('operator+=', 'operator-=', 'operator++', 'operator--'):
        s, p = eng.place(args_n[0], st)
        old = eng.read_place(s, p)
        if op in ('operator++', 'operator--'):
            d = z3.IntVal(1)
        else:
            (s, dv), = eng.ev(args_n[1], s)
            d = as_int(dv)
        if isinstance(old, PySeqIter) and op == 'operator++':
            eng.may_call_python(s, '__next__ of a Python iterator', line)
            s_exc = s.clone()
            eng.throw(s_exc, 'pybind11::error_already_set', line, 'from __next__')
            new = PySeqIter(old.ref, old.pos + 1)
        elif isinstance(old, Iter):
            new = replace(old, pos=old.pos + d if op in ('operator+=', 'operator++') else old.pos - d)
        elif isinstance(old, Opaque):
            new = old
        else:
            raise Unsupported(f'{op} on {old!r}')
        eng.write_place(s, p, new)
        return [(s, new)]
    if op == 'operator<<':
        # stream insertion: message building is dropped, but operands are evaluated for their effects
        outs = [(st, None)]
        for a in args_n:
            nxt = []
            for s, _ in outs:
                for s2, _v in eng.ev(a, s):
                    nxt.append((s2, None))
            outs = nxt
        # remember that something was inserted into the named stream (so that oss.str() is known to be non-empty)
        root = args_n[0]
        while root.k == 'CXXOperatorCallExpr' and root.c[0].name == 'operator<<':
            root = root.c[1]
        res = []
        for s, _ in outs:
            if root.k == 'DeclRefExpr' and s.scope.lookup(root.name) is not None and isinstance(s.get(root.name), Opaque):
                s.set(root.name, Opaque('oss+'))
            res.append((s, Opaque('oss+')))
        return res
    if op == 'operator bool':
        outs = []
        for s, v in eng.ev(args_n[0], st):
            outs.append((s, as_bool(v)))
        return outs
    if op == 'operator!':
        outs = []
        for s, v in eng.ev(args_n[0], st):
            outs.append((s, z3.Not(as_bool(v))))
        return outs
    raise Unsupported(f'operator call {op} at L{line} in {eng.fn}')


def python_call(eng, st, f: PyObj, args, n):
    """Calling a Python object: may run arbitrary user code."""
    line = n.get('line')
    eng.may_call_python(st, 'call of a Python callable', line)
    s_exc = st.clone()
    eng.throw(s_exc, 'pybind11::error_already_set', line, 'from the Python callable')
    r = PyObj(py_call(f.ref, z3.IntVal(st.ghost['epoch'])))
    hook = getattr(eng.cur_contract, 'on_python_result', None)
    if hook:
        hook(eng, st, f, args, r, n)
    return [(st, r)]


# ------------------------------------------------------------------------------------------------
def construct(eng, n, st):
    from .symex import Unsupported, as_int, as_bool, refof, type_class
    t = n.t.replace('const ', '')
    tc = type_class(t)
    line = n.get('line')
    args_n = [a for a in n.c if a.k != 'CXXDefaultArgExpr']
    # locks (RAII)
    if 'lock_guard' in t or 'shared_lock' in t or 'unique_lock' in t:
        mname = ''
        for d in eng.walk(n):
            if d.k in ('DeclRefExpr', 'MemberExpr') and 'mutex' in d.name:
                mname = d.name
        st.ghost['locks'] = st.ghost['locks'] + (mname or 'mutex',)
        st.scope.vars.setdefault('__locks__', ())
        st.scope.vars['__locks__'] = st.scope.vars['__locks__'] + (mname or 'mutex',)
        return [(st, Opaque('lock'))]
    if 'scoped_critical_section' in t:
        return [(st, Opaque('cs'))]
    if tc == 'oss':
        return [(st, Opaque('oss'))]
    if tc == 'str':
        if not args_n:
            return [(st, EMPTY)]
        outs = []
        for s, v in eng.ev(args_n[0], st):
            outs.append((s, v if (z3.is_expr(v) and v.sort() == Str) else Opaque('str')))
        return outs
    if tc == 'node':
        if not args_n:
            return [(st, NodeVal.default())]
        if n.k == 'CXXConstructExpr' and len(args_n) == 1:
            outs = []
            for s, v in eng.ev(args_n[0], st):
                outs.append((s, eng.to_nodeval(s, v)))
            return outs
    if tc in ('nodevec', 'intvec', 'objvec', 'pairvec', 'ptrvec'):
        if not args_n:
            return [(st, new_vector(eng, st, t, 'vec'))]
        outs = []
        for s, vals in eng.ev_seq(args_n, st):
            v = vals[0]
            if len(vals) == 1 and isinstance(v, Ptr) and isinstance(s.heap.get(v.oid), PtrVec):
                outs.append((s, v))                                   # move construction
            elif len(vals) == 1 and isinstance(v, Ptr) and isinstance(s.heap.get(v.oid), (NodeVec, ScalarVec)):
                outs.append((s, Ptr(s.alloc(s.heap[v.oid]))))      # copy construction
            elif len(vals) == 2 and isinstance(vals[0], Iter) and isinstance(vals[1], Iter):
                src = s.heap[vals[0].oid]
                dst = Ptr(s.alloc(NodeVec.empty('snapshot')))
                std_copy(eng, s, vals[0], vals[1], BackInserter(dst.oid), line)
                outs.append((s, dst))
            elif isinstance(v, Tup):
                outs.append((s, Ptr(s.alloc(s.heap[v.items[0].oid]))))
            else:
                raise Unsupported(f'vector construction from {vals!r}')
        return outs
    if tc == 'spec':
        if not args_n:
            o = new_spec(st)
            return [(st, o)]
        outs = []
        for s, v in eng.ev(args_n[0], st):
            so = s.heap[v.oid]
            outs.append((s, Ptr(s.alloc(SpecObj(s.alloc(s.heap[so.trav]), so.nil, so.ns)))))
        return outs
    if tc == 'specptr':
        outs = []
        if not args_n:
            return [(st, Ptr(None))]
        return eng.ev(args_n[0], st)
    if tc == 'regptr':
        if not args_n:
            return [(st, NULL)]
        outs = []
        for s, v in eng.ev(args_n[0], st):
            outs.append((s, NULL if isinstance(v, Ptr) and v.oid is None else v))
        return outs
    if tc == 'py':
        short = t.split('::')[-1]
        outs = []
        for s, vals in eng.ev_seq(args_n, st):
            vals = [eng.load(s, v) if isinstance(v, ElemRef) else v for v in vals]
            if short in ('tuple', 'list') and len(vals) == 1 and z3.is_expr(vals[0]) and z3.is_int(vals[0]):
                if getattr(eng.cur_contract, 'sized_container_obligation', False):
                    # PyTuple_New / PyList_New with a negative size fail (SystemError -> pybind11_fail with the indicator set)
                    eng.oblige(s, 'II', f'py::{short}(n):size-is-not-negative', vals[0] >= 0, line)
                r = fresh('new_' + short, Ref)
                s.pc.append(M.py_len(r) == vals[0])
                s.pc.append(r != NULL)
                items = dict(s.ghost.get('items', {}))
                items[r.sexpr()] = (r, z3.K(Int, NULL))          # slots of a new tuple/list are NULL until set
                s.ghost['items'] = items
                outs.append((s, PyObj(r, fresh=True)))
            elif short in ('dict', 'list', 'tuple', 'set') and not vals:
                r = fresh('new_' + short, Ref)
                s.pc.append(M.py_len(r) == 0)
                s.pc.append(r != NULL)
                outs.append((s, PyObj(r, fresh=True)))
            elif short in ('list', 'tuple', 'set') and len(vals) == 1 and isinstance(vals[0], PyObj):
                # pybind11 converting constructor (PYBIND11_OBJECT_CVT): an object that already is a list / tuple is borrowed
                # as it is; anything else is converted by PySequence_List / PySequence_Tuple into a new object (iterating user
                # objects may run Python)
                src = vals[0]
                pred = {'tuple': M.py_is_tuple, 'list': M.py_is_list}.get(short)
                if pred is not None:
                    s_same = s.clone()
                    self_ok = pred(src.ref)
                    eng.assume(s_same, self_ok)
                    eng.assume(s, z3.Not(self_ok))
                    if eng.feasible(s_same):
                        outs.append((s_same, PyObj(src.ref, fresh=src.fresh, stable=getattr(src, 'stable', False))))
                    if not eng.feasible(s):
                        continue
                r = fresh('new_' + short, Ref)
                s.pc.append(r != NULL)
                if getattr(src, 'stable', False) or src.fresh:
                    s.pc.append(M.py_len(r) == M.py_len(src.ref))
                    i = z3.Int('i!cp')
                    s.facts.append(z3.ForAll([i], M.py_item(r, i) == M.py_item(src.ref, i), patterns=[M.py_item(r, i)]))
                else:
                    eng.may_call_python(s, f'{short}(iterable)', line)
                    s_exc = s.clone()
                    eng.throw(s_exc, 'pybind11::error_already_set', line, f'from {short}(iterable)')
                outs.append((s, PyObj(r, fresh=True)))
            elif short in ('int_',) and len(vals) == 1 and z3.is_expr(vals[0]) and z3.is_int(vals[0]):
                outs.append((s, PyObj(M.py_int(vals[0]), fresh=True, stable=True)))
            elif short == 'bool_' and len(vals) == 1 and z3.is_expr(vals[0]) and z3.is_bool(vals[0]):
                outs.append((s, PyObj(M.py_bool(vals[0]), fresh=True, stable=True)))
            elif short == 'str' and len(vals) == 1 and z3.is_expr(vals[0]) and vals[0].sort() == Str:
                outs.append((s, PyObj(M.py_str(vals[0]), fresh=True, stable=True)))
            elif short == 'str' and len(vals) == 1 and getattr(eng.cur_contract, 'on_str_from_value', None) is not None \
                    and eng.cur_contract.on_str_from_value(eng, s, vals[0], line) is not None:
                outs.append((s, eng.cur_contract.on_str_from_value(eng, s, vals[0], line, oblige=False)))
            elif short in ('bool_', 'str') and len(vals) == 1:
                outs.append((s, PyObj(fresh('new_' + short, Ref), fresh=True, stable=True)))
            elif len(vals) == 1 and isinstance(vals[0], PyObj):
                outs.append((s, vals[0]))          # copy / move / converting construction keeps the referent
            elif len(vals) == 1 and z3.is_expr(vals[0]) and vals[0].sort() == Ref:
                outs.append((s, PyObj(vals[0])))
            elif not vals and short == 'none':
                outs.append((s, PyObj(PYNONE, stable=True)))
            elif not vals:
                outs.append((s, PyObj(NULL)))
            elif len(vals) == 1 and isinstance(vals[0], Ptr) and vals[0].oid is None:
                outs.append((s, PyObj(NULL)))
            elif len(vals) == 1 and isinstance(vals[0], Opaque) and vals[0].tag.startswith('pyid:'):
                outs.append((s, vals[0]))          # interned attribute name
            elif short == 'cpp_function':
                fobj = PyObj(fresh('cpp_function', Ref), fresh=True)
                hook = getattr(eng.cur_contract, 'on_cpp_function', None)
                if hook:
                    hook(eng, s, fobj, vals, n)
                outs.append((s, fobj))
            elif short == 'weakref' and len(vals) in (1, 2):
                # external contract (A-CAPI): PyWeakref_NewRef - a new weak reference object; fails (error_already_set) when
                # the object is not weakly referenceable; runs no Python code; the callback runs when the referent dies
                s_exc = s.clone()
                eng.throw(s_exc, 'pybind11::error_already_set', line, 'weak reference could not be created')
                hook = getattr(eng.cur_contract, 'on_weakref', None)
                if hook:
                    hook(eng, s, vals, n)
                outs.append((s, PyObj(fresh('weakref', Ref), fresh=True)))
            else:
                raise Unsupported(f'construction of {t} from {vals!r} at L{line}')
        return outs
    if tc == 'optfn':
        if not args_n:
            return [(st, PyObj(NULL))]
        return eng.ev(args_n[0], st)
    if 'InternalError' in t or 'value_error' in t or 'runtime_error' in t or 'index_error' in t or 'type_error' in t \
            or 'error_already_set' in t or 'stop_iteration' in t:
        return [(st, Opaque('exc:' + t))]
    if tc.startswith('other:std::tuple') or tc.startswith('other:std::pair'):
        outs = []
        for s, vals in eng.ev_seq(args_n, st):
            vals = [eng.load(s, v) if isinstance(v, ElemRef) else v for v in vals]
            if len(vals) == 1 and isinstance(vals[0], Tup):
                outs.append((s, vals[0]))          # copy construction of a pair
            else:
                outs.append((s, Tup(tuple(vals))))
        return outs
    if tc in ('int', 'bool', 'kind') and len(args_n) == 1:
        return eng.ev(args_n[0], st)
    hook = getattr(eng.cur_contract, 'construct', None)
    if hook:
        r = hook(eng, st, n, t)
        if r is not None:
            return r
    if len(args_n) == 1:
        return eng.ev(args_n[0], st)
    raise Unsupported(f'construct {t} at L{line} in {eng.fn}')
