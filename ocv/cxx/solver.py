"""Discharge verification conditions: z3 (10 s) -> cvc5 (30 s) -> z3 with another configuration (60 s), 14 processes."""
from __future__ import annotations

import os
import subprocess
import tempfile
import time
from concurrent.futures import ProcessPoolExecutor

import z3

z3.set_param('warning', False)      # patterns containing ite terms are ignored by z3 (it then picks its own): not an error

from ..result import Obligation


def vc_to_smt2(hyps, goal) -> str:
    s = z3.Solver()
    for h in hyps:
        s.add(h)
    s.add(z3.Not(goal))
    return s.to_smt2()


def _z3_check(smt2: str, timeout_ms: int, seed: int, alt: bool):
    ctx = z3.Context()
    s = z3.Solver(ctx=ctx)
    s.set('timeout', timeout_ms)
    s.set('random_seed', seed)
    if alt:
        s.set('smt.arith.solver', 2)
        s.set('smt.mbqi', True)
    s.from_string(smt2)
    r = s.check()
    detail = ''
    if r == z3.sat:
        m = s.model()
        items = []
        for d in m.decls():
            nm = d.name()
            if '!' in nm and not nm.startswith(('this', 'other', 'index')):
                pass
            try:
                items.append(f'{nm} = {m[d]}')
            except Exception:
                pass
        detail = '; '.join(sorted(items))[:6000]
    elif r == z3.unknown:
        detail = s.reason_unknown()
    return str(r), detail


def _finite_refute(smt2: str, N: int, timeout_ms: int):
    """Counter-model search by exact finite expansion: every top-level universally quantified hypothesis is guarded by
    index ranges below a vector length; with all lengths <= N, instantiating the bound variables over {-1..N+1} is
    equivalent to the quantified formula.  Only a `sat` answer is used (a genuine counter-model); unsat/unknown say
    nothing about the unbounded VC."""
    ctx = z3.Context()
    asserts = z3.parse_smt2_string(smt2, ctx=ctx)
    s = z3.Solver(ctx=ctx)
    s.set('timeout', timeout_ms)
    dom = [z3.IntVal(v, ctx) for v in range(-1, N + 2)]
    lens = set()

    def collect(e, seen):
        if e.get_id() in seen:
            return
        seen.add(e.get_id())
        if z3.is_const(e) and e.decl().kind() == z3.Z3_OP_UNINTERPRETED and z3.is_int(e) and e.decl().name().endswith('.len'):
            lens.add(e)
        if z3.is_quantifier(e):
            collect(e.body(), seen)
        else:
            for c in e.children():
                collect(c, seen)

    import itertools
    seen: set = set()
    for a in asserts:
        collect(a, seen)
        if z3.is_quantifier(a) and a.is_forall():
            nv = a.num_vars()
            if any(not z3.is_int(z3.Const('x', a.var_sort(i))) for i in range(nv)):
                s.add(a)
                continue
            for combo in itertools.product(dom, repeat=nv):
                # de Bruijn order: var 0 is the innermost (last) bound variable
                s.add(z3.substitute_vars(a.body(), *reversed(combo)))
        else:
            s.add(a)
    for l in lens:
        s.add(l <= N, l >= 0)
    r = s.check()
    if r != z3.sat:
        return str(r), '', {}
    m = s.model()
    model = {}
    for d in m.decls():
        nm = d.name()
        try:
            if d.arity() == 0 and isinstance(m[d], z3.ArrayRef):
                continue
            if d.arity() == 0:
                model[nm] = str(m[d])
        except Exception:
            pass
    # vectors: evaluate <name>.<field>[i] for i < len
    for l in lens:
        base = l.decl().name()[:-4]
        try:
            n = m.eval(l, model_completion=True).as_long()
        except Exception:
            continue
        vec = {'len': n}
        for d in m.decls():
            nm = d.name()
            if nm.startswith(base + '.') and nm != base + '.len' and d.arity() == 0:
                arr = d()
                if z3.is_array(arr):
                    vec[nm[len(base) + 1:]] = [str(m.eval(z3.Select(arr, z3.IntVal(i, ctx)), model_completion=True))
                                               for i in range(n)]
        model['vec:' + base] = vec
    detail = '; '.join(f'{k}={v}' for k, v in sorted(model.items()) if not k.startswith(('k!', 'j!')))[:4000]
    return 'sat', f'counter-model (finite expansion N={N}): ' + detail, model


def _cvc5_check(smt2: str, timeout_s: int):
    if '(lambda' in smt2 or 'declare-sort' not in smt2 and False:
        return 'unknown', 'cvc5 skipped (lambda terms)'
    with tempfile.NamedTemporaryFile('w', suffix='.smt2', delete=False) as f:
        f.write('(set-logic ALL)\n' + smt2)
        path = f.name
    try:
        r = subprocess.run(['/usr/bin/cvc5', f'--tlimit={timeout_s * 1000}', path], capture_output=True, text=True,
                           timeout=timeout_s + 5)
        out = r.stdout.strip().splitlines()
        res = out[0] if out else 'unknown'
        if res not in ('sat', 'unsat', 'unknown'):
            return 'unknown', ('cvc5: ' + (r.stdout + r.stderr)[:200])
        return res, 'cvc5'
    except subprocess.TimeoutExpired:
        return 'unknown', 'cvc5 timeout'
    finally:
        os.unlink(path)


def discharge_one(job):
    vid, smt2, budgets = job
    t0 = time.time()
    model = {}
    r, detail = _z3_check(smt2, budgets[0] * 1000, 0, False)
    backend = 'z3'
    if r == 'unknown':
        # refutation attempt first: a genuine counter-model is the most useful answer
        for N in (3, 5):
            try:
                r2, d2, m2 = _finite_refute(smt2, N, 15000)
            except Exception as e:    # expansion is best effort
                r2, d2, m2 = 'unknown', f'finite expansion failed: {e}', {}
            if r2 == 'sat':
                return vid, 'sat', d2, f'z3(finite N={N})', time.time() - t0, m2
        r2, d2 = _cvc5_check(smt2, budgets[1])
        if r2 == 'unsat':
            r, detail, backend = r2, d2, 'cvc5'
    if r == 'unknown':
        r3, d3 = _z3_check(smt2, budgets[2] * 1000, 7, True)
        if r3 != 'unknown':
            r, detail, backend = r3, d3, 'z3(alt)'
        else:
            detail = f'{detail} | {d3}'
    return vid, r, detail, backend, time.time() - t0, model


def discharge(vcs, budgets=(8, 30, 60), workers=14) -> list[Obligation]:
    jobs = []
    trivial = {}
    for i, vc in enumerate(vcs):
        g = z3.simplify(vc.goal)
        if z3.is_true(g):
            trivial[i] = ('unsat', '', 'simplify', 0.0, {})
            continue
        smt2 = vc_to_smt2(vc.hyps, vc.goal)
        if os.environ.get('OCV_DUMP'):
            import re as _re
            os.makedirs(os.environ['OCV_DUMP'], exist_ok=True)
            with open(os.path.join(os.environ['OCV_DUMP'], _re.sub(r'[^A-Za-z0-9_.#-]+', '_', vc.id)[-150:] + '.smt2'), 'w') as f:
                f.write(smt2 + '\n(check-sat)\n')
        jobs.append((i, smt2, budgets))
    results = dict(trivial)
    if jobs:
        with ProcessPoolExecutor(max_workers=workers) as ex:
            for vid, r, detail, backend, dt, model in ex.map(discharge_one, jobs, chunksize=1):
                results[vid] = (r, detail, backend, dt, model)
    # undecided obligations are retried one at a time with the machine to themselves (verdicts must not flip when all
    # cores are busy); only then are they reported as unknown
    smt_by_id = {i: s for i, s, _ in jobs}
    for i, (r, detail, backend, dt, model) in list(results.items()):
        if r == 'unknown' and i in smt_by_id:
            t0 = time.time()
            r2, d2 = _z3_check(smt_by_id[i], 120000, 3, False)
            if r2 != 'unknown':
                results[i] = (r2, d2, 'z3(retry)', dt + time.time() - t0, {})
    out = []
    for i, vc in enumerate(vcs):
        r, detail, backend, dt, model = results[i]
        status = {'unsat': 'discharged', 'sat': 'failed', 'unknown': 'unknown'}[r]
        out.append(Obligation(id=vc.id, function=vc.function, cls=vc.cls, status=status, backend=backend,
                              time_s=round(dt, 3), detail=(vc.note + ' ' + detail).strip(), source=f'L{vc.line}',
                              model=model))
    return out
