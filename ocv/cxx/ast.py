"""Front end of cxxvc: the compiler's own parse of the real files.

`clang++-14 -fsyntax-only -Xclang -ast-dump=json -Xclang -ast-dump-filter=<name>` is run on the
translation units of /repo (macros expanded, overloads resolved, expressions typed).  The JSON is
reduced to compact nodes (kind, type, name, value, opcode, line, children) with the transparent
wrapper nodes removed.  What is dropped here: source ranges (only the begin line is kept), implicit
casts / temporaries / cleanups / parentheses / attributes (value-preserving wrappers), comments.

Function lookup is by qualified name; function templates are represented by their *pattern*
(template parameters stay symbolic).
"""
from __future__ import annotations

import hashlib
import json
import os
import pickle
import subprocess
import sys
from concurrent.futures import ThreadPoolExecutor
from pathlib import Path

from .. import build as B

VERIF = Path(__file__).resolve().parent.parent.parent
CACHE = VERIF / '.cache'

TRANSPARENT = {
    'ImplicitCastExpr', 'MaterializeTemporaryExpr', 'CXXBindTemporaryExpr', 'ExprWithCleanups', 'ParenExpr',
    'ConstantExpr', 'FullExpr', 'SubstNonTypeTemplateParmExpr',
}
DROP_KINDS = {'FullComment', 'ParagraphComment', 'TextComment', 'LikelyAttr', 'UnlikelyAttr', 'WarnUnusedResultAttr',
              'AlwaysInlineAttr', 'NoInlineAttr', 'VisibilityAttr', 'UnusedAttr', 'FormatAttr', 'NonNullAttr',
              'ConstAttr', 'PureAttr', 'NoThrowAttr'}


class N(dict):
    """Compact AST node: keys k(kind) t(type) n(name) v(value) op line c(children) + a few extras."""
    __slots__ = ()

    @property
    def k(self):
        return self['k']

    @property
    def c(self):
        return self.get('c', [])

    @property
    def t(self):
        return self.get('t', '')

    @property
    def name(self):
        return self.get('n', '')

    def __repr__(self):
        return f"<{self['k']} {self.get('n', '')} {self.get('t', '')[:40]} L{self.get('line', '?')}>"


def _line(j, cur):
    loc = j.get('range', {}).get('begin', {})
    for cand in (loc, loc.get('expansionLoc', {}), loc.get('spellingLoc', {}), j.get('loc', {})):
        if 'line' in cand:
            return cand['line']
    return cur


_CUR_FILE = {'file': None}
_SRC_CACHE: dict[str, str] = {}


def _track_file(j):
    for key in ('loc', 'range'):
        v = j.get(key)
        if not v:
            continue
        for sub in ([v] if key == 'loc' else [v.get('begin', {}), v.get('end', {})]):
            for cand in (sub, sub.get('spellingLoc', {}), sub.get('expansionLoc', {})):
                if 'file' in cand:
                    _CUR_FILE['file'] = cand['file']


def _source_text(j) -> str:
    """Source text of a node (used only to recover member names that clang's JSON dump omits)."""
    rng = j.get('range', {})
    b, e = rng.get('begin', {}), rng.get('end', {})
    b = b.get('expansionLoc', b)
    e = e.get('expansionLoc', e)
    f = _CUR_FILE['file']
    if f is None or 'offset' not in b or 'offset' not in e:
        return ''
    if f not in _SRC_CACHE:
        try:
            _SRC_CACHE[f] = open(f, encoding='utf-8', errors='replace').read()
        except OSError:
            _SRC_CACHE[f] = ''
    return _SRC_CACHE[f][b['offset']: e['offset'] + e.get('tokLen', 0)]


OWNING = ('object', 'int_', 'str', 'float_', 'bool_', 'bytes', 'tuple', 'list', 'dict', 'set', 'function', 'type', 'none', 'capsule')
NEW_OBJECT_CTORS = ('int_', 'str', 'float_', 'bool_', 'bytes', 'tuple', 'list', 'dict', 'set')


def _qt(j):
    t = j.get('type', {})
    return (t.get('desugaredQualType') or t.get('qualType') or '').replace('const ', '').strip()


def _is_handle_type(t: str) -> bool:
    t = t.replace('const ', '').strip()
    return t in ('pybind11::handle', 'py::handle')


def _owning_type(t: str) -> bool:
    t = t.replace('const ', '').strip()
    return any(t == f'pybind11::{o}' or t == f'py::{o}' for o in OWNING)


def _sole_owner_leaf(j) -> str | None:
    """Below a materialised temporary of an owning pybind11 type: does some alternative of the expression create a NEW Python
    object that only this temporary owns (py::int_(i), py::str(..), py::make_tuple(..), reinterpret_steal<..>(..))?"""
    kind = j.get('kind')
    inner = j.get('inner', [])
    if kind in ('ParenExpr', 'CXXBindTemporaryExpr', 'ImplicitCastExpr', 'MaterializeTemporaryExpr', 'ExprWithCleanups'):
        return next((r for r in map(_sole_owner_leaf, inner) if r), None)
    if kind == 'ConditionalOperator':
        return next((r for r in map(_sole_owner_leaf, inner[1:]) if r), None)
    if kind in ('CXXFunctionalCastExpr', 'CXXTemporaryObjectExpr', 'CXXConstructExpr'):
        t = _qt(j)
        short = t.split('::')[-1]
        if short in NEW_OBJECT_CTORS and kind != 'CXXConstructExpr':
            return f'{t}(...)'
        if kind == 'CXXConstructExpr':
            ctor = j.get('ctorType', {}).get('qualType', '')
            if short in NEW_OBJECT_CTORS and 'pybind11::' not in ctor.split('(', 1)[-1] and 'py::' not in ctor.split('(', 1)[-1] \
                    and 'handle' not in ctor and 'object' not in ctor:
                return f'{t}(...)'
            return next((r for r in map(_sole_owner_leaf, inner) if r), None)      # copy / move / converting construction
        return next((r for r in map(_sole_owner_leaf, inner) if r), None)
    if kind == 'CallExpr':
        callee = json.dumps(inner[0])[:600] if inner else ''
        if '"make_tuple"' in callee or '"reinterpret_steal"' in callee:
            return 'py::make_tuple / reinterpret_steal result'
    return None


def _dangling_handle(j) -> str | None:
    """A non-owning py::handle that is copy-constructed from a temporary owning object which solely owns a new Python object:
    the object is released at the end of the full expression, the handle dangles."""
    kind = j.get('kind')
    inner = j.get('inner', [])
    if kind in ('ExprWithCleanups', 'ParenExpr'):
        return next((r for r in map(_dangling_handle, inner) if r), None)
    if kind == 'CXXConstructExpr' and _is_handle_type(_qt(j)):
        return next((r for r in map(_dangling_handle, inner) if r), None)
    if kind == 'ImplicitCastExpr' and j.get('castKind') in ('DerivedToBase', 'UncheckedDerivedToBase', 'NoOp'):
        return next((r for r in map(_dangling_handle, inner) if r), None)
    if kind == 'MaterializeTemporaryExpr' and _owning_type(_qt(j)):
        return _sole_owner_leaf(j)
    return None


def reduce(j: dict, cur_line: int = 0, keep_cast=False) -> N | None:
    kind = j.get('kind')
    _track_file(j)
    if kind is None or kind in DROP_KINDS:
        return None
    line = _line(j, cur_line)
    inner = j.get('inner', [])
    if kind == 'ImplicitCastExpr' and j.get('castKind') in ('IntegralToBoolean', 'PointerToBoolean', 'UserDefinedConversion'):
        pass  # keep: changes the value's type in a way the evaluator needs
    elif kind in TRANSPARENT:
        kids = [reduce(x, line) for x in inner]
        kids = [x for x in kids if x is not None]
        if len(kids) == 1:
            return kids[0]
        if not kids:
            return None
    if kind == 'AttributedStmt':
        kids = [x for x in (reduce(x, line) for x in inner) if x is not None]
        return kids[-1] if kids else None
    n = N(k=kind, line=line)
    ty = j.get('type', {})
    if ty:
        n['t'] = ty.get('desugaredQualType') or ty.get('qualType', '')
        if 'qualType' in ty and ty.get('desugaredQualType'):
            n['tq'] = ty['qualType']
    for src, dst in (('name', 'n'), ('value', 'v'), ('opcode', 'op'), ('castKind', 'cast'), ('isArrow', 'arrow'),
                     ('isPostfix', 'postfix'), ('valueCategory', 'vc'), ('mangledName', 'mangled'),
                     ('storageClass', 'storage'), ('init', 'init'), ('isConstexpr', 'constexpr'),
                     ('hasElse', 'hasElse'), ('hasInit', 'hasInit'), ('hasVar', 'hasVar'), ('isImplicit', 'implicit'),
                     ('member', 'member'), ('tagUsed', 'tag')):
        if src in j:
            n[dst] = j[src]
    if 'id' in j:
        n['id'] = j['id']
    rd = j.get('referencedDecl')
    if rd:
        n['ref'] = rd.get('id')
        n['refk'] = rd.get('kind')
        n['n'] = rd.get('name', n.get('n', ''))
        n['reft'] = rd.get('type', {}).get('qualType', '')
    if 'referencedMemberDecl' in j:
        n['refm'] = j['referencedMemberDecl']
    if 'parentDeclContextId' in j:
        n['parent'] = j['parentDeclContextId']
    if 'previousDecl' in j:
        n['prev'] = j['previousDecl']
    if kind == 'CXXConstructExpr' or kind == 'CXXTemporaryObjectExpr':
        n['ctor'] = j.get('ctorType', {}).get('qualType', '')
        if j.get('list'):
            n['list'] = True
    if kind in ('UnresolvedLookupExpr', 'UnresolvedMemberExpr'):
        n['lookups'] = [l.get('name') for l in j.get('lookups', [])]
        if not n.get('n'):
            import re as _re
            m = _re.search(r'([A-Za-z_][A-Za-z_0-9]*)\s*(<[^()]*>)?\s*$', _source_text(j))
            if m:
                n['n'] = m.group(1)
    if kind == 'CXXDependentScopeMemberExpr':
        n['n'] = j.get('member', '')
    if kind == 'VarDecl' and _is_handle_type(_qt(j)) and not (j.get('type', {}).get('qualType', '').rstrip().endswith('&')):
        n['handle_var'] = True
        for x in inner:
            d = _dangling_handle(x)
            if d:
                n['dangling'] = d
    if kind == 'CXXMemberCallExpr' and inner and inner[0].get('kind') == 'MemberExpr' \
            and inner[0].get('name') in ('emplace_back', 'push_back'):
        base_t = _qt(inner[0].get('inner', [{}])[0]) if inner[0].get('inner') else ''
        if 'vector<pybind11::handle' in base_t or 'vector<py::handle' in base_t:
            n['handle_push'] = True
            for x in inner[1:]:
                if x.get('kind') == 'MaterializeTemporaryExpr' and _owning_type(_qt(x)):
                    d = _sole_owner_leaf(x)
                    if d:
                        n['dangling'] = d
    if kind == 'LambdaExpr':
        pass
    if kind == 'IfStmt' and j.get('isConstexpr'):
        n['constexpr'] = True
    kids = []
    for x in inner:
        r = reduce(x, line)
        if r is not None:
            kids.append(r)
    if kids:
        n['c'] = kids
    return n


def _parse_docs(txt: str) -> list[dict]:
    dec = json.JSONDecoder()
    i, n, docs = 0, len(txt), []
    while True:
        while i < n and txt[i] in ' \n\r\t':
            i += 1
        if i >= n:
            break
        o, i = dec.raw_decode(txt, i)
        docs.append(o)
    return docs


def _clang_dump(tu: Path, filt: str, repo: Path) -> list[dict]:
    cmd = ['clang++-14', '-fsyntax-only'] + B.cxx_flags(repo) + ['-Wno-everything',
           '-Xclang', '-ast-dump=json', '-Xclang', f'-ast-dump-filter={filt}', str(tu)]
    r = subprocess.run(cmd, capture_output=True, text=True)
    if r.returncode != 0:
        raise RuntimeError(f'clang failed on {tu}: {r.stderr[-2000:]}')
    return _parse_docs(r.stdout)


def _has_body(n: N) -> bool:
    return any(c.k == 'CompoundStmt' for c in n.c)


class Program:
    """All function definitions of the optree sources, by qualified name."""

    def __init__(self):
        self.functions: dict[str, N] = {}     # qualified name -> function node (with body)
        self.records: dict[str, N] = {}       # class name -> record node
        self.decl_names: dict[str, str] = {}  # decl id -> qualified name
        self.files: dict[str, str] = {}       # qualified name -> TU file
        self.template_params: dict[str, list[str]] = {}
        self.enums: dict[str, dict[str, int]] = {}
        self.spec_targs: dict[tuple, list] = {}   # (tu, specialization decl id) -> explicit template argument values
        self.globals_: dict[str, N] = {}

    def add_docs(self, docs: list[dict], tu: str):
        reduced = []
        for d in docs:
            r = reduce(d)
            if r is not None:
                reduced.append(r)
        # helpers in (anonymous / nested) namespaces inside optree: their members are handled like top-level declarations
        i = 0
        while i < len(reduced):
            if reduced[i].k == 'NamespaceDecl':
                reduced.extend(reduced[i].c)
            i += 1
        # first pass: records and their ids
        for r in reduced:
            if r.k == 'CXXRecordDecl' and r.c:
                self._add_record(r, 'optree::' if True else '', tu)
            if r.k == 'EnumDecl':
                vals, cur = {}, 0
                for e in r.c:
                    if e.k == 'EnumConstantDecl':
                        vals[e.name] = cur
                        cur += 1
                self.enums[r.name] = vals
        for r in reduced:
            self._add_fun(r, None, tu)

    def _add_record(self, r: N, prefix: str, tu: str):
        q = prefix + r.name
        if 'id' in r:
            self.decl_names[r['id']] = q
        if any(c.k in ('CXXMethodDecl', 'FieldDecl', 'FunctionTemplateDecl') for c in r.c):
            self.records.setdefault(q, r)
        for c in r.c:
            if c.k == 'CXXRecordDecl' and c.c and not c.get('implicit'):
                self._add_record(c, q + '::', tu)
            self._add_fun(c, q, tu)

    def _add_fun(self, r: N, owner: str | None, tu: str):
        if r.k == 'FunctionTemplateDecl':
            params = [c.name for c in r.c if c.k in ('NonTypeTemplateParmDecl', 'TemplateTypeParmDecl')]
            for c in r.c:
                if c.k in ('CXXMethodDecl', 'FunctionDecl') and 'id' in c:
                    targs = [x.get('v') for x in c.c if x.k == 'TemplateArgument']
                    if targs and any(t is not None for t in targs):
                        # non-type (bool) arguments by position; type arguments are not needed by the engine
                        self.spec_targs[(tu, c['id'])] = [(int(t) != 0) if t is not None else None for t in targs]
            for c in r.c:
                if c.k in ('CXXMethodDecl', 'FunctionDecl') and _has_body(c):
                    if 'parent' in r and 'parent' not in c:
                        c['parent'] = r['parent']
                    q = self._add_fun(c, owner, tu)
                    if q:
                        self.template_params[q] = params
                    break
            return None
        if r.k not in ('CXXMethodDecl', 'FunctionDecl', 'CXXConstructorDecl'):
            return None
        if not _has_body(r):
            return None
        if owner is None and 'parent' in r:
            owner = self.decl_names.get(r['parent'])
        if owner is None:
            owner = 'optree' if r.get('mangled', '').startswith('_ZN6optree') else ''
        q = (owner + '::' if owner else '') + r.name
        targs = [x.get('v') for x in r.c if x.k == 'TemplateArgument']
        if targs:
            # explicit instantiation / specialisation: kept under its own name, the pattern keeps the plain name
            q += '<' + ','.join('true' if (t is not None and int(t) != 0) else 'false' if t is not None else '?' for t in targs) + '>'
        if q in self.functions and self.functions[q].get('line') != r.get('line'):
            # overloads: disambiguate by parameter count
            nparams = sum(1 for c in r.c if c.k == 'ParmVarDecl')
            q = f'{q}/{nparams}'
        if q not in self.functions:
            r['tu'] = tu
        self.functions.setdefault(q, r)
        self.files.setdefault(q, tu)
        return q


TUS_FILTERS = [
    # (translation unit, filter)  -- the optree namespace of every TU + the global helpers of pytypes.h
    ('src/registry.cpp', 'optree::'),
    ('src/treespec/treespec.cpp', 'optree::'),
    ('src/treespec/flatten.cpp', 'optree::'),
    ('src/treespec/unflatten.cpp', 'optree::'),
    ('src/treespec/traversal.cpp', 'optree::'),
    ('src/treespec/richcomparison.cpp', 'optree::'),
    ('src/treespec/hashing.cpp', 'optree::'),
    ('src/treespec/constructor.cpp', 'optree::'),
    ('src/treespec/serialization.cpp', 'optree::'),
    ('src/treespec/gc.cpp', 'optree::'),
]
GLOBAL_HELPERS = ['TotalOrderSort', 'IsNamedTupleClassImpl', 'IsNamedTupleClass', 'IsStructSequenceClassImpl',
                  'IsStructSequenceClass', 'StructSequenceGetFieldsImpl', 'StructSequenceGetFields', 'DictKeysEqual',
                  'DictKeysDifference', 'SortedDictKeys', 'DictKeys', 'ListGetItemAs', 'DictGetItemAs',
                  'TupleGetItemAs', 'TupleSetItem', 'ListSetItem', 'DictSetItem', 'NamedTupleGetFields',
                  'TupleGetSize', 'ListGetSize', 'DictGetSize', 'TupleGetItem', 'ListGetItem', 'DictGetItem',
                  'AssertExact', 'AssertExactList', 'AssertExactTuple', 'AssertExactDict', 'AssertExactOrderedDict',
                  'AssertExactDefaultDict', 'AssertExactStandardDict', 'AssertExactDeque', 'HashCombine', 'IsStructSequenceInstance', 'IsNamedTupleInstance', 'PyRepr', 'PyStr']


def load_program(repo: Path = B.REPO, verbose=False) -> Program:
    CACHE.mkdir(exist_ok=True)
    key = B.tree_hash(repo, 'cxx') + '-' + hashlib.sha256(Path(__file__).read_bytes()).hexdigest()[:8]
    cf = CACHE / f'ast-{key}.pkl'
    if cf.exists():
        try:
            with open(cf, 'rb') as f:
                return pickle.load(f)
        except Exception:
            cf.unlink()
    jobs = [(repo / tu, filt) for tu, filt in TUS_FILTERS]
    # global helpers live in pytypes.h: dump them from the smallest TU that includes the header
    jobs += [(repo / 'src/treespec/gc.cpp', name) for name in GLOBAL_HELPERS]

    def work(job):
        tu, filt = job
        return job, _clang_dump(tu, filt, repo)

    prog = Program()
    with ThreadPoolExecutor(max_workers=14) as ex:
        for (tu, filt), docs in ex.map(work, jobs):
            prog.add_docs(docs, str(tu.relative_to(repo)))
    for old in CACHE.glob('ast-*.pkl'):
        old.unlink()
    with open(cf, 'wb') as f:
        pickle.dump(prog, f)
    return prog


def show(n: N, indent=0, out=None, maxdepth=99):
    out = out if out is not None else sys.stdout
    extra = ' '.join(f'{k}={n[k]!r}' for k in ('n', 'op', 'v', 'cast', 'arrow', 'ctor', 'constexpr') if k in n)
    out.write('  ' * indent + f"{n.k} {extra} :: {n.t[:70]}  L{n.get('line')}\n")
    if indent < maxdepth:
        for c in n.c:
            show(c, indent + 1, out, maxdepth)


if __name__ == '__main__':
    import time
    t0 = time.time()
    p = load_program()
    print(f'{len(p.functions)} functions in {time.time() - t0:.1f}s')
    if len(sys.argv) > 1:
        show(p.functions[sys.argv[1]])
    else:
        for q in sorted(p.functions):
            print(q, p.files[q], p.template_params.get(q, ''))
