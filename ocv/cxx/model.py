"""Abstract state model of cxxvc (DESIGN.md 1.2 / 1.4): sorts, values, heap objects, WF axioms."""
from __future__ import annotations

import itertools
from dataclasses import dataclass, field, replace
from typing import Any

import z3

z3.set_param('warning', False)

Ref = z3.DeclareSort('Ref')          # Python objects / RegistrationPtr targets (uninterpreted)
Str = z3.DeclareSort('Str')          # std::string values used only through ==, !=, empty()
NULL = z3.Const('NULLREF', Ref)
EMPTY = z3.Const('EMPTYSTR', Str)
PYNONE = z3.Const('PyNone', Ref)     # the None singleton
Int, Bool = z3.IntSort(), z3.BoolSort()

KIND = {'Custom': 0, 'Leaf': 1, 'None': 2, 'Tuple': 3, 'List': 4, 'Dict': 5, 'NamedTuple': 6, 'OrderedDict': 7,
        'DefaultDict': 8, 'Deque': 9, 'StructSequence': 10}
KIND_NAME = {v: k for k, v in KIND.items()}
MAX_RECURSION_DEPTH = 1000
CHAIN_WEIGHT = 8

NODE_FIELDS = {'kind': Int, 'arity': Int, 'node_data': Ref, 'node_entries': Ref, 'custom': Ref,
               'num_leaves': Int, 'num_nodes': Int, 'original_keys': Ref}
NODE_DEFAULT = {'kind': z3.IntVal(KIND['Leaf']), 'arity': z3.IntVal(0), 'node_data': NULL, 'node_entries': NULL,
                'custom': NULL, 'num_leaves': z3.IntVal(0), 'num_nodes': z3.IntVal(0), 'original_keys': NULL}

# abstract observers of Python objects (uninterpreted)
py_len = z3.Function('py_len', Ref, Int)                 # len() of a list/tuple/dict at the *current* epoch
py_item = z3.Function('py_item', Ref, Int, Ref)          # item i of a list/tuple
py_type = z3.Function('py_type', Ref, Ref)               # type(o)
py_eq = z3.Function('py_eq', Ref, Ref, Bool)             # o1 == o2 (Python rich comparison, truthiness taken)
py_hash = z3.Function('py_hash', Ref, Int)               # hash(o)
reg_type = z3.Function('reg_type', Ref, Ref)             # Registration::type of a RegistrationPtr target
reg_pet = z3.Function('reg_path_entry_type', Ref, Ref)
reg_kind = z3.Function('reg_kind', Ref, Int)
py_int = z3.Function('py_int', Int, Ref)                 # py::int_(i)
mul = z3.Function('mul', Int, Int, Int)                  # abstract product of two symbolic integers
py_bool = z3.Function('py_bool', Bool, Ref)              # py::bool_(b)
py_str = z3.Function('py_str', Str, Ref)                 # py::str(s)
py_as_bool = z3.Function('py_as_bool', Ref, Bool)        # bool(o) for engine-owned / immutable objects
py_as_str = z3.Function('py_as_str', Ref, Str)
py_as_int = z3.Function('py_as_int', Ref, Int)
py_is_list = z3.Function('py_is_list', Ref, Bool)        # PyList_Check
py_is_tuple = z3.Function('py_is_tuple', Ref, Bool)      # PyTuple_Check
py_is_type = z3.Function('py_is_type', Ref, Bool)        # PyType_Check
iter_len = z3.Function('iter_len', Ref, Int)             # number of items an iterable yields (ghost; >= 0)
iter_item = z3.Function('iter_item', Ref, Int, Ref)      # i-th item an iterable yields (ghost)

_counter = itertools.count()


def fresh(prefix: str, sort=Int):
    return z3.Const(f'{prefix}!{next(_counter)}', sort)


# ------------------------------------------------------------------------------------------------
# values

@dataclass(frozen=True)
class Ptr:
    oid: int | None           # heap id, None = nullptr


@dataclass(frozen=True)
class ElemRef:                # reference to vec[idx] (Node&, ssize_t&, ...)
    oid: int
    idx: Any


@dataclass(frozen=True)
class NodeVal:                # Node by value
    f: tuple                  # tuple of (field, expr) pairs, ordered like NODE_FIELDS

    def get(self, name):
        return dict(self.f)[name]

    def with_(self, name, val):
        d = dict(self.f)
        d[name] = val
        return NodeVal(tuple(d.items()))

    @staticmethod
    def default():
        return NodeVal(tuple(NODE_DEFAULT.items()))

    @staticmethod
    def symbolic(prefix):
        return NodeVal(tuple((k, fresh(f'{prefix}.{k}', s)) for k, s in NODE_FIELDS.items()))


@dataclass(frozen=True)
class OptNode:                # std::optional<Node>
    has: Any
    node: NodeVal


@dataclass(frozen=True)
class Iter:
    oid: int
    pos: Any                  # forward: element index; reverse: distance from rbegin
    rev: bool = False


@dataclass(frozen=True)
class PyObj:
    ref: Any                  # z3 Ref expr
    fresh: bool = False       # allocated in this activation and not escaped
    stable: bool = False      # immutable, or owned by a treespec / the engine (not reachable by user callbacks)


@dataclass(frozen=True)
class PySeqIter:              # C++ iterator over a Python iterable (py::iterator)
    ref: Any                  # the iterable
    pos: Any                  # number of items already pulled; None = the end sentinel


@dataclass(frozen=True)
class Tup:
    items: tuple


@dataclass(frozen=True)
class Opaque:
    tag: str = ''


@dataclass(frozen=True)
class Lam:
    node: Any
    scope: Any


@dataclass(frozen=True)
class BackInserter:
    oid: int


@dataclass(frozen=True)
class Bound:                  # bound member function / callee descriptor
    base: Any
    name: str
    node: Any = None


@dataclass(frozen=True)
class Func:                   # reference to a free function / static method
    name: str
    node: Any = None


# ------------------------------------------------------------------------------------------------
# heap objects

@dataclass(frozen=True)
class NodeVec:
    len: Any
    f: tuple                  # ((field, z3 Array Int->sort), ...)
    name: str = ''

    def arr(self, name):
        return dict(self.f)[name]

    def sel(self, name, i):
        return z3.Select(self.arr(name), i)

    def with_arr(self, name, a):
        d = dict(self.f)
        d[name] = a
        return replace(self, f=tuple(d.items()))

    @staticmethod
    def symbolic(name):
        return NodeVec(z3.Int(f'{name}.len'),
                       tuple((k, z3.Array(f'{name}.{k}', Int, s)) for k, s in NODE_FIELDS.items()), name)

    @staticmethod
    def empty(name):
        return NodeVec(z3.IntVal(0),
                       tuple((k, z3.K(Int, NODE_DEFAULT[k])) for k in NODE_FIELDS), name)

    def node_at(self, i) -> NodeVal:
        return NodeVal(tuple((k, self.sel(k, i)) for k in NODE_FIELDS))

    def push(self, nv: NodeVal) -> 'NodeVec':
        d = {k: z3.Store(a, self.len, nv.get(k)) for k, a in self.f}
        return NodeVec(self.len + 1, tuple(d.items()), self.name)

    def store(self, i, nv: NodeVal) -> 'NodeVec':
        d = {k: z3.Store(a, i, nv.get(k)) for k, a in self.f}
        return NodeVec(self.len, tuple(d.items()), self.name)

    def append_slice(self, src: 'NodeVec', lo, hi, rev=False):
        """(self ++ src[lo:hi], facts).  The result is a fresh vector characterised by pattern-guarded axioms
        (E-matching friendly; no lambda terms).  rev: the source range is read through reverse iterators."""
        tag = f'{self.name or "vec"}+{next(_counter)}'
        out = NodeVec(self.len + (hi - lo), tuple((k, z3.Array(f'{tag}.{k}', Int, s)) for k, s in NODE_FIELDS.items()),
                      self.name)
        j = z3.Int(f'j!{tag}')
        facts = []
        keep_old = not (z3.is_int_value(self.len) and self.len.as_long() == 0)
        for k, _ in self.f:
            if keep_old:
                facts.append(z3.ForAll([j], z3.Implies(z3.And(0 <= j, j < self.len), out.sel(k, j) == self.sel(k, j)),
                                       patterns=[out.sel(k, j)]))
            srcidx = (src.len - 1 - (lo + (j - self.len))) if rev else (lo + (j - self.len))
            facts.append(z3.ForAll([j], z3.Implies(z3.And(self.len <= j, j < self.len + (hi - lo)),
                                                   out.sel(k, j) == src.sel(k, srcidx)), patterns=[out.sel(k, j)]))
        return out, facts

    def reversed(self):
        tag = f'{self.name or "vec"}~{next(_counter)}'
        out = NodeVec(self.len, tuple((k, z3.Array(f'{tag}.{k}', Int, s)) for k, s in NODE_FIELDS.items()), self.name)
        j = z3.Int(f'j!{tag}')
        facts = [z3.ForAll([j], z3.Implies(z3.And(0 <= j, j < self.len), out.sel(k, j) == self.sel(k, self.len - 1 - j)),
                           patterns=[out.sel(k, j)]) for k, _ in self.f]
        return out, facts


@dataclass(frozen=True)
class SpecObj:
    trav: int                 # heap id of a NodeVec
    nil: Any
    ns: Any


@dataclass(frozen=True)
class ScalarVec:              # std::vector<ssize_t>, std::vector<py::object>, std::vector<py::tuple>, ...
    len: Any
    arr: Any
    sort: Any
    name: str = ''

    @staticmethod
    def empty(name, sort):
        dflt = z3.IntVal(0) if sort == Int else NULL
        return ScalarVec(z3.IntVal(0), z3.K(Int, dflt), sort, name)

    @staticmethod
    def symbolic(name, sort):
        return ScalarVec(z3.Int(f'{name}.len'), z3.Array(f'{name}.arr', Int, sort), sort, name)


@dataclass(frozen=True)
class PairVec:                # std::vector<std::pair<ssize_t, ssize_t>>
    len: Any
    a: Any
    b: Any


@dataclass(frozen=True)
class PtrVec:                 # std::vector<std::unique_ptr<PyTreeSpec>>: entries keyed by index term
    len: Any
    entries: tuple = ()       # ((idx sexpr, idx expr, Ptr), ...)


# ------------------------------------------------------------------------------------------------
# well-formedness of the post-order encoding (DESIGN.md 1.4), with ghost functions per vector

# contents of an existing PyTreeSpec object, as functions of the Python object that holds it (treespecs are immutable)
ext_spec_len = z3.Function('ext_spec_len', Ref, Int)
ext_spec_nil = z3.Function('ext_spec_none_is_leaf', Ref, Bool)
ext_spec_ns = z3.Function('ext_spec_namespace', Ref, Str)
ext_spec_arr = {k: z3.Function(f'ext_spec_{k}', Ref, z3.ArraySort(Int, srt)) for k, srt in NODE_FIELDS.items()}


def ext_spec_vec(ref):
    return NodeVec(ext_spec_len(ref), tuple((k, ext_spec_arr[k](ref)) for k in NODE_FIELDS), 'extspec')


class WFView:
    """Ghost vocabulary of one node vector: start(i), cpos(i,k), PL(k)."""

    def __init__(self, vec: NodeVec, tag: str):
        self.v = vec
        self.tag = tag
        self.cpos = z3.Function(f'cpos_{tag}', Int, Int, Int)
        self.PL = z3.Function(f'PL_{tag}', Int, Int)

    def K(self, i): return self.v.sel('kind', i)
    def A(self, i): return self.v.sel('arity', i)
    def NN(self, i): return self.v.sel('num_nodes', i)
    def NL(self, i): return self.v.sel('num_leaves', i)
    def D(self, i): return self.v.sel('node_data', i)
    def E(self, i): return self.v.sel('node_entries', i)
    def C(self, i): return self.v.sel('custom', i)
    def OK(self, i): return self.v.sel('original_keys', i)

    def start(self, i):
        return i + 1 - self.NN(i)

    def inst(self, which: str, *terms):
        """Instance of a (universally quantified) WF axiom by forall-elimination, computed with the z3 API from the
        asserted axiom itself: a logical consequence, usable as a fact without a separate proof obligation."""
        ax = self.named[which]
        assert z3.is_quantifier(ax) and ax.is_forall() and ax.num_vars() == len(terms)
        return z3.substitute_vars(ax.body(), *reversed(terms))

    def axioms(self, n=None, typing=True) -> list:
        n = self.v.len if n is None else n
        i, k = z3.Ints(f'i_{self.tag} k_{self.tag}')
        inr = z3.And(0 <= i, i < n)
        K, A, NN, NL, cpos, PL, start = self.K, self.A, self.NN, self.NL, self.cpos, self.PL, self.start
        LEAF = KIND['Leaf']
        ax = [
            z3.ForAll([i], z3.Implies(inr, z3.And(NN(i) >= 1, NN(i) <= i + 1, A(i) >= 0, NL(i) >= 0)), patterns=[NN(i)]),
            z3.ForAll([i], z3.Implies(z3.And(inr, K(i) == LEAF), z3.And(A(i) == 0, NL(i) == 1)), patterns=[K(i)]),
            z3.ForAll([i], z3.Implies(z3.And(inr, A(i) == 0), NN(i) == 1), patterns=[A(i)]),
            # NOTE: these three axioms generate new cpos/num_nodes terms (child of child of ...): a weight keeps the
            # E-matching chain shallow (instances beyond generation 2 are delayed), avoiding matching loops
            z3.ForAll([i], z3.Implies(z3.And(inr, A(i) > 0),
                                      z3.And(cpos(i, A(i) - 1) == i - 1, start(cpos(i, 0)) == start(i))), patterns=[A(i)],
                      weight=CHAIN_WEIGHT),
            z3.ForAll([i, k], z3.Implies(z3.And(inr, 0 <= k, k < A(i)),
                                         z3.And(start(i) <= cpos(i, k), cpos(i, k) < i, start(cpos(i, k)) >= start(i))),
                      patterns=[cpos(i, k)], weight=CHAIN_WEIGHT),
            z3.ForAll([i, k], z3.Implies(z3.And(inr, 1 <= k, k < A(i)), cpos(i, k - 1) == start(cpos(i, k)) - 1),
                      patterns=[cpos(i, k)], weight=CHAIN_WEIGHT),
            PL(0) == 0,
            z3.ForAll([k], z3.Implies(z3.And(0 <= k, k < n), PL(k + 1) == PL(k) + z3.If(K(k) == LEAF, 1, 0)),
                      patterns=[PL(k + 1)]),
            z3.ForAll([k], z3.Implies(z3.And(0 <= k, k <= n), z3.And(PL(k) >= 0, PL(k) <= k)), patterns=[PL(k)]),
            z3.ForAll([i], z3.Implies(inr, NL(i) == PL(i + 1) - PL(start(i))), patterns=[NL(i)]),
            n >= 1, NN(n - 1) == n,
        ]
        self.named = {'ranges': ax[0], 'leaf': ax[1], 'childless': ax[2], 'children-ends': ax[3], 'child-span': ax[4],
                      'child-chain': ax[5], 'PL-step': ax[7], 'PL-range': ax[8], 'NL': ax[9]}
        if typing:
            D, E, C, OK = self.D, self.E, self.C, self.OK
            isdict = z3.Or(K(i) == KIND['Dict'], K(i) == KIND['OrderedDict'])
            ax += [
                z3.ForAll([i], z3.Implies(inr, z3.And(K(i) >= 0, K(i) <= 10)), patterns=[K(i)]),
                z3.ForAll([i], z3.Implies(z3.And(inr, K(i) == KIND['None']), z3.And(A(i) == 0, NL(i) == 0)), patterns=[K(i)]),
                z3.ForAll([i], z3.Implies(inr, (K(i) == KIND['Custom']) == (C(i) != NULL)), patterns=[K(i)]),
                z3.ForAll([i], z3.Implies(z3.And(inr, K(i) != KIND['Custom']), E(i) == NULL), patterns=[E(i)]),
                z3.ForAll([i], z3.Implies(z3.And(inr, E(i) != NULL), py_len(E(i)) == A(i)), patterns=[E(i)]),
                # dict kinds: node_data is a key list of length arity (DefaultDict: 2-tuple (factory, keys))
                z3.ForAll([i], z3.Implies(z3.And(inr, isdict), z3.And(D(i) != NULL, py_len(D(i)) == A(i))), patterns=[D(i)]),
                z3.ForAll([i], z3.Implies(z3.And(inr, K(i) == KIND['DefaultDict']),
                                          z3.And(D(i) != NULL, py_len(D(i)) == 2, py_item(D(i), 1) != NULL,
                                                 py_len(py_item(D(i), 1)) == A(i))), patterns=[D(i)]),
                z3.ForAll([i], z3.Implies(z3.And(inr, z3.Or(K(i) == KIND['NamedTuple'], K(i) == KIND['StructSequence'],
                                                            K(i) == KIND['Deque'])), D(i) != NULL), patterns=[D(i)]),
                z3.ForAll([i], z3.Implies(z3.And(inr, z3.Or(K(i) == KIND['Leaf'], K(i) == KIND['None'], K(i) == KIND['Tuple'],
                                                            K(i) == KIND['List'])), D(i) == NULL), patterns=[D(i)]),
                z3.ForAll([i], z3.Implies(z3.And(inr, OK(i) != NULL),
                                          z3.And(z3.Or(K(i) == KIND['Dict'], K(i) == KIND['DefaultDict']),
                                                 py_len(OK(i)) == A(i))), patterns=[OK(i)]),
                z3.ForAll([i], z3.Implies(z3.And(inr, C(i) != NULL), z3.And(reg_type(C(i)) != NULL, reg_pet(C(i)) != NULL)),
                          patterns=[C(i)]),
                # concrete Python types of the payload (what the flatten functions store)
                z3.ForAll([i], z3.Implies(z3.And(inr, isdict), py_is_list(D(i))), patterns=[D(i)]),
                z3.ForAll([i], z3.Implies(z3.And(inr, K(i) == KIND['DefaultDict']),
                                          z3.And(py_is_tuple(D(i)), py_is_list(py_item(D(i), 1)))), patterns=[D(i)]),
                z3.ForAll([i], z3.Implies(z3.And(inr, z3.Or(K(i) == KIND['NamedTuple'], K(i) == KIND['StructSequence'])),
                                          py_is_type(D(i))), patterns=[D(i)]),
                z3.ForAll([i], z3.Implies(z3.And(inr, K(i) == KIND['Custom']), D(i) != NULL), patterns=[D(i)]),
                z3.ForAll([i], z3.Implies(z3.And(inr, E(i) != NULL), py_is_tuple(E(i))), patterns=[E(i)]),
                z3.ForAll([i], z3.Implies(z3.And(inr, OK(i) != NULL), py_is_list(OK(i))), patterns=[OK(i)]),
            ]
        return ax
