"""Sidecar contract base class and helpers (the contracts themselves live in ocv/contracts/*.py, keyed by the
qualified name of the real function; /repo is never edited)."""
from __future__ import annotations

import z3

from . import model as M
from .model import (EMPTY, Int, Bool, KIND, NULL, PYNONE, Ref, Str, ElemRef, NodeVal, NodeVec, Opaque, OptNode, Ptr, PyObj, ScalarVec,
                    SpecObj, Tup, WFView, fresh)
from .symex import Ctx, Engine, State, Unsupported, type_class

REGISTRY: dict[str, 'Contract'] = {}


def contract(cls):
    inst = cls()
    REGISTRY[inst.name] = inst
    return cls


class Loop:
    """Loop specification: inv(cx) -> [(name, formula)], optional body_post(cx), decreases(cx), index, modifies."""

    def __init__(self, inv, body_post=None, decreases=None, index=None, modifies=(), seq_len=None, hints=None, break_post=None,
                 ghost_modifies=()):
        self.inv = inv
        self.ghost_modifies = tuple(ghost_modifies)      # symbolic ghost state the body updates: havocked at the loop head
        if break_post is not None:
            self.break_post = break_post
        if hints is not None:
            self.hints = hints
        if body_post is not None:
            self.body_post = body_post
        if decreases is not None:
            self.decreases = decreases
        if index is not None:
            self.index = index
        self.modifies = modifies
        if seq_len is not None:
            self.seq_len = seq_len


def symbolic_spec(st: State, name: str, wf=True, typing=True):
    vec = NodeVec.symbolic(name + '.trav')
    vid = st.alloc(vec)
    sid = st.alloc(SpecObj(vid, z3.Bool(name + '.nil'), z3.Const(name + '.ns', Str)))
    view = WFView(vec, name)
    st.ghost.setdefault('wf', {})
    st.ghost['wf'] = dict(st.ghost['wf'])
    st.ghost['wf'][vid] = view
    if wf:
        st.facts += view.axioms(typing=typing)
        if typing:
            # a None node exists only in treespecs made with none_is_leaf=False (otherwise None is a leaf)
            i = z3.Int(f'i!nil_{name}')
            st.facts.append(z3.ForAll([i], z3.Implies(z3.And(0 <= i, i < vec.len, view.K(i) == KIND['None']),
                                                      z3.Not(st.heap[sid].nil)), patterns=[view.K(i)]))
    return Ptr(sid), view


class Contract:
    name = ''
    inline = False
    this_is_spec = True          # non-static PyTreeSpec method: `this` is a well-formed spec
    wf_this = True
    typing = True
    loops: dict = {}
    props: tuple = ()
    writes_args: tuple = ()

    # ---- verification side -------------------------------------------------------------------
    def setup(self, eng: Engine, st: State, fn):
        """Bind parameters (and `this`) to symbolic values and assume the precondition."""
        self.views = {}
        if self.this_is_spec and '::PyTreeSpec::' in self.name and not self.is_static(fn):
            st.this, self.views['this'] = symbolic_spec(st, 'this', self.wf_this, self.typing)
        for p in fn.c:
            if p.k != 'ParmVarDecl':
                continue
            st.set(p.name, self.symbolic_param(eng, st, p), declare=True)
        cx = Ctx(eng, st)
        x = z3.Const('x!pyax', Ref)
        st.facts.append(z3.ForAll([x], M.py_len(x) >= 0, patterns=[M.py_len(x)]))      # len() is never negative
        # no object is both a list and a tuple (PyList_Check / PyTuple_Check test disjoint type flags)
        st.facts.append(z3.ForAll([x], z3.Not(z3.And(M.py_is_list(x), M.py_is_tuple(x))), patterns=[M.py_is_list(x)]))
        for name, e in self.pre(cx):
            st.facts.append(e)
        return cx

    def is_static(self, fn):
        return fn.get('storage') == 'static' or getattr(self, 'static', False)

    def symbolic_param(self, eng, st, p):
        tc = type_class(p.t)
        nm = p.name
        if tc in ('int', 'kind'):
            return z3.Int(nm)
        if tc == 'bool':
            return z3.Bool(nm)
        if tc == 'str':
            return z3.Const(nm, Str)
        if tc in ('py', 'optfn'):
            return PyObj(z3.Const(nm, Ref))
        if tc == 'regptr':
            return z3.Const(nm, Ref)
        if tc == 'spec':
            ptr, view = symbolic_spec(st, nm, True, self.typing)
            self.views[nm] = view
            return ptr
        if tc == 'node':
            return NodeVal.symbolic(nm)
        if tc == 'nodevec':
            vec = NodeVec.symbolic(nm)
            st.facts.append(vec.len >= 0)
            return Ptr(st.alloc(vec))
        if tc == 'objvec':
            vec = ScalarVec.symbolic(nm, Ref)
            st.facts.append(vec.len >= 0)
            return Ptr(st.alloc(vec))
        if tc == 'intvec':
            vec = ScalarVec.symbolic(nm, Int)
            st.facts.append(vec.len >= 0)
            return Ptr(st.alloc(vec))
        if tc.startswith('other:std::optional<') and 'Node' in tc:
            return self.optional_node(eng, st, p)
        if tc.startswith('other:'):
            return self.other_param(eng, st, p)
        raise Unsupported(f'parameter {nm}: {p.t}')

    def optional_node(self, eng, st, p):
        return OptNode(z3.Bool(p.name + '.has'), NodeVal.symbolic(p.name))

    def other_param(self, eng, st, p):
        # template span parameters etc. (decided by the contract)
        raise Unsupported(f'parameter {p.name}: {p.t}')

    def pre(self, cx):
        return []

    def post(self, cx, ret):
        return []

    def frame(self, cx, ret):
        return self.default_frame(cx)

    def frame_exc(self, cx):
        return self.default_frame(cx)

    def default_frame(self, cx):
        """`this` (const method) is unchanged: same arrays, same length, same flags."""
        out = []
        if 'this' in getattr(self, 'views', {}) and getattr(self, 'const_this', True):
            a, b = cx.this_vec(cx.entry), cx.this_vec(cx.st)
            same = z3.And(a.len == b.len, *[x == y for (_, x), (_, y) in zip(a.f, b.f)])
            sa, sb = cx.this_spec(cx.entry), cx.this_spec(cx.st)
            out.append(('this-unchanged', z3.And(same, sa.nil == sb.nil, sa.ns == sb.ns)))
        return out

    def raises(self, cx) -> dict:
        """Allowed exception classes -> condition under which they are allowed (None: unconditional)."""
        return {}

    # ---- call-site side (modular use) -----------------------------------------------------------
    def apply(self, eng, st, this, args, n):
        raise Unsupported(f'no call-site summary for {self.name}')


def sanity(view: WFView):
    """Consequences of PYTREESPEC_SANITY_CHECK."""
    n = view.v.len
    return z3.And(n >= 1, view.NN(n - 1) == n)


def forall(vs, body, patterns=()):
    """ForAll with patterns where z3 accepts them (terms that are not valid patterns, e.g. in post-states with stores)."""
    try:
        return z3.ForAll(vs, body, patterns=list(patterns)) if patterns else z3.ForAll(vs, body)
    except z3.Z3Exception:
        return z3.ForAll(vs, body)
