"""cxxvc: path-sensitive symbolic execution of the reduced clang AST and VC generation.

Obligation classes (DESIGN.md 1.2):  I  every `throw optree::InternalError` unreachable;  II  memory safety of
unchecked accesses;  III functional postconditions of the sidecar contract;  IV frame / effect conditions.
Loops are cut by sidecar invariants, calls to functions under contract are replaced by the callee's contract,
small helpers without contract are inlined from their own AST.
"""
from __future__ import annotations

import copy
import itertools
import re
import time
from dataclasses import dataclass, field, replace
from typing import Any, Callable

import z3

from . import model as M
from .ast import N, Program
from .model import (EMPTY, Int, Bool, KIND, NULL, PYNONE, Ref, Str, BackInserter, Bound, ElemRef, Func, Iter, Lam, NodeVal, OptNode, PySeqIter,
                    NodeVec, Opaque, PairVec, Ptr, PtrVec, PyObj, ScalarVec, SpecObj, Tup, fresh)


def _load_base_loops():
    import json
    from pathlib import Path
    f = Path(__file__).resolve().parent.parent / 'loops.json'
    try:
        return json.loads(f.read_text())
    except Exception:
        return {}


BASE_LOOPS = _load_base_loops()


class Unsupported(Exception):
    pass


# ------------------------------------------------------------------------------------------------
# state

class Scope:
    def __init__(self, parent=None):
        self.vars: dict[str, Any] = {}
        self.parent = parent

    def lookup(self, name):
        s = self
        while s is not None:
            if name in s.vars:
                return s
            s = s.parent
        return None

    def clone(self, memo):
        if id(self) in memo:
            return memo[id(self)]
        c = Scope(self.parent.clone(memo) if self.parent else None)
        memo[id(self)] = c
        c.vars = dict(self.vars)
        return c


class State:
    def __init__(self):
        self.scope = Scope()
        self.pc: list = []            # path condition (quantifier-free facts learned on the path)
        self.facts: list = []         # assumed axioms (WF of inputs, callee postconditions, invariants)
        self.heap: dict[int, Any] = {}
        self.ghost: dict[str, Any] = {'locks': (), 'trace': (), 'pyerr': z3.BoolVal(False), 'epoch': 0, 'newrefs': ()}
        self.this: Ptr | None = None

    def clone(self) -> 'State':
        s = State.__new__(State)
        memo: dict = {}
        s.scope = self.scope.clone(memo)
        s.pc = list(self.pc)
        s.facts = list(self.facts)
        s.heap = dict(self.heap)
        s.ghost = dict(self.ghost)
        s.this = self.this
        # lambdas capture scopes: remap
        for sc in memo.values():
            for k, v in list(sc.vars.items()):
                if isinstance(v, Lam) and id(v.scope) in memo:
                    sc.vars[k] = Lam(v.node, memo[id(v.scope)])
        return s

    def push(self):
        self.scope = Scope(self.scope)

    def pop(self):
        self.scope = self.scope.parent

    def get(self, name):
        s = self.scope.lookup(name)
        if s is None:
            raise Unsupported(f'unbound variable {name}')
        return s.vars[name]

    def set(self, name, val, declare=False):
        if declare:
            self.scope.vars[name] = val
            return
        s = self.scope.lookup(name)
        if s is None:
            raise Unsupported(f'assignment to unbound variable {name}')
        s.vars[name] = val

    _oid = itertools.count(1)

    def alloc(self, obj) -> int:
        oid = next(State._oid)
        self.heap[oid] = obj
        return oid


@dataclass
class VC:
    id: str
    cls: str
    hyps: list
    goal: Any
    line: int = 0
    function: str = ''
    note: str = ''


NORMAL = ('normal',)


def is_z3(v):
    return isinstance(v, z3.ExprRef)


def as_bool(v):
    if isinstance(v, bool):
        return z3.BoolVal(v)
    if is_z3(v):
        if z3.is_bool(v):
            return v
        if z3.is_int(v):
            return v != 0
        if v.sort() == Ref:
            return v != NULL
    if isinstance(v, PyObj):
        return v.ref != NULL
    if isinstance(v, Ptr):
        return z3.BoolVal(v.oid is not None)
    raise Unsupported(f'as_bool({v!r})')


def as_int(v):
    if isinstance(v, bool):
        return z3.IntVal(1 if v else 0)
    if isinstance(v, int):
        return z3.IntVal(v)
    if is_z3(v):
        if z3.is_int(v):
            return v
        if z3.is_bool(v):
            return z3.If(v, z3.IntVal(1), z3.IntVal(0))
    raise Unsupported(f'as_int({v!r})')


def refof(v):
    if isinstance(v, PyObj):
        return v.ref
    if is_z3(v) and v.sort() == Ref:
        return v
    raise Unsupported(f'refof({v!r})')


def type_class(t: str) -> str:
    """Coarse classification of a C++ type string."""
    t = t.replace('const ', '').replace('struct ', '').replace('class ', '').strip()
    t = re.sub(r'\s*&+$', '', t).strip()
    if t in ('long', 'int', 'unsigned long', 'ssize_t', 'size_t', 'pybind11::ssize_t', 'optree::ssize_t', 'std::size_t',
             'py::ssize_t', 'unsigned char', 'std::uint8_t', 'unsigned int', 'Py_ssize_t', 'optree::size_t', 'pybind11::size_t'):
        return 'int'
    if t == 'bool':
        return 'bool'
    if t.endswith('PyTreeKind'):
        return 'kind'
    if t.startswith('std::basic_string') or t.startswith('std::__cxx11::basic_string') or t in ('std::string', 'string'):
        return 'str'
    if t.endswith('PyTreeSpec::Node') or t == 'Node':
        return 'node'
    if re.match(r'std::vector<(optree::)?(PyTreeSpec::)?Node', t):
        return 'nodevec'
    if re.match(r'std::vector<std::unique_ptr<(optree::)?PyTreeSpec', t):
        return 'ptrvec'
    if re.match(r'std::vector<std::pair<(long|ssize_t), ?(long|ssize_t)>', t):
        return 'pairvec'
    if re.match(r'std::vector<std::pair<(pybind11|py)::object, ?(long|ssize_t)>', t):
        return 'objintvec'
    if re.match(r'std::vector<(long|ssize_t|pybind11::ssize_t)', t):
        return 'intvec'
    if re.match(r'std::vector<(pybind11|py)::', t):
        return 'objvec'
    if re.match(r'std::unique_ptr<(optree::)?PyTreeSpec', t) or t.endswith('PyTreeSpec *'):
        return 'specptr'
    if t.endswith('PyTreeSpec'):
        return 'spec'
    if ('shared_ptr<' in t and 'Registration' in t) or t.endswith('RegistrationPtr'):
        return 'regptr'
    if re.match(r'std::optional<(pybind11|py)::function', t):
        return 'optfn'
    if re.match(r'(pybind11|py)::', t) or t in ('PyObject *', '_object *', 'PyTypeObject *', '_typeobject *'):
        return 'py'
    if 'ostringstream' in t or 'basic_ostream' in t:
        return 'oss'
    return 'other:' + t


# ------------------------------------------------------------------------------------------------
# engine

class Engine:
    def __init__(self, prog: Program, contracts: dict, models=None):
        self.prog = prog
        self.contracts = contracts
        self.vcs: list[VC] = []
        self.exc: list = []               # exceptional outcomes of the function being executed
        self.fn = ''
        self.loop_ordinal = 0
        self.inline_depth = 0
        self.template_env: dict[str, Any] = {}
        self.solver = z3.Solver()
        self.solver.set('timeout', 400)
        self.notes: list[str] = []
        self.names: dict[str, int] = {}
        self.covers: list = []
        self.cur_contract = None

    # -- summaries of the access helpers, derived from their real AST ---------------------------
    def helper_summary(self, name: str) -> dict:
        """`checked`: the helper uses the bounds-/NULL-checked CPython primitive and tests its result."""
        cache = self.__dict__.setdefault('_helper_cache', {})
        if name in cache:
            return cache[name]
        fn = self.prog.functions.get(name)
        res = {'checked': False}
        if fn is not None:
            names = {d.name for d in self.walk(fn) if d.k in ('DeclRefExpr', 'UnresolvedLookupExpr', 'CXXDependentScopeMemberExpr')}
            has_null_test = any(d.k == 'IfStmt' for d in self.walk(fn)) and \
                any(d.k == 'CXXThrowExpr' for d in self.walk(fn))
            if name == 'ListGetItemAs':
                res['checked'] = ('PyList_GetItem' in names or 'PyList_GetItemRef' in names) and has_null_test \
                    and 'ob_item' not in names
            if name == 'DictGetItemAs':
                res['checked'] = ('PyDict_GetItemWithError' in names or 'PyDict_GetItemRef' in names) and has_null_test
        cache[name] = res
        return res

    # -- obligations ---------------------------------------------------------------------------
    def oblige(self, st: State, cls: str, role: str, goal, line=0, note='', _split=True):
        # conjunctive goals are split conjunct by conjunct (small queries are the stable ones)
        if _split and is_z3(goal) and z3.is_and(goal) and goal.num_args() > 1:
            for k, g in enumerate(goal.children()):
                self.oblige(st, cls, f'{role}~{k}', g, line, note, _split=True)
            return
        base = f'{self.fn}::{cls}::{role}'
        k = self.names.get(base, 0)
        self.names[base] = k + 1
        oid = base if k == 0 else f'{base}#{k}'
        g = goal if is_z3(goal) else z3.BoolVal(bool(goal))
        self.vcs.append(VC(oid, cls, list(st.facts) + list(st.pc), g, line, self.fn, note))

    def assume(self, st: State, e):
        st.pc.append(e if is_z3(e) else z3.BoolVal(bool(e)))

    def feasible(self, st: State) -> bool:
        s = self.solver
        s.push()
        for p in st.pc:
            s.add(p)
        r = s.check()
        s.pop()
        return r != z3.unsat

    def throw(self, st: State, cls: str, line=0, info=''):
        if cls == 'rethrow' and st.ghost.get('caught'):
            cls, info = st.ghost['caught'][1], st.ghost['caught'][2]
        self.exc.append((st, ('throw', cls, info, line)))

    # -- expression evaluation ------------------------------------------------------------------
    def ev(self, n: N, st: State) -> list:
        """Evaluate to a list of (state, value) continuations (normal outcomes only)."""
        h = getattr(self, 'e_' + n.k, None)
        if h is None:
            raise Unsupported(f'expr kind {n.k} at L{n.get("line")} in {self.fn}')
        return h(n, st)

    def ev1(self, n: N, st: State):
        r = self.ev(n, st)
        if len(r) != 1:
            raise Unsupported(f'forking expression where a single value is needed: {n!r} ({len(r)})')
        return r[0]

    def ev_seq(self, nodes: list, st: State) -> list:
        """Evaluate several expressions left to right: list of (state, [values])."""
        outs = [(st, [])]
        for n in nodes:
            nxt = []
            for s, vals in outs:
                for s2, v in self.ev(n, s):
                    nxt.append((s2, vals + [v]))
            outs = nxt
        return outs

    # literals
    def e_IntegerLiteral(self, n, st):
        return [(st, z3.IntVal(int(n['v'])))]

    def e_CXXBoolLiteralExpr(self, n, st):
        return [(st, z3.BoolVal(bool(n['v'])))]

    def e_StringLiteral(self, n, st):
        s = n['v']
        if s in ('""',):
            return [(st, EMPTY)]
        return [(st, Opaque('strlit:' + s))]

    def e_CXXNullPtrLiteralExpr(self, n, st):
        return [(st, Ptr(None))]

    def e_GNUNullExpr(self, n, st):
        return [(st, Ptr(None))]

    def e_PredefinedExpr(self, n, st):
        return [(st, Opaque('func'))]

    def e_CXXDefaultArgExpr(self, n, st):
        return [(st, Opaque('default'))]

    def e_CXXThisExpr(self, n, st):
        return [(st, st.this)]

    def e_DeclRefExpr(self, n, st):
        name = n.name
        rk = n.get('refk')
        if rk == 'EnumConstantDecl':
            return [(st, z3.IntVal(KIND[name]))]
        if rk in ('FunctionDecl', 'CXXMethodDecl'):
            return [(st, Func(name, n))]
        if rk == 'NonTypeTemplateParmDecl':
            if name not in self.template_env:
                self.template_env[name] = z3.Bool(f'tparam_{name}')
            return [(st, self.template_env[name])]
        if st.scope.lookup(name) is not None:
            return [(st, st.get(name))]
        g = self.global_value(name, n)
        if g is not None:
            return [(st, g)]
        raise Unsupported(f'DeclRefExpr {name} ({rk}) L{n.get("line")}')

    def global_value(self, name, n):
        consts = {'MAX_RECURSION_DEPTH': z3.IntVal(M.MAX_RECURSION_DEPTH), 'NONE_IS_LEAF': z3.BoolVal(True),
                  'NONE_IS_NODE': z3.BoolVal(False), 'MAX_TYPE_CACHE_SIZE': z3.IntVal(4096)}
        if name in consts:
            return consts[name]
        if name.startswith('k') and name[1:] in KIND:
            return z3.IntVal(KIND[name[1:]])
        if re.fullmatch(r'Py[A-Za-z]+_Type', name):
            # the static type objects of CPython: one constant per name (nothing is assumed about them being distinct)
            return PyObj(z3.Const('py_' + name[2:-5].lower(), Ref), stable=True)
        if name == '_Py_NoneStruct':
            return PyObj(PYNONE, stable=True)
        if name.startswith('PyExc_'):
            return PyObj(z3.Const(name, Ref), stable=True)
        hook = getattr(self.cur_contract, 'global_value', None)
        if hook:
            return hook(self, name, n)
        return None

    def e_MemberExpr(self, n, st):
        outs = []
        for s, base in self.ev(n.c[0], st):
            outs.append((s, self.member(s, base, n.name, n)))
        return outs

    def member(self, st: State, base, name: str, n=None):
        from .absmap import MapIt, AbsMap
        mh = getattr(self.cur_contract, 'member_hook', None)
        if mh is not None:
            r = mh(self, st, base, name, n)
            if r is not None:
                return r
        if isinstance(base, MapIt):
            m = st.heap[base.oid]
            if name == 'second':
                self.oblige(st, 'II', f'{m.name}:iterator-deref-valid', m.contains(base.key), n.get('line') if n else 0)
                return m.get(base.key)
            if name == 'first':
                return base.key[-1]
        if isinstance(base, Ptr) and base.oid is not None and isinstance(st.heap.get(base.oid), dict):
            # plain record object (e.g. the registry singleton): fields are heap pointers
            rec = st.heap[base.oid]
            if name in rec:
                return rec[name]
        if isinstance(base, Ptr):
            if base.oid is None:
                raise Unsupported('member of nullptr')
            obj = st.heap[base.oid]
            if isinstance(obj, SpecObj):
                if name == 'm_traversal':
                    return Ptr(obj.trav)
                if name == 'm_none_is_leaf':
                    return obj.nil
                if name == 'm_namespace':
                    return obj.ns
                return Bound(base, name, n)
            return Bound(base, name, n)
        if isinstance(base, ElemRef):
            vec = st.heap[base.oid]
            if isinstance(vec, NodeVec) and name in M.NODE_FIELDS:
                v = vec.sel(name, base.idx)
                return PyObj(v, stable=True) if M.NODE_FIELDS[name] == Ref and name != 'custom' else v
            if isinstance(vec, PairVec) and name in ('first', 'second'):
                return z3.Select(vec.a if name == 'first' else vec.b, base.idx)
            return Bound(base, name, n)
        if isinstance(base, NodeVal):
            if name in M.NODE_FIELDS:
                v = base.get(name)
                return PyObj(v, stable=True) if M.NODE_FIELDS[name] == Ref and name != 'custom' else v
        if is_z3(base) and base.sort() == Ref:       # RegistrationPtr -> field
            regf = {'type': M.reg_type, 'path_entry_type': M.reg_pet, 'kind': M.reg_kind,
                    'flatten_func': z3.Function('reg_flatten_func', Ref, Ref),
                    'unflatten_func': z3.Function('reg_unflatten_func', Ref, Ref)}
            if name in regf:
                v = regf[name](base)
                return v if name == 'kind' else PyObj(v, stable=True)
        if isinstance(base, Tup) and name in ('first', 'second'):
            return base.items[0 if name == 'first' else 1]
        return Bound(base, name, n)

    # lvalues -------------------------------------------------------------------------------------
    def place(self, n: N, st: State):
        """Return (state, place) where place is ('var', name) | ('field', place, fname) | ('elem', oid, idx) |
        ('specfield', oid, fname)."""
        k = n.k
        if k == 'DeclRefExpr':
            v = st.get(n.name)
            if isinstance(v, ElemRef):
                return st, ('elem', v.oid, v.idx)
            return st, ('var', n.name)
        if k == 'MemberExpr':
            st, base = self.ev1(n.c[0], st)
            if isinstance(base, Ptr) and isinstance(st.heap.get(base.oid), SpecObj):
                return st, ('specfield', base.oid, n.name)
            if is_z3(base) and base.sort() == Ref:
                return st, ('regfield', base, n.name)
            if isinstance(base, ElemRef):
                return st, ('field', ('elem', base.oid, base.idx), n.name)
            st, bp = self.place(n.c[0], st)
            return st, ('field', bp, n.name)
        if k == 'CXXOperatorCallExpr' and n.c[0].name == 'operator[]':
            st, vec = self.ev1(n.c[1], st)
            st, idx = self.ev1(n.c[2], st)
            if isinstance(vec, Ptr):
                return st, ('elem', vec.oid, as_int(idx))
        if k == 'UnaryOperator' and n['op'] == '*':
            st, p = self.ev1(n.c[0], st)
            if isinstance(p, Ptr):
                return st, ('obj', p.oid)
            if isinstance(p, Iter):
                return st, ('elem', p.oid, self.iter_index(st, p))
        if k in ('CXXOperatorCallExpr',) and n.c[0].name in ('operator*', 'operator->'):
            st, p = self.ev1(n.c[1], st)
            if isinstance(p, Ptr):
                return st, ('obj', p.oid)
            if isinstance(p, Iter):
                return st, ('elem', p.oid, self.iter_index(st, p))
        if k == 'CXXMemberCallExpr':
            st, v = self.ev1(n, st)
            if isinstance(v, ElemRef):
                return st, ('elem', v.oid, v.idx)
        raise Unsupported(f'lvalue {n!r}')

    def read_place(self, st: State, p):
        if p[0] == 'var':
            return st.get(p[1])
        if p[0] == 'elem':
            vec = st.heap[p[1]]
            if isinstance(vec, NodeVec):
                return vec.node_at(p[2])
            if isinstance(vec, ScalarVec):
                v = z3.Select(vec.arr, p[2])
                return PyObj(v) if vec.sort == Ref else v
            if isinstance(vec, PairVec):
                a, b = z3.Select(vec.a, p[2]), z3.Select(vec.b, p[2])
                return Tup((PyObj(a) if a.sort() == Ref else a, PyObj(b) if b.sort() == Ref else b))
            if isinstance(vec, PtrVec):
                key = p[2].sexpr()
                for k, _, ptr in vec.entries:
                    if k == key:
                        return ptr
                raise Unsupported('read of unknown ptrvec entry')
            raise Unsupported(f'read elem of {vec!r}')
        if p[0] == 'field':
            b = self.read_place(st, p[1])
            return self.member(st, b, p[2])
        if p[0] == 'specfield':
            return self.member(st, Ptr(p[1]), p[2])
        if p[0] == 'obj':
            return Ptr(p[1])
        raise Unsupported(f'read_place {p}')

    def write_place(self, st: State, p, val):
        if p[0] == 'var':
            st.set(p[1], val)
            return
        if p[0] == 'elem':
            vec = st.heap[p[1]]
            if isinstance(vec, NodeVec):
                if not isinstance(val, NodeVal):
                    val = self.to_nodeval(st, val)
                st.heap[p[1]] = vec.store(p[2], val)
                return
            if isinstance(vec, ScalarVec):
                v = refof(val) if vec.sort == Ref else as_int(val)
                st.heap[p[1]] = replace(vec, arr=z3.Store(vec.arr, p[2], v))
                return
            if isinstance(vec, PtrVec):
                key = p[2].sexpr()
                ents = tuple(e for e in vec.entries if e[0] != key) + ((key, p[2], val),)
                st.heap[p[1]] = replace(vec, entries=ents)
                return
            raise Unsupported(f'write elem of {vec!r}')
        if p[0] == 'field':
            b = self.read_place(st, p[1])
            if isinstance(b, NodeVal):
                f = p[2]
                v = val
                if M.NODE_FIELDS[f] == Ref:
                    v = refof(val) if not isinstance(val, Ptr) else NULL
                elif M.NODE_FIELDS[f] == Int:
                    v = as_int(val)
                self.write_place(st, p[1], b.with_(f, v))
                return
            raise Unsupported(f'write field of {b!r}')
        if p[0] == 'regfield':
            # field of a freshly made Registration: recorded as a fact about the (fresh) registration object
            fn = {'type': M.reg_type, 'path_entry_type': M.reg_pet, 'kind': M.reg_kind,
                  'flatten_func': z3.Function('reg_flatten_func', Ref, Ref),
                  'unflatten_func': z3.Function('reg_unflatten_func', Ref, Ref)}[p[2]]
            st.pc.append(fn(p[1]) == (as_int(val) if p[2] == 'kind' else refof(val)))
            return
        if p[0] == 'specfield':
            obj = st.heap[p[1]]
            f = {'m_none_is_leaf': 'nil', 'm_namespace': 'ns'}.get(p[2])
            if f is None:
                raise Unsupported(f'write spec field {p[2]}')
            st.heap[p[1]] = replace(obj, **{f: val})
            return
        raise Unsupported(f'write_place {p}')

    def to_nodeval(self, st, v):
        if isinstance(v, NodeVal):
            return v
        if isinstance(v, ElemRef):
            vec = st.heap[v.oid]
            return vec.node_at(v.idx)
        raise Unsupported(f'to_nodeval({v!r})')

    # operators -----------------------------------------------------------------------------------
    def e_UnaryOperator(self, n, st):
        op = n['op']
        if op in ('++', '--'):
            st, p = self.place(n.c[0], st)
            old = self.read_place(st, p)
            if isinstance(old, PySeqIter):
                # ++it pulls the next item: runs user code (__next__) and may raise
                self.may_call_python(st, '__next__ of a Python iterator', n.get('line'))
                s_exc = st.clone()
                self.throw(s_exc, 'pybind11::error_already_set', n.get('line'), 'from __next__')
                new = PySeqIter(old.ref, old.pos + 1)
            elif isinstance(old, Iter):
                new = replace(old, pos=old.pos + (1 if op == '++' else -1))
            else:
                new = as_int(old) + (1 if op == '++' else -1)
            self.write_place(st, p, new)
            return [(st, old if n.get('postfix') else new)]
        if op == '&':
            if n.c[0].k == 'DeclRefExpr' and st.scope.lookup(n.c[0].name) is None:
                g = self.global_value(n.c[0].name, n.c[0])
                if g is not None:
                    return [(st, g)]
            # address-of: only &agenda[i] style is modelled, as an element reference
            st, p = self.place(n.c[0], st)
            if p[0] == 'elem':
                return [(st, ElemRef(p[1], p[2]))]
            raise Unsupported('address-of')
        outs = []
        for s, v in self.ev(n.c[0], st):
            if op == '!':
                outs.append((s, z3.Not(as_bool(v))))
            elif op == '-':
                outs.append((s, -as_int(v)))
            elif op == '+':
                outs.append((s, as_int(v)))
            elif op == '*':
                outs.append((s, self.deref(s, v)))
            else:
                raise Unsupported(f'unary {op} at L{n.get("line")}')
        return outs

    def deref(self, st, v):
        from .absmap import MapIt
        if isinstance(v, MapIt):
            return v
        if isinstance(v, PySeqIter):
            self.oblige(st, 'II', 'python-iterator-deref:not-at-end', z3.And(0 <= v.pos, v.pos < M.iter_len(v.ref)))
            return PyObj(M.iter_item(v.ref, v.pos))
        if isinstance(v, Ptr):
            return v
        if isinstance(v, Iter):
            idx = self.iter_index(st, v)
            self.oblige(st, 'II', 'vector-iterator-deref:in-range', z3.And(0 <= idx, idx < st.heap[v.oid].len))
            return ElemRef(v.oid, idx)
        if isinstance(v, PyObj):     # *optional<py::function>
            return v
        if is_z3(v) and v.sort() == Ref:      # shared_ptr<const Registration>
            self.oblige(st, 'II', 'shared_ptr-deref:non-null', v != NULL)
            return v
        raise Unsupported(f'deref {v!r}')

    def iter_index(self, st, it: Iter):
        vec = st.heap[it.oid]
        return (vec.len - 1 - it.pos) if it.rev else it.pos

    def e_BinaryOperator(self, n, st):
        op = n['op']
        if op == '=':
            outs = []
            for s, v in self.ev(n.c[1], st):
                s, p = self.place(n.c[0], s)
                if isinstance(v, ElemRef):
                    v = self.load(s, v)
                self.write_place(s, p, self.coerce(v, n.c[0].t))
                outs.append((s, v))
            return outs
        if op in ('&&', '||'):
            outs = []
            for s, a in self.ev(n.c[0], st):
                a = as_bool(a)
                # right operand evaluated only on one side (short circuit): fork if it has effects
                if self.pure(n.c[1]):
                    for s2, b in self.ev(n.c[1], s):
                        outs.append((s2, z3.And(a, as_bool(b)) if op == '&&' else z3.Or(a, as_bool(b))))
                else:
                    s_short = s.clone()
                    self.assume(s_short, z3.Not(a) if op == '&&' else a)
                    if self.feasible(s_short):
                        outs.append((s_short, z3.BoolVal(op == '||')))
                    self.assume(s, a if op == '&&' else z3.Not(a))
                    if self.feasible(s):
                        for s2, b in self.ev(n.c[1], s):
                            outs.append((s2, as_bool(b)))
            return outs
        if op == ',':
            outs = []
            for s, _ in self.ev(n.c[0], st):
                outs += self.ev(n.c[1], s)
            return outs
        outs = []
        for s, (a, b) in self.ev_seq(n.c[:2], st):
            if op in ('==', '!=') and (isinstance(a, ElemRef) and isinstance(b, Ptr) and b.oid is None
                                       or isinstance(b, ElemRef) and isinstance(a, Ptr) and a.oid is None):
                outs.append((s, z3.BoolVal(op == '!=')))      # the address of a vector element is never null
                continue
            outs.append((s, self.binop(s, op, a, b)))
        return outs

    def load(self, st, v):
        if isinstance(v, ElemRef):
            return self.read_place(st, ('elem', v.oid, v.idx))
        return v

    def coerce(self, v, t):
        tc = type_class(t)
        if tc == 'int' and is_z3(v) and z3.is_bool(v):
            return as_int(v)
        if tc == 'bool' and not (is_z3(v) and z3.is_bool(v)):
            return as_bool(v)
        return v

    def pure(self, n: N) -> bool:
        if n.k in ('CXXConstructExpr', 'CXXTemporaryObjectExpr', 'CXXFunctionalCastExpr') and \
                type_class(n.t) in ('py', 'regptr', 'int', 'bool', 'kind') and 'tuple' not in n.t and 'list' not in n.t \
                and 'dict' not in n.t:
            return all(self.pure(c) for c in n.c)
        if n.k in ('CallExpr', 'CXXMemberCallExpr', 'CXXOperatorCallExpr', 'CXXConstructExpr', 'LambdaExpr'):
            if n.k == 'CXXMemberCallExpr' and n.c and n.c[0].k == 'MemberExpr' and \
                    n.c[0].name in ('empty', 'size', 'is_none', 'back', 'is', 'end', 'begin', 'cend', 'crend'):
                return all(self.pure(c) for c in n.c)
            if n.k == 'CXXOperatorCallExpr' and n.c[0].name in ('operator==', 'operator!=', 'operator->', 'operator*',
                                                                'operator[]', 'operator bool'):
                return all(self.pure(c) for c in n.c[1:])
            return False
        if n.k in ('UnaryOperator',) and n.get('op') in ('++', '--'):
            return False
        if n.k in ('BinaryOperator', 'CompoundAssignOperator') and n.get('op', '').endswith('=') and \
                n.get('op') not in ('==', '!=', '<=', '>='):
            return False
        return all(self.pure(c) for c in n.c)

    def binop(self, st, op, a, b):
        a, b = self.load(st, a), self.load(st, b)
        if isinstance(a, Iter) or isinstance(b, Iter):
            return self.iter_binop(st, op, a, b)
        if op in ('==', '!='):
            e = self.equal(st, a, b)
            return e if op == '==' else z3.Not(e)
        if op == '+' and (isinstance(a, Opaque) or isinstance(b, Opaque) or (is_z3(a) and a.sort() == Str)
                          or (is_z3(b) and b.sort() == Str)):
            return Opaque('str')          # string concatenation (message building is dropped)
        if op == '*' and getattr(self.cur_contract, 'abstract_mul', False):
            x, y = as_int(a), as_int(b)
            if not (z3.is_int_value(x) or z3.is_int_value(y)):
                # products of two symbolic integers are kept abstract (EUF); the arithmetic facts the proof needs are
                # stated by the contract as lemmas that are proved for real multiplication (quantifier-free NIA queries)
                return M.mul(x, y)
        if op in ('<', '<=', '>', '>=', '+', '-', '*', '/', '%'):
            x, y = as_int(a), as_int(b)
            return {'<': lambda: x < y, '<=': lambda: x <= y, '>': lambda: x > y, '>=': lambda: x >= y,
                    '+': lambda: x + y, '-': lambda: x - y, '*': lambda: x * y, '/': lambda: x / y,
                    '%': lambda: x % y}[op]()
        if op in ('<<', '>>'):
            x, y = z3.simplify(as_int(a)), z3.simplify(as_int(b))
            if z3.is_int_value(x) and z3.is_int_value(y) and 0 <= y.as_long() < 63:
                return z3.IntVal(x.as_long() << y.as_long() if op == '<<' else x.as_long() >> y.as_long())
            raise Unsupported(f'shift of a symbolic value')
        if op in ('&', '|'):
            x, y = as_bool(a), as_bool(b)
            return z3.And(x, y) if op == '&' else z3.Or(x, y)
        raise Unsupported(f'binop {op}')

    def equal(self, st, a, b):
        eh = getattr(self.cur_contract, 'equal_hook', None)
        if eh is not None:
            r = eh(self, st, a, b)
            if r is not None:
                return r
        from .absmap import MapIt, it_equal
        if isinstance(a, MapIt) and isinstance(b, MapIt):
            return it_equal(st, a, b)
        if isinstance(a, PySeqIter) and isinstance(b, PySeqIter):
            if b.pos is None and a.pos is not None:
                return a.pos >= M.iter_len(a.ref)
            if a.pos is None and b.pos is not None:
                return b.pos >= M.iter_len(b.ref)
            if a.pos is None and b.pos is None:
                return z3.BoolVal(True)
            return a.pos == b.pos
        if isinstance(a, Ptr) and isinstance(b, Ptr):
            return z3.BoolVal(a.oid == b.oid)
        if isinstance(a, Ptr) and a.oid is None:
            return refof(b) == NULL
        if isinstance(b, Ptr) and b.oid is None:
            return refof(a) == NULL
        if isinstance(a, PyObj) or isinstance(b, PyObj):
            return refof(a) == refof(b)
        if is_z3(a) and is_z3(b):
            if a.sort() == b.sort():
                return a == b
            if z3.is_bool(a) or z3.is_bool(b):
                return as_bool(a) == as_bool(b)
            return as_int(a) == as_int(b)
        if is_z3(a) and isinstance(b, (int, bool)):
            return a == b
        if isinstance(a, Opaque) or isinstance(b, Opaque):
            hook = getattr(self.cur_contract, 'opaque_equal', None)
            if hook:
                r = hook(self, st, a, b)
                if r is not None:
                    return r
            if is_z3(a) and a.sort() == Str or is_z3(b) and b.sort() == Str:
                # comparison of a string with a literal: uninterpreted
                lit = b if isinstance(b, Opaque) else a
                s = a if is_z3(a) else b
                return z3.Function('str_is_' + re.sub(r'\W', '_', lit.tag)[:40], Str, Bool)(s)
            return fresh('opaque_eq', Bool)
        raise Unsupported(f'equal({a!r},{b!r})')

    def iter_binop(self, st, op, a, b):
        if isinstance(a, Iter) and isinstance(b, Iter):
            if a.oid != b.oid:
                raise Unsupported('comparison of iterators of different containers')
            if op == '==':
                return a.pos == b.pos
            if op == '!=':
                return a.pos != b.pos
            if op == '-':
                return a.pos - b.pos
            if op == '<':
                return a.pos < b.pos
            raise Unsupported(f'iter op {op}')
        if isinstance(a, Iter):
            d = as_int(b)
            if op == '+':
                return replace(a, pos=a.pos + d)
            if op == '-':
                return replace(a, pos=a.pos - d)
        raise Unsupported(f'iter op {op} {a!r} {b!r}')

    def e_CompoundAssignOperator(self, n, st):
        op = n['op'][:-1]
        outs = []
        for s, v in self.ev(n.c[1], st):
            s, p = self.place(n.c[0], s)
            old = self.read_place(s, p)
            new = self.binop(s, op, old, v)
            if z3.is_bool(new) and type_class(n.c[0].t) == 'int':
                new = as_int(new)
            if type_class(n.c[0].t) == 'bool' and not z3.is_bool(new):
                new = as_bool(new)
            self.write_place(s, p, new)
            outs.append((s, new))
        return outs

    def e_ConditionalOperator(self, n, st):
        outs = []
        for s, c in self.ev(n.c[0], st):
            c = as_bool(c)
            if self.pure(n.c[1]) and self.pure(n.c[2]):
                # both arms are effect-free: evaluate each under its guard (so that safety obligations of an arm
                # carry the guard) and merge the values
                st_t, st_f = s.clone(), s.clone()
                self.assume(st_t, c)
                self.assume(st_f, z3.Not(c))
                (s1, a), = self.ev(n.c[1], st_t)
                (s2, b), = self.ev(n.c[2], st_f)
                if not n.t.rstrip().endswith('*'):
                    a, b = self.load(s1, a), self.load(s2, b)
                outs.append((s, self.ite(c, a, b)))
            else:
                st_t, st_f = s, s.clone()
                self.assume(st_t, c)
                self.assume(st_f, z3.Not(c))
                if self.feasible(st_t):
                    outs += self.ev(n.c[1], st_t)
                if self.feasible(st_f):
                    outs += self.ev(n.c[2], st_f)
        return outs

    def ite(self, c, a, b):
        if isinstance(a, PyObj) or isinstance(b, PyObj):
            return PyObj(z3.If(c, refof(a), refof(b)), getattr(a, 'fresh', False) and getattr(b, 'fresh', False))
        if isinstance(a, Ptr) and isinstance(b, Ptr):
            if a == b:
                return a
            raise Unsupported('ite of distinct pointers')
        if isinstance(a, ElemRef) and isinstance(b, Ptr) and b.oid is None:
            return a     # `arity > 0 ? &agenda[k] : nullptr` - the null branch is never dereferenced when arity == 0
        if isinstance(a, Opaque) or isinstance(b, Opaque):
            return Opaque('ite')
        if is_z3(a) and is_z3(b):
            if a.sort() != b.sort():
                if z3.is_bool(a) or z3.is_bool(b):
                    return z3.If(c, as_bool(a), as_bool(b))
                return z3.If(c, as_int(a), as_int(b))
            return z3.If(c, a, b)
        if isinstance(a, NodeVal) and isinstance(b, NodeVal):
            return NodeVal(tuple((k, z3.If(c, a.get(k), b.get(k))) for k in M.NODE_FIELDS))
        raise Unsupported(f'ite({a!r},{b!r})')

    def e_ImplicitCastExpr(self, n, st):
        outs = []
        for s, v in self.ev(n.c[0], st):
            ck = n.get('cast')
            if ck in ('IntegralToBoolean', 'PointerToBoolean'):
                outs.append((s, as_bool(self.load(s, v))))
            elif ck == 'UserDefinedConversion':
                outs.append((s, v))
            else:
                outs.append((s, v))
        return outs

    def e_CXXStaticCastExpr(self, n, st):
        outs = []
        for s, v in self.ev(n.c[0], st):
            tc = type_class(n.t)
            v = self.load(s, v)
            if tc == 'bool':
                outs.append((s, as_bool(v)))
            elif tc in ('int', 'kind'):
                outs.append((s, as_int(v)))
            else:
                outs.append((s, v))
        return outs

    e_CStyleCastExpr = e_CXXStaticCastExpr
    e_CXXFunctionalCastExpr = e_CXXStaticCastExpr
    e_CXXReinterpretCastExpr = e_CXXStaticCastExpr
    e_CXXConstCastExpr = e_CXXStaticCastExpr

    def e_ArraySubscriptExpr(self, n, st):
        m = n.c[0]
        while m.k in ('ImplicitCastExpr', 'ParenExpr') and m.c:
            m = m.c[0]
        if m.k == 'MemberExpr' and m.name == 'ob_item' and m.c:
            # expansion of the CPython macro Py{Tuple,List}_GET_ITEM(op, i) = (_PyX_CAST(op)->ob_item[i]); the cast macro is
            # `(assert(PyX_Check(op)), (PyXObject*)(op))` - the debug assertion is dropped, the access is handed to the
            # contract's external contract of the macro (unchecked borrowed access: index obligation there)
            c = m.c[0]
            while c.k in ('ImplicitCastExpr', 'ParenExpr') and c.c:
                c = c.c[0]
            if c.k == 'BinaryOperator' and c.get('op') == ',' and any(d.name == '__assert_fail' for d in self.walk(c.c[0])):
                c = c.c[1]
            while c.k in ('ImplicitCastExpr', 'ParenExpr', 'CStyleCastExpr') and c.c:
                c = c.c[0]
            name = 'PyList_GET_ITEM' if 'PyListObject' in (m.c[0].t or '') else 'PyTuple_GET_ITEM'
            hook = getattr(self.cur_contract, 'call_hook', None)
            r = hook(self, st, name, [c, n.c[1]], n) if hook is not None else None
            if r is None:
                raise Unsupported(f'{name} macro expansion without an external contract in this function')
            return r
        outs = []
        for s, (base, idx) in self.ev_seq(n.c[:2], st):
            sh = getattr(self.cur_contract, 'subscript_hook', None)
            hv = sh(self, s, base, idx, n) if sh is not None else None
            if hv is not None:
                outs.append((s, hv))
                continue
            if isinstance(base, ElemRef):   # children[i] on `const py::object children[]` = &agenda[k]
                outs.append((s, self.read_place(s, ('elem', base.oid, base.idx + as_int(idx)))))
            elif isinstance(base, Ptr) and base.oid is not None and isinstance(s.heap.get(base.oid), (NodeVec, ScalarVec, PairVec)):
                v = s.heap[base.oid]            # vector subscript in a template pattern (unresolved operator[])
                i = as_int(idx)
                self.oblige(s, 'II', 'vector::operator[]:index-in-range', z3.And(0 <= i, i < v.len), n.get('line'))
                outs.append((s, ElemRef(base.oid, i)))
            elif isinstance(base, Opaque):
                outs.append((s, Opaque('subscript')))
            else:
                raise Unsupported(f'subscript of {base!r}')
        return outs

    def e_CXXRewrittenBinaryOperator(self, n, st):
        return self.ev(n.c[0], st)

    def e_LambdaExpr(self, n, st):
        return [(st, Lam(n, st.scope))]

    def e_InitListExpr(self, n, st):
        outs = []
        if type_class(n.t) == 'node':
            fields = list(M.NODE_FIELDS)
            # clang lists the initialisers in declaration order of struct Node (defaults as CXXDefaultInitExpr)
            order = ['kind', 'arity', 'node_data', 'node_entries', 'custom', 'num_leaves', 'num_nodes', 'original_keys']
            for s, vals in self.ev_seq(n.c, st):
                nv = NodeVal.default()
                for f, v in zip(order, vals):
                    if isinstance(v, Opaque) and v.tag == 'default-init':
                        continue
                    v = self.load(s, v)
                    if M.NODE_FIELDS[f] == Ref:
                        v = NULL if isinstance(v, Ptr) and v.oid is None else refof(v)
                    else:
                        v = as_int(v)
                    nv = nv.with_(f, v)
                outs.append((s, nv))
            return outs
        for s, vals in self.ev_seq(n.c, st):
            outs.append((s, Tup(tuple(vals))))
        return outs

    def e_CXXDefaultInitExpr(self, n, st):
        return [(st, Opaque('default-init'))]

    def e_CXXStdInitializerListExpr(self, n, st):
        return self.ev(n.c[0], st)

    def e_CXXThrowExpr(self, n, st):
        if not n.c:
            self.throw(st, 'rethrow', n.get('line'))
            return []
        cls, msg = self.exception_class(n.c[0])
        if 'error_already_set' in cls:
            st.ghost['pyerr'] = z3.BoolVal(False)      # the pending Python error is transferred into the C++ exception
        if cls == 'optree::InternalError':
            # an InternalError site is a consistency check that must be unreachable - unless the contract names it as a
            # designed guard against hostile inputs (then it is an ordinary exceptional exit whose condition the code tests)
            if any(msg.startswith(g) for g in getattr(self.cur_contract, 'designed_guards', ())):
                self.effects_of_message(n.c[0], st)
                self.throw(st, 'optree::InternalError(guard)', n.get('line'), msg)
                return []
            self.oblige(st, 'I', f'unreachable:{msg}', z3.BoolVal(False), n.get('line'))
        # evaluate operands for their effects (PyRepr etc.) only coarsely: message building is dropped
        self.effects_of_message(n.c[0], st)
        self.throw(st, cls, n.get('line'), msg)
        return []

    def exception_class(self, n: N):
        t = n.t.replace('const ', '')
        msg = ''
        for d in self.walk(n):
            if d.k == 'StringLiteral' and not d['v'].startswith('"/repo'):
                msg = d['v'].strip('"')
                break
        if not msg and 'InternalError' in t:
            msg = 'Unreachable code.'
        return t, msg[:90]

    def describe(self, n: N, limit=48) -> str:
        """Compact, line-independent description of an expression (names in pre-order) used in obligation ids."""
        parts = []
        for d in self.walk(n):
            if d.k in ('DeclRefExpr', 'MemberExpr', 'CXXDependentScopeMemberExpr', 'UnresolvedLookupExpr') and d.name:
                if d.name.startswith('operator') or d.name in ('ptr',):
                    continue
                parts.append(d.name)
            elif d.k == 'IntegerLiteral':
                parts.append(str(d['v']))
            elif d.k == 'CXXThisExpr':
                pass
        return '.'.join(parts)[:limit]

    def walk(self, n: N):
        yield n
        for c in n.c:
            yield from self.walk(c)

    def effects_of_message(self, n: N, st: State):
        """Exception messages are dropped by the extraction, but calls to PyRepr/PyStr inside them run Python."""
        for d in self.walk(n):
            if d.k == 'DeclRefExpr' and d.name in ('PyRepr', 'PyStr', 'ToString'):
                self.may_call_python(st, f'{d.name} (message)', d.get('line'))
                return

    # ghost effects ------------------------------------------------------------------------------
    def may_call_python(self, st: State, what: str, line=0):
        """A call into Python: class IV obligation L1 (no engine lock held) and havoc of mutable containers."""
        # L1 (C17): no engine lock is held while Python code may run
        self.oblige(st, 'IV', f'L1:no-lock-held-across-python-call:{what}', z3.BoolVal(not st.ghost['locks']), line,
                    note=('held: ' + '+'.join(st.ghost['locks'])) if st.ghost['locks'] else '')
        st.ghost['epoch'] = st.ghost['epoch'] + 1
        st.ghost['trace'] = st.ghost['trace'] + ((what, line),)
        hook = getattr(self.cur_contract, 'on_python_call', None)
        if hook:
            hook(self, st, what, line)

    # statements ---------------------------------------------------------------------------------
    def ex(self, n: N, st: State) -> list:
        h = getattr(self, 's_' + n.k, None)
        if h is None:
            # expression statement
            if n.k.endswith('Expr') or n.k.endswith('Operator') or n.k.endswith('Literal'):
                return [(s, NORMAL) for s, _ in self.ev(n, st)]
            raise Unsupported(f'stmt kind {n.k} at L{n.get("line")} in {self.fn}')
        return h(n, st)

    def s_CompoundStmt(self, n, st):
        st.push()
        outs = self.ex_block(n.c, st)
        res = []
        for s, o in outs:
            self.leave_scope(s)
            res.append((s, o))
        return res

    def leave_scope(self, s):
        """RAII: lock guards declared in the scope are released on every exit from it."""
        held = s.scope.vars.get('__locks__', ())
        if held:
            locks = list(s.ghost['locks'])
            for l in held:
                if l in locks:
                    locks.remove(l)
            s.ghost['locks'] = tuple(locks)
        s.pop()

    def ex_block(self, stmts, st):
        cur = [st]
        done = []
        for stmt in stmts:
            nxt = []
            for s in cur:
                for s2, o in self.ex(stmt, s):
                    if o is NORMAL:
                        nxt.append(s2)
                    else:
                        # leaving the block: unwind scopes happens in the callers
                        done.append((s2, o))
            cur = nxt
            if not cur:
                break
        return [(s, NORMAL) for s in cur] + done

    def s_DoStmt(self, n, st):
        # only the macro idiom `do { ... } while (0)` (Py_VISIT, EXPECT_*): the body runs exactly once
        body, cond = n.c[0], n.c[1]
        lit = next((d for d in self.walk(cond) if d.k == 'IntegerLiteral'), None)
        if lit is None or str(lit.get('v')) != '0':
            raise Unsupported('do-while loop with a non-constant condition')
        outs = []
        for s, o in self.ex(body, st):
            if o == ('break',) or o == ('continue',):
                o = NORMAL
            outs.append((s, o))
        return outs

    def s_NullStmt(self, n, st):
        return [(st, NORMAL)]

    def s_DeclStmt(self, n, st):
        cur = [st]
        for d in n.c:
            nxt = []
            for s in cur:
                nxt += self.declare(d, s)
            cur = nxt
        return [(s, NORMAL) for s in cur]

    def declare(self, d: N, st: State) -> list:
        if d.k == 'DecompositionDecl':
            outs = []
            inits = [c for c in d.c if c.k != 'BindingDecl']
            binds = [c for c in d.c if c.k == 'BindingDecl']
            for s, v in self.ev(inits[0], st):
                v = self.load(s, v)
                if not isinstance(v, Tup):
                    raise Unsupported(f'decomposition of {v!r}')
                for b, item in zip(binds, v.items):
                    s.set(b.name, item, declare=True)
                outs.append(s)
            return outs
        if d.k in ('StaticAssertDecl', 'TypedefDecl', 'TypeAliasDecl', 'UsingDecl', 'CXXRecordDecl'):
            return [st]
        if d.k != 'VarDecl':
            raise Unsupported(f'decl {d.k}')
        name, t = d.name, d.t
        inits = [c for c in d.c if not c.k.endswith('Attr')]
        if d.get('handle_var') and inits:
            # lifetime (C16): a non-owning py::handle must not be initialised from a temporary that solely owns a new object
            self.oblige(st, 'II', 'handle-variable-is-not-bound-to-a-temporary-that-solely-owns-its-object',
                        z3.BoolVal(not d.get('dangling')), d.get('line'),
                        note=f'{name} is copied from the temporary {d.get("dangling")}, which is destroyed at the end of the statement'
                        if d.get('dangling') else '')
        if d.get('storage') == 'static':
            hook = getattr(self.cur_contract, 'static_var', None)
            if hook:
                v = hook(self, st, name, d)
                if v is not None:
                    st.set(name, v, declare=True)
                    return [st]
            st.set(name, Opaque('static:' + name), declare=True)
            return [st]
        if not inits:
            st.set(name, self.default_value(st, t, name), declare=True)
            return [st]
        outs = []
        is_ref = t.rstrip().endswith('&')
        for s, v in self.ev(inits[0], st):
            if not is_ref:
                v = self.copy_value(s, v, t)
            if isinstance(v, Ptr) and v.oid is None and type_class(re.sub(r'\*\s*const$', '*', t.strip())) == 'py':
                v = PyObj(NULL)          # PyObject* / PyTypeObject* variable initialised with nullptr
            v = self.coerce(v, t) if not isinstance(v, (ElemRef, Ptr)) else v
            s.set(name, v, declare=True)
            outs.append(s)
        return outs

    def copy_value(self, st, v, t):
        """Initialisation of a non-reference variable copies vectors / nodes."""
        tc = type_class(t)
        if isinstance(v, ElemRef):
            return self.load(st, v)
        if isinstance(v, Ptr) and v.oid is not None and tc in ('nodevec', 'intvec', 'objvec', 'pairvec'):
            return Ptr(st.alloc(st.heap[v.oid]))
        return v

    def default_value(self, st, t, name):
        tc = type_class(t)
        if tc == 'node':
            return NodeVal.default()
        if tc in ('int', 'kind'):
            return fresh(f'uninit_{name}', Int)
        if tc == 'bool':
            return fresh(f'uninit_{name}', Bool)
        if tc == 'py':
            return PyObj(NULL)
        if tc == 'regptr':
            return NULL
        if tc == 'str':
            return EMPTY
        if tc == 'oss':
            return Opaque('oss')
        if tc == 'nodevec':
            return Ptr(st.alloc(NodeVec.empty(name)))
        if tc == 'intvec':
            return Ptr(st.alloc(ScalarVec.empty(name, Int)))
        if tc == 'objvec':
            return Ptr(st.alloc(ScalarVec.empty(name, Ref)))
        return Opaque('default:' + t)

    def s_ReturnStmt(self, n, st):
        if not n.c:
            return [(st, ('return', None))]
        outs = []
        for s, v in self.ev(n.c[0], st):
            hook = getattr(self.cur_contract, 'at_return', None)
            if hook is not None and self.inline_depth == 0:
                # postconditions about locals are checked at the return statement, before the scopes are unwound
                for name, e in hook(Ctx(self, s, entry=self.fn_entry), v):
                    self.oblige(s, 'III', f'post:{name}', e, n.get('line'))
            outs.append((s, ('return', self.load(s, v) if isinstance(v, ElemRef) and not self.ret_is_ref else v)))
        return outs

    ret_is_ref = False

    def s_BreakStmt(self, n, st):
        return [(st, ('break',))]

    def s_ContinueStmt(self, n, st):
        return [(st, ('continue',))]

    def s_IfStmt(self, n, st):
        kids = list(n.c)
        if n.get('hasInit'):
            # `if (init; cond)`: the init statement runs first, its declarations are in scope for both branches
            init = kids.pop(0)
            outs = []
            st.push()
            for s, o in self.ex(init, st):
                if o is not NORMAL:
                    outs.append((s, o))
                    continue
                for s2, o2 in self.if_core(n, kids, s):
                    s2.pop() if o2 is NORMAL else None
                    outs.append((s2, o2))
            return outs
        return self.if_core(n, kids, st)

    def if_core(self, n, kids, st):
        kids = list(kids)
        if n.get('hasVar'):
            var = kids.pop(0)
            # `if (T x = expr)`: declare then test x
            outs = []
            for s in self.declare(var.c[0] if var.k == 'DeclStmt' else var, st):
                cond = as_bool(s.get((var.c[0] if var.k == 'DeclStmt' else var).name))
                outs += self.branch(s, cond, kids[1], kids[2] if len(kids) > 2 else None)
            return outs
        cond_n, then_n = kids[0], kids[1]
        else_n = kids[2] if len(kids) > 2 else None
        outs = []
        for s, c in self.ev(cond_n, st):
            outs += self.branch(s, as_bool(self.load(s, c)), then_n, else_n)
        return outs

    def relational_check(self, st, cond, what, line=0):
        rel = getattr(self.cur_contract, 'relational', None)
        if rel is not None and self.inline_depth >= 0:
            rel(self, st, cond, what, line)

    def branch(self, st, cond, then_n, else_n):
        cond = z3.simplify(cond)
        if not (z3.is_true(cond) or z3.is_false(cond)):
            self.relational_check(st, cond, 'branch')
        outs = []
        if z3.is_true(cond):
            return self.ex(then_n, st)
        if z3.is_false(cond):
            return self.ex(else_n, st) if else_n is not None else [(st, NORMAL)]
        st_f = st.clone()
        self.assume(st, cond)
        self.assume(st_f, z3.Not(cond))
        if self.feasible(st):
            outs += self.ex(then_n, st)
        if self.feasible(st_f):
            outs += self.ex(else_n, st_f) if else_n is not None else [(st_f, NORMAL)]
        return outs

    def s_SwitchStmt(self, n, st):
        cond_n, body = n.c[0], n.c[1]
        outs = []
        for s, v in self.ev(cond_n, st):
            v = as_int(self.load(s, v))
            # flatten the body into labelled statement list
            stmts = []      # (labels or None, stmt)
            def flat(x, labels):
                if x.k == 'CaseStmt':
                    val = self.case_value(x.c[0])
                    flat(x.c[-1], labels + [val])
                elif x.k == 'DefaultStmt':
                    flat(x.c[-1], labels + ['default'])
                else:
                    stmts.append((labels, x))
            for x in body.c:
                flat(x, [])
            all_vals = [l for labs, _ in stmts for l in labs if not isinstance(l, str)]
            # entry points
            entries = []
            for idx, (labs, _) in enumerate(stmts):
                if labs:
                    conds = []
                    for l in labs:
                        if isinstance(l, str):
                            conds.append(z3.And(*[v != x for x in all_vals]) if all_vals else z3.BoolVal(True))
                        else:
                            conds.append(v == l)
                    entries.append((idx, z3.Or(*conds)))
            self.relational_check(s, v, 'switch')
            for idx, c in entries:
                s2 = s.clone()
                self.assume(s2, c)
                if not self.feasible(s2):
                    continue
                s2.push()
                res = self.ex_block([x for _, x in stmts[idx:]], s2)
                for s3, o in res:
                    s3.pop()
                    if o == ('break',):
                        o = NORMAL
                    outs.append((s3, o))
            # no matching label and no default: falls out
            if not any(any(isinstance(l, str) for l in labs) for labs, _ in stmts) and all_vals:
                s2 = s.clone()
                self.assume(s2, z3.And(*[v != x for x in all_vals]))
                if self.feasible(s2):
                    outs.append((s2, NORMAL))
        return outs

    def case_value(self, n: N):
        for d in self.walk(n):
            if d.k == 'DeclRefExpr' and d.get('refk') == 'EnumConstantDecl':
                return z3.IntVal(KIND[d.name])
            if d.k == 'IntegerLiteral':
                return z3.IntVal(int(d['v']))
        raise Unsupported('case label')

    # loops ----------------------------------------------------------------------------------------
    def loop_spec(self, n: N):
        # loop ordinal = pre-order position of the loop statement in its function body (stable under path forking)
        k = self.loop_ids.get(id(n))
        if k is None:
            raise Unsupported('loop outside the indexed function body')
        loops = getattr(self.cur_contract, 'loops', {}) if self.inline_depth == 0 else \
            getattr(self.inline_contract, 'loops', {}) if getattr(self, 'inline_contract', None) else {}
        spec = loops.get(k)
        return k, spec

    def s_ForStmt(self, n, st):
        init, condvar, cond, inc, body = (n.c + [None] * 5)[:5] if len(n.c) == 5 else self.for_parts(n)
        st.push()
        cur = [st]
        if init is not None and init.k != 'NullStmt':
            cur = [s for s, o in self.ex(init, st)]
        outs = []
        for s in cur:
            outs += self.run_loop(n, s, cond, inc, body)
        res = []
        for s, o in outs:
            s.pop()
            res.append((s, o))
        return res

    def for_parts(self, n):
        # clang JSON omits absent parts as {} which reduce() drops; recover by kinds
        kids = list(n.c)
        body = kids.pop()
        init = kids.pop(0) if kids and kids[0].k in ('DeclStmt', 'NullStmt') or (kids and not self.is_cond(kids[0])) else None
        cond = kids.pop(0) if kids else None
        inc = kids.pop(0) if kids else None
        return init, None, cond, inc, body

    def is_cond(self, x):
        return 'bool' in x.t

    def s_WhileStmt(self, n, st):
        cond, body = n.c[0], n.c[-1]
        return self.run_loop(n, st, cond, None, body)

    def s_CXXForRangeStmt(self, n, st):
        # children: [init?] range decl, begin decl, end decl, cond, inc, loopvar decl, body
        kids = list(n.c)
        body = kids[-1]
        loopvar = kids[-2]
        range_decl = next(c for c in kids if c.k == 'DeclStmt' and c.c and c.c[0].name.startswith('__range'))
        rng_init = [c for c in range_decl.c[0].c][0]
        if rng_init.k in ('CXXStdInitializerListExpr', 'InitListExpr'):
            return self.run_initlist_loop(n, st, rng_init, loopvar, body)
        outs = []
        for s, rng in self.ev(rng_init, st):
            s.push()
            res = self.run_range_loop(n, s, rng, loopvar, body)
            for s2, o in res:
                s2.pop()
                outs.append((s2, o))
        return outs

    def run_initlist_loop(self, n, st, rng_init, loopvar, body):
        """`for (T x : {e0, .., ek})`: the list is a literal, so the loop is unrolled exactly (no invariant, no bound)."""
        lst = rng_init if rng_init.k == 'InitListExpr' else next(c for c in rng_init.c if c.k == 'InitListExpr')
        vd = loopvar.c[0]
        cur, done = [st], []
        for elem_n in lst.c:
            nxt = []
            for s in cur:
                for s1, v in self.ev(elem_n, s):
                    s1.push()
                    s1.set(vd.name, v, declare=True)
                    for s2, o in self.ex(body, s1):
                        s2.pop()
                        if o is NORMAL or o == ('continue',):
                            nxt.append(s2)
                        elif o == ('break',):
                            done.append((s2, NORMAL))
                        else:
                            done.append((s2, o))
            cur = nxt
        return [(s, NORMAL) for s in cur] + done

    def run_range_loop(self, n, st, rng, loopvar, body):
        vd = loopvar.c[0]
        k, spec = self.loop_spec(n)
        if spec is None:
            raise Unsupported(f'range loop #{k} at L{n.get("line")} in {self.fn} has no invariant in the sidecar'
                              + (' (new or rewritten loop)' if k == -1 else ''))
        idx_name = getattr(spec, 'index', None) or f'{vd.name}__idx'
        if isinstance(rng, Ptr) and isinstance(st.heap.get(rng.oid), ScalarVec) and st.heap[rng.oid].name.startswith('specvec:'):
            length = lambda s: s.heap[rng.oid].len

            def elem(s, i):
                ref = z3.Select(s.heap[rng.oid].arr, i)
                return Ptr(s.alloc(SpecObj(s.alloc(M.ext_spec_vec(ref)), M.ext_spec_nil(ref), M.ext_spec_ns(ref))))
        elif isinstance(rng, Ptr) and isinstance(st.heap.get(rng.oid), (NodeVec, ScalarVec)):
            length = lambda s: s.heap[rng.oid].len
            elem = lambda s, i: ElemRef(rng.oid, i)
        elif isinstance(rng, PyObj):
            # iteration over a Python sequence/iterable: abstract length fixed at loop entry (fresh list) or havocked
            seq_len = spec.seq_len(self, st, rng) if hasattr(spec, 'seq_len') else M.py_len(rng.ref)
            length = lambda s: seq_len
            elem = lambda s, i: PyObj(M.py_item(rng.ref, i))
        else:
            raise Unsupported(f'range-for over {rng!r}')
        st.set(idx_name, z3.IntVal(0), declare=True)

        def cond(s):
            return s.get(idx_name) < length(s)

        def bind(s):
            s.set(vd.name, elem(s, s.get(idx_name)), declare=True)

        def inc(s):
            s.set(idx_name, s.get(idx_name) + 1)
            return [s]
        return self.loop_core(n, k, spec, st, cond, bind, inc, body, extra_modified={idx_name})

    def run_loop(self, n, st, cond_n, inc_n, body):
        k, spec = self.loop_spec(n)
        if spec is None:
            raise Unsupported(f'loop #{k} at L{n.get("line")} in {self.fn} has no invariant in the sidecar'
                              + (' (new or rewritten loop)' if k == -1 else ''))

        def cond(s):
            if cond_n is None:
                return z3.BoolVal(True)
            (s2, c), = self.ev(cond_n, s)
            return as_bool(c)

        def inc(s):
            if inc_n is None:
                return [s]
            return [s2 for s2, _ in self.ev(inc_n, s)]
        return self.loop_core(n, k, spec, st, cond, lambda s: None, inc, body,
                              cond_nodes=[x for x in (cond_n, inc_n) if x is not None])

    def loop_core(self, n, k, spec, st, cond, bind, inc, body, extra_modified=(), cond_nodes=()):
        line = n.get('line')
        # contracts see the *function* entry state as `entry` (old values of parameters and of the heap)
        entry = self.fn_entry if getattr(self, 'fn_entry', None) is not None and self.inline_depth == 0 else st.clone()
        # 1. invariant holds on entry
        for name, e in spec.inv(Ctx(self, st, entry=entry)):
            self.oblige(st, 'III', f'loop{k}:inv-init:{name}', e, line)
        # 2. havoc everything the loop may modify
        mod_vars, mod_heap = self.modified(body, st, cond_nodes)
        mod_vars |= set(extra_modified)
        for extra in getattr(spec, 'modifies', ()):
            mod_vars.add(extra)
        hst = st.clone()
        self.havoc(hst, mod_vars, mod_heap, k)
        for gname in getattr(spec, 'ghost_modifies', ()):
            gv = hst.ghost.get(gname)
            if is_z3(gv):
                hst.ghost[gname] = z3.Const(f'ghost:{gname}@L{k}!{next(M._counter)}', gv.sort())
        for name, e in spec.inv(Ctx(self, hst, entry=entry)):
            hst.facts.append(e)
        # arithmetic hints: valid identities (proved on their own, with no hypotheses) that the solver will not find
        if hasattr(spec, 'hints'):
            for h in spec.hints(Ctx(self, hst, entry=entry)):
                name, e = h[0], h[1]
                # proved in the loop-head context (instances of axioms), or - for pure arithmetic identities - with no
                # hypotheses at all (a small quantifier-free query); then used as a fact
                if len(h) > 2 and h[2] == 'instance':
                    hst.facts.append(e)        # forall-elimination instance of an asserted axiom (WFView.inst)
                    continue
                if len(h) > 2 and h[2] == 'mul':
                    # arithmetic identity about abstract products: proved for real multiplication, assumed for `mul`
                    real = z3.substitute_funs(e, (M.mul, z3.Var(0, Int) * z3.Var(1, Int)))
                    self.oblige(State(), 'L', f'loop{k}:lemma:{name}', real, line, _split=False)
                    hst.facts.append(e)
                    continue
                self.oblige(State() if len(h) > 2 and h[2] == 'pure' else hst, 'L', f'loop{k}:lemma:{name}', e, line,
                            _split=False)
                hst.facts.append(e)
        # 3. an arbitrary iteration
        it = hst.clone()
        c = cond(it)
        self.relational_check(it, c, f'loop{k}-condition', line)
        self.assume(it, c)
        outs = []
        if self.feasible(it):
            it.push()
            bind(it)
            pre_iter = it.clone()
            res = self.ex(body, it)
            for s, o in res:
                s.pop() if o is NORMAL or o == ('continue',) or o == ('break',) else None
                if o is NORMAL or o == ('continue',):
                    if hasattr(spec, 'body_post'):
                        for name, e in spec.body_post(Ctx(self, s, entry=entry, pre=pre_iter)):
                            self.oblige(s, 'III', f'loop{k}:iteration:{name}', e, line)
                    for s2 in inc(s):
                        for name, e in spec.inv(Ctx(self, s2, entry=entry)):
                            self.oblige(s2, 'III', f'loop{k}:inv-preserved:{name}', e, line)
                        if hasattr(spec, 'decreases'):
                            before = spec.decreases(Ctx(self, pre_iter, entry=entry))
                            after = spec.decreases(Ctx(self, s2, entry=entry))
                            self.oblige(s2, 'III', f'loop{k}:terminates', z3.And(after < before, before >= 0), line)
                elif o == ('break',):
                    if hasattr(spec, 'break_post'):
                        for name, e in spec.break_post(Ctx(self, s, entry=entry, pre=pre_iter)):
                            self.oblige(s, 'III', f'loop{k}:break:{name}', e, line)
                    outs.append((s, NORMAL))
                else:
                    outs.append((s, o))      # return / throw out of the loop
        # 4. exit: invariant and negated condition
        ex_st = hst
        self.assume(ex_st, z3.Not(cond(ex_st)))
        if self.feasible(ex_st):
            outs.append((ex_st, NORMAL))
        return outs

    def modified(self, body: N, st: State, cond_nodes=()):
        """Syntactic over-approximation of the variables / heap objects written by a loop body."""
        vars_, heaps = set(), set()
        MUT = {'emplace_back', 'push_back', 'pop_back', 'resize', 'clear', 'insert', 'erase', 'emplace', 'reserve',
               'shrink_to_fit', 'swap'}

        def root_name(x):
            while True:
                if x.k == 'CXXThisExpr':
                    return 'this'
                if x.k == 'DeclRefExpr':
                    return x.name
                if x.k in ('MemberExpr', 'UnaryOperator', 'ArraySubscriptExpr', 'CXXMemberCallExpr',
                           'CXXStaticCastExpr') and x.c:
                    x = x.c[0]
                elif x.k == 'CXXOperatorCallExpr' and len(x.c) > 1:
                    x = x.c[1]
                else:
                    return None

        def mark(x):
            r = root_name(x)
            if r is not None:
                vars_.add(r)

        def visit(x, seen_lams):
            if x.k in ('BinaryOperator',) and x.get('op') == '=':
                mark(x.c[0])
            if x.k == 'CompoundAssignOperator':
                mark(x.c[0])
            if x.k == 'UnaryOperator' and x.get('op') in ('++', '--'):
                mark(x.c[0])
            if x.k == 'CXXOperatorCallExpr' and x.c[0].name in ('operator=', 'operator+=', 'operator-=', 'operator++',
                                                                'operator--', 'operator|=', 'operator&=', 'operator<<'):
                mark(x.c[1])
            if x.k == 'CXXMemberCallExpr' and x.c and x.c[0].k == 'MemberExpr' and x.c[0].name in MUT:
                mark(x.c[0].c[0])
            if x.k in ('CXXDependentScopeMemberExpr',) and x.name in MUT:
                mark(x.c[0])
            if x.k == 'CallExpr' and x.c and x.c[0].k == 'DeclRefExpr':
                fname = x.c[0].name
                if fname in ('copy', 'reverse', 'TotalOrderSort'):
                    for a in (x.c[3:4] if fname == 'copy' else x.c[1:]):
                        for d in self.walk(a):
                            if d.k in ('DeclRefExpr',) and d.get('refk') in ('VarDecl', 'ParmVarDecl'):
                                vars_.add(d.name)
                            if d.k == 'CXXThisExpr':
                                vars_.add('this')
                # arguments passed by non-const reference to in-repo functions
                cn = self.contract_for_callee(fname)
                for pn in getattr(cn, 'writes_args', ()):
                    if pn + 1 < len(x.c):
                        mark(x.c[pn + 1])
            if x.k == 'CallExpr' and x.c and x.c[0].k in ('UnresolvedMemberExpr', 'MemberExpr', 'CXXDependentScopeMemberExpr'):
                cn = self.contract_for_callee(x.c[0].name or '')
                if cn is not None:
                    for pn in getattr(cn, 'writes_args', ()):
                        if pn + 1 < len(x.c):
                            mark(x.c[pn + 1])
                    if getattr(cn, 'writes_this', False) and not x.c[0].c:
                        vars_.add('this')
            if x.k in ('CallExpr', 'CXXOperatorCallExpr') and x.c:
                callee = x.c[0] if x.k == 'CallExpr' else (x.c[1] if len(x.c) > 1 else None)
                if callee is not None and callee.k == 'DeclRefExpr' and st.scope.lookup(callee.name) is not None:
                    v = st.get(callee.name)
                    if isinstance(v, Lam) and id(v.node) not in seen_lams:
                        visit(v.node, seen_lams | {id(v.node)})
            if x.k == 'DeclStmt':
                pass
            for c in x.c:
                visit(c, seen_lams)

        visit(body, frozenset())
        for cn in cond_nodes:
            visit(cn, frozenset())
        # variables declared inside the body are not loop state
        declared = {d.name for d in self.walk(body) if d.k in ('VarDecl', 'BindingDecl')}
        vars_ -= {v for v in declared if st.scope.lookup(v) is None}
        return vars_, heaps

    def havoc(self, st: State, names: set, heaps: set, k: int):
        def havoc_value(v, name):
            if isinstance(v, Ptr) and v.oid is not None:
                self.havoc_obj(st, v.oid, name, k)
                return v
            if isinstance(v, NodeVal):
                return NodeVal.symbolic(f'{name}@L{k}')
            if isinstance(v, PyObj):
                return PyObj(fresh(f'{name}@L{k}', Ref))
            if isinstance(v, Iter):
                return replace(v, pos=fresh(f'{name}.pos@L{k}', Int))
            if isinstance(v, PySeqIter):
                return PySeqIter(v.ref, fresh(f'{name}.pos@L{k}', Int))
            if is_z3(v):
                return fresh(f'{name}@L{k}', v.sort())
            if isinstance(v, Opaque):
                return v
            if isinstance(v, ElemRef):
                return v
            if isinstance(v, Tup):
                return Tup(tuple(havoc_value(x, f'{name}.{i}') for i, x in enumerate(v.items)))
            raise Unsupported(f'havoc of {name}={v!r}')
        items = dict(st.ghost.get('items', {}))
        for key, (ref, arr) in list(items.items()):
            items[key] = (ref, z3.Array(f'items@L{k}!{next(M._counter)}', Int, Ref))
        st.ghost['items'] = items
        for name in sorted(names):
            if name == 'this':
                if st.this is not None:
                    self.havoc_obj(st, st.this.oid, 'this', k)
                continue
            sc = st.scope.lookup(name)
            if sc is None:
                continue
            v = sc.vars[name]
            if isinstance(v, ElemRef):
                # reference to a vector element: the vector is modified
                self.havoc_obj(st, v.oid, name, k)
                continue
            sc.vars[name] = havoc_value(v, name)

    def havoc_obj(self, st: State, oid: int, name: str, k: int):
        obj = st.heap[oid]
        if isinstance(obj, NodeVec):
            st.heap[oid] = NodeVec.symbolic(f'{obj.name or name}@L{k}!{next(M._counter)}')
            st.pc.append(st.heap[oid].len >= 0)
        elif isinstance(obj, ScalarVec):
            st.heap[oid] = ScalarVec.symbolic(f'{obj.name or name}@L{k}!{next(M._counter)}', obj.sort)
            st.pc.append(st.heap[oid].len >= 0)
        elif isinstance(obj, PairVec):
            tag = f'{name}@L{k}!{next(M._counter)}'
            st.heap[oid] = PairVec(z3.Int(tag + '.len'), z3.Array(tag + '.a', Int, obj.a.sort().range()),
                                   z3.Array(tag + '.b', Int, obj.b.sort().range()))
            st.pc.append(st.heap[oid].len >= 0)
        elif isinstance(obj, SpecObj):
            self.havoc_obj(st, obj.trav, name + '.trav', k)
            st.heap[oid] = SpecObj(obj.trav, fresh(f'{name}.nil@L{k}', Bool), fresh(f'{name}.ns@L{k}', Str))
        elif isinstance(obj, PtrVec):
            st.heap[oid] = PtrVec(obj.len, ())
        elif isinstance(obj, dict):
            # plain record (e.g. the PyTreeIter object): its containers are modified, its const members are not
            for fname, v in obj.items():
                if isinstance(v, Ptr) and v.oid is not None:
                    self.havoc_obj(st, v.oid, f'{name}.{fname}', k)
        else:
            raise Unsupported(f'havoc_obj {obj!r}')

    # try / catch -----------------------------------------------------------------------------------
    def s_CXXTryStmt(self, n, st):
        body, handlers = n.c[0], n.c[1:]
        saved = self.exc
        self.exc = []
        outs = self.ex(body, st)
        thrown = self.exc
        self.exc = saved
        for s, o in thrown:
            handled = False
            for h in handlers:
                # catch (py::error_already_set& ex) / catch (...)
                decl = h.c[0] if len(h.c) > 1 else None
                body_h = h.c[-1]
                tname = decl.t.replace('&', '').strip() if decl is not None else '...'
                cls = o[1]
                if tname == '...' or tname.split('::')[-1] in cls:
                    s.push()
                    if decl is not None and decl.k == 'VarDecl':
                        s.set(decl.name, Opaque('exc:' + cls), declare=True)
                    s.ghost['caught'] = o
                    for s2, o2 in self.ex(body_h, s):
                        s2.pop() if o2 is NORMAL else None
                        outs.append((s2, o2))
                    # rethrows inside the handler were appended to self.exc by e_CXXThrowExpr / models
                    handled = True
                    break
            if not handled:
                self.exc.append((s, o))
        return outs

    # calls ----------------------------------------------------------------------------------------
    def contract_for_callee(self, name: str):
        for q, c in self.contracts.items():
            if q.split('::')[-1] == name:
                return c
        return None

    def e_CallExpr(self, n, st):
        from . import calls
        return calls.call(self, n, st)

    def e_CXXMemberCallExpr(self, n, st):
        from . import calls
        return calls.member_call(self, n, st)

    def e_CXXOperatorCallExpr(self, n, st):
        from . import calls
        return calls.operator_call(self, n, st)

    def e_CXXConstructExpr(self, n, st):
        from . import calls
        return calls.construct(self, n, st)

    e_CXXTemporaryObjectExpr = e_CXXConstructExpr

    def e_CXXDependentScopeMemberExpr(self, n, st):
        outs = []
        for s, base in self.ev(n.c[0], st):
            outs.append((s, Bound(base, n.name, n)))
        return outs

    def e_UnresolvedLookupExpr(self, n, st):
        return [(st, Func(n.name or (n.get('lookups') or [''])[0], n))]

    def e_UnresolvedMemberExpr(self, n, st):
        base = st.this
        return [(st, Bound(base, n.name or (n.get('lookups') or [''])[0], n))]

    def e_CXXUnresolvedConstructExpr(self, n, st):
        from . import calls
        return calls.construct(self, n, st)

    def e_ParenListExpr(self, n, st):
        return self.ev(n.c[-1], st)

    def e_CXXScalarValueInitExpr(self, n, st):
        return [(st, z3.IntVal(0))]

    def e_DesignatedInitExpr(self, n, st):
        return self.ev(n.c[-1], st)

    def e_CXXNoexceptExpr(self, n, st):
        return [(st, z3.BoolVal(True))]

    def loop_nodes(self, fn: N):
        """Loop statements of a function in pre-order; records for each the `case` labels it is nested in (loop_ctx)."""
        out = []
        self.loop_ctx = getattr(self, 'loop_ctx', {})

        def rec(d, labels):
            if d.k == 'CaseStmt' and d.c:
                labels = labels + tuple(x.name for x in self.walk(d.c[0]) if x.k == 'DeclRefExpr' and x.name)
            is_loop = d.k in ('ForStmt', 'WhileStmt', 'CXXForRangeStmt', 'DoStmt')
            if d.k == 'DoStmt':
                # the macro idiom `do { ... } while (0)` is not a loop
                lit = [x for x in self.walk(d.c[1])] if len(d.c) > 1 else []
                if any(x.k == 'IntegerLiteral' and str(x.get('v')) == '0' for x in lit) and len(lit) <= 2:
                    is_loop = False
            if is_loop:
                out.append(d)
                self.loop_ctx[id(d)] = labels
            for c in d.c:
                rec(c, labels)

        rec(fn, ())
        return out

    def loop_fingerprint(self, d: N) -> str:
        """What identifies a loop for its sidecar specification: statement kind, loop variable(s), names used in its header."""
        kids = list(d.c)
        head = kids[:-1] if d.k != 'DoStmt' else kids[1:]
        if d.k == 'CXXForRangeStmt':
            head = [c for c in kids[:-1] if not (c.k == 'DeclStmt' and c.c and c.c[0].name.startswith(('__begin', '__end')))][:2] + [kids[-2]]
        names = []
        for h in head:
            for x in self.walk(h):
                if x.k in ('VarDecl', 'DeclRefExpr', 'MemberExpr') and x.name and not x.name.startswith('__') \
                        and not x.name.startswith('operator'):
                    names.append(x.name)
        ctx = getattr(self, 'loop_ctx', {}).get(id(d), ())
        return d.k + ':' + ','.join(dict.fromkeys(names)) + ('@' + '/'.join(ctx) if ctx else '')

    def index_loops(self, fn: N):
        """Loop specifications are keyed by the ordinal the loop had on the baseline tree.  When the loops of the function
        differ from the baseline (ocv/loops.json), loops are aligned by fingerprint; an unmatched (new or rewritten) loop has no
        specification, and a baseline loop that is gone is reported as contract drift by the ledger."""
        self.loop_ids = getattr(self, 'loop_ids', {})
        nodes = self.loop_nodes(fn)
        cur = [self.loop_fingerprint(d) for d in nodes]
        q = next((k for k, v in self.prog.functions.items() if v is fn), None)
        base = BASE_LOOPS.get(q) if q is not None else None
        if base is None or base == cur:
            for k, d in enumerate(nodes):
                self.loop_ids[id(d)] = k
            return
        import difflib
        sm = difflib.SequenceMatcher(a=base, b=cur, autojunk=False)
        for d in nodes:
            self.loop_ids[id(d)] = -1            # no specification
        reduced = lambda fp: fp.split(':', 1)[0] + ('@' + fp.split('@', 1)[1] if '@' in fp else '')
        for tag, i1, i2, j1, j2 in sm.get_opcodes():
            if tag == 'equal':
                for off in range(i2 - i1):
                    self.loop_ids[id(nodes[j1 + off])] = i1 + off
            elif tag == 'replace' and i2 - i1 == j2 - j1 and all(reduced(base[i1 + o]) == reduced(cur[j1 + o]) for o in range(i2 - i1)):
                # same number of loops of the same statement kinds in the same `case` context, only names in the headers
                # differ (renamed variable, helper call in the bound): the same loops
                for off in range(i2 - i1):
                    self.loop_ids[id(nodes[j1 + off])] = i1 + off

    # function execution ------------------------------------------------------------------------------
    def run(self, qname: str, contract, label: str = '') -> list[VC]:
        fn = self.prog.functions[qname]
        self.cur_tu = fn.get('tu')
        self.template_env = dict(getattr(contract, 'template_instance', {}) or {})
        self.index_loops(fn)
        self.fn = qname + label
        self.cur_contract = contract
        self.loop_ordinal = 0
        self.exc = []
        st = State()
        cx = contract.setup(self, st, fn)          # binds parameters / this, asserts preconditions as facts
        entry = st.clone()
        self.fn_entry = entry
        body = next(c for c in fn.c if c.k == 'CompoundStmt')
        self.ret_is_ref = fn.t.split('(')[0].strip().endswith('&')
        outs = self.ex(body, st)
        outs += self.exc
        self.exc = []
        normal = 0
        for s, o in outs:
            if s.ghost.get('newrefs') or any('new reference' in w for w, _ in s.ghost['trace']):
                # raw C-API calls that return a NEW reference (PySequence_List, PyDict_Keys, ...): the reference must have
                # been handed to an owning pybind11 object (reinterpret_steal) or released (Py_DECREF) on EVERY exit (C14/C15)
                left = s.ghost.get('newrefs', ())
                self.oblige(s, 'IV', 'every-new-reference-is-released-or-handed-to-an-owner-on-every-exit',
                            z3.BoolVal(len(left) == 0), fn.get('line'),
                            note=('still owned: ' + ', '.join(str(x) for x in left)) if left else '')
            if o is NORMAL or o[0] == 'return':
                normal += 1
                ret = o[1] if o is not NORMAL else None
                # tuples/lists built by this activation: their observable items are the final ghost item arrays
                jq = z3.Int('j!items')
                for key, (ref, arr) in s.ghost.get('items', {}).items():
                    s.facts.append(z3.ForAll([jq], M.py_item(ref, jq) == z3.Select(arr, jq), patterns=[M.py_item(ref, jq)]))
                for name, e in contract.post(Ctx(self, s, entry=entry), ret):
                    self.oblige(s, 'III', f'post:{name}', e, fn.get('line'))
                for name, e in contract.frame(Ctx(self, s, entry=entry), ret):
                    self.oblige(s, 'IV', f'frame:{name}', e, fn.get('line'))
            elif o[0] == 'throw':
                allowed = contract.raises(Ctx(self, s, entry=entry))
                cls = o[1]
                key = next((a for a in allowed if a in cls or cls in a), None)
                if cls == 'optree::InternalError':
                    continue   # already an obligation of class I at the throw site
                if key is None:
                    self.oblige(s, 'III', f'raises-only-documented:{cls.split("::")[-1]}', z3.BoolVal(False), o[3],
                                note=f'undocumented exception class {cls}')
                else:
                    cond = allowed[key]
                    if cond is not None:
                        self.oblige(s, 'III', f'raises:{key.split("::")[-1]}-only-when', cond, o[3])
                for name, e in contract.frame_exc(Ctx(self, s, entry=entry)):
                    self.oblige(s, 'IV', f'frame-on-exception:{name}', e, fn.get('line'))
            else:
                raise Unsupported(f'function ended with outcome {o}')
        # cover: the normal exit is reachable (guards against vacuous preconditions)
        self.covers.append((qname + label, normal))
        return self.vcs


class Ctx:
    """What a contract sees: the current state, the entry state, variables by name."""

    def __init__(self, eng: Engine, st: State, entry: State | None = None, pre: State | None = None):
        self.eng, self.st, self.entry, self.pre = eng, st, entry or st, pre

    def var(self, name):
        return self.st.get(name)

    def old(self, name):
        return self.entry.get(name)

    def obj(self, v, st=None):
        st = st or self.st
        if isinstance(v, Ptr):
            return st.heap[v.oid]
        raise Unsupported(f'obj({v!r})')

    def vec(self, v, st=None) -> NodeVec:
        st = st or self.st
        o = self.obj(v, st)
        if isinstance(o, SpecObj):
            o = st.heap[o.trav]
        return o

    def this_vec(self, st=None) -> NodeVec:
        st = st or self.st
        return self.vec(st.this, st)

    def items(self, obj, st=None):
        """Item array of a Python tuple/list that is being built by the engine (ghost)."""
        st = st or self.st
        ref = obj.ref if isinstance(obj, PyObj) else obj
        return st.ghost.get('items', {}).get(ref.sexpr(), (ref, None))[1]

    def this_spec(self, st=None) -> SpecObj:
        st = st or self.st
        return st.heap[st.this.oid]
