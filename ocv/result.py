"""Shared result records of the checking machinery."""
from __future__ import annotations

import dataclasses
import json
from dataclasses import dataclass, field
from typing import Any


@dataclass
class Obligation:
    """One proof obligation generated from the current source of one function."""
    id: str                 # stable name: <function>::<class>::<role/message>[#k]
    function: str           # qualified name of the function under contract
    cls: str                # I assertion | II safety | III post | IV frame/effect | L lemma | COVER | X cross-check
    status: str             # discharged | failed | unknown | error
    backend: str = ''       # z3 | cvc5 | syntactic | ...
    time_s: float = 0.0
    detail: str = ''        # counter-model / solver output / reason
    model: dict = field(default_factory=dict)   # concretised counterexample values (if any)
    source: str = ''        # file:line of the site (informational, not part of the id)

    def to_json(self) -> dict:
        return dataclasses.asdict(self)


@dataclass
class Finding:
    """A violation observed natively (bounded monitor or replay of a counter-model)."""
    key: str                # stable id of the violated contract clause, e.g. C06.eq_implies_hash
    what: str               # human description incl. the concrete failing input
    script: str = ''        # self-contained python replay script (exit 1 when the violation reproduces)
    data: dict = field(default_factory=dict)

    def to_json(self) -> dict:
        return dataclasses.asdict(self)


@dataclass
class BoundedReport:
    name: str
    evaluations: int = 0
    distinct_nontrivial: int = 0
    rule: str = ''
    scope: str = ''
    exhaustive: bool = False
    samples: list = field(default_factory=list)
    findings: list = field(default_factory=list)     # list[Finding]
    wall_s: float = 0.0
    notes: str = ''

    def to_json(self) -> dict:
        d = dataclasses.asdict(self)
        return d

    @staticmethod
    def from_json(d: dict) -> 'BoundedReport':
        fs = [Finding(**f) for f in d.get('findings', [])]
        d = dict(d)
        d['findings'] = fs
        return BoundedReport(**d)


def jdump(obj: Any, path: str) -> None:
    with open(path, 'w') as f:
        json.dump(obj, f, indent=1, sort_keys=False, default=str)
        f.write('\n')
