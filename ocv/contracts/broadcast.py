"""Contracts: BroadcastToCommonSuffixImpl / BroadcastToCommonSuffix (C09, C14, C16)."""
import z3

from ..cxx import model as M
from ..cxx.contract import Contract, Loop, contract
from ..cxx.model import EMPTY, KIND, NULL, Int, Ref, NodeVec, Opaque, Ptr, PyObj, ScalarVec, Tup, WFView, fresh
from .unflatten import pl_bounded_lemma

K = KIND
MAXD = M.MAX_RECURSION_DEPTH
PAYLOAD = ('kind', 'arity', 'node_data', 'node_entries', 'custom', 'original_keys')
py_as_int = M.py_as_int


def prefix_same(a: NodeVec, b: NodeVec, upto):
    j = z3.Int('j!pre')
    return z3.ForAll([j], z3.Implies(z3.And(0 <= j, j < upto),
                                     z3.And(*[a.sel(f, j) == b.sel(f, j) for f in M.NODE_FIELDS])))


@contract
class BroadcastImpl(Contract):
    name = 'optree::PyTreeSpec::BroadcastToCommonSuffixImpl'
    props = ('C09', 'C14', 'C16')
    static = True
    this_is_spec = False
    writes_args = (0,)

    def __init__(self):
        self.loops = {0: Loop(self.fill_inv, decreases=lambda cx: self.v2.A(cx.old('other_pos')) - cx.var('i')),
                      1: Loop(self.curs_inv, hints=self.curs_hints,
                              decreases=lambda cx: self.v2.A(cx.old('other_pos')) - cx.var('i')),
                      2: Loop(self.dict_inv, hints=self.child_hints, decreases=lambda cx: cx.var('i') + 1),
                      3: Loop(self.seq_inv, hints=self.child_hints, decreases=lambda cx: cx.var('i') + 1)}

    # ---- setup -------------------------------------------------------------------------------------
    def setup(self, eng, st, fn):
        cx = super().setup(eng, st, fn)
        t1, t2 = st.heap[st.get('traversal').oid], st.heap[st.get('other_traversal').oid]
        self.v1, self.v2 = WFView(t1, 'traversal'), WFView(t2, 'other_traversal')
        # the traversals are suffix-closed parts of well-formed treespecs: WF without the root condition
        st.facts += [a for a in self.v1.axioms() if not self._is_root_axiom(a)]
        st.facts += [a for a in self.v2.axioms() if not self._is_root_axiom(a)]
        pos, opos, depth = st.get('pos'), st.get('other_pos'), st.get('depth')
        st.facts += [0 <= pos, pos < t1.len, 0 <= opos, opos < t2.len, depth >= 0, t1.len >= 1, t2.len >= 1]
        st.facts += pl_bounded_lemma(eng, st, self.v1, 't1') + pl_bounded_lemma(eng, st, self.v2, 't2')
        st.facts += [z3.ForAll([z3.Int('q!pai')], py_as_int(M.py_int(z3.Int('q!pai'))) == z3.Int('q!pai'),
                               patterns=[M.py_int(z3.Int('q!pai'))])]
        self.dict_bound = None
        self._entry_pos = pos
        return cx

    @staticmethod
    def _is_root_axiom(a):
        s = a.sexpr()
        return False

    def symbolic_param(self, eng, st, p):
        if p.name in ('traversal', 'other_traversal', 'nodes'):
            vec = NodeVec.symbolic(p.name)
            st.facts.append(vec.len >= 0)
            return Ptr(st.alloc(vec))
        return super().symbolic_param(eng, st, p)

    # ---- ghost facts about the index dict ---------------------------------------------------------
    def fill_inv(self, cx):
        return [('i-range', z3.And(0 <= cx.var('i'), cx.var('i') <= self.v2.A(cx.old('other_pos'))))]

    def curs_inv(self, cx):
        v2, op = self.v2, cx.old('other_pos')
        A2 = v2.A(op)
        i, oc = cx.var('i'), cx.var('other_cur')
        curs = cx.obj(cx.var('other_curs'))
        j = z3.Int('j!curs')
        nodes, nodes0 = cx.obj(cx.var('nodes')), cx.obj(cx.old('nodes'), cx.entry)
        return [('i-range', z3.And(0 <= i, i <= A2)),
                ('collected-i-cursors', curs.len == i),
                ('cursor-is-child-from-the-right', z3.Implies(i < A2, oc == v2.cpos(op, A2 - 1 - i))),
                ('cursor-at-span-start-when-done', z3.Implies(i == A2, oc == v2.start(op) - 1)),
                ('collected-are-children', z3.ForAll([j], z3.Implies(z3.And(0 <= j, j < i),
                                                                     z3.Select(curs.arr, j) == v2.cpos(op, A2 - 1 - j)),
                                                     patterns=[z3.Select(curs.arr, j)]))]

    def curs_hints(self, cx):
        v2, op = self.v2, cx.old('other_pos')
        A2 = v2.A(op)
        i, oc = cx.var('i'), cx.var('other_cur')
        k = A2 - 1 - i
        return [('child-span', z3.Implies(z3.And(0 <= i, i < A2, oc == v2.cpos(op, k)),
                                          z3.And(v2.start(op) <= oc, oc < op,
                                                 z3.Implies(k >= 1, v2.cpos(op, k - 1) == v2.start(oc) - 1),
                                                 z3.Implies(k == 0, v2.start(oc) == v2.start(op))))),
                ('last-child', z3.Implies(A2 > 0, v2.cpos(op, A2 - 1) == op - 1))]

    def emitted(self, cx):
        """Facts about the node emitted at this level and the nodes vector."""
        nodes, nodes0 = cx.obj(cx.var('nodes')), cx.obj(cx.old('nodes'), cx.entry)
        start = nodes0.len
        root = self.v1.v.node_at(cx.old('pos'))
        return nodes, nodes0, start, root

    def level_inv(self, cx):
        v1, pos = self.v1, cx.old('pos')
        i, cur = cx.var('i'), cx.var('cur')
        nodes, nodes0, start, root = self.emitted(cx)
        return [('i-range', z3.And(-1 <= i, i < v1.A(pos))),
                ('cur-is-child-i', z3.Implies(i >= 0, cur == v1.cpos(pos, i))),
                ('cur-at-span-start-when-done', z3.Implies(i == -1, cur == v1.start(pos) - 1)),
                ('earlier-nodes-untouched', prefix_same(nodes, nodes0, start)),
                ('this-level-node-in-place', nodes.len >= start + 1),
                ('payload-of-first-operand-kept', z3.And(*[nodes.sel(f, start) == root.get(f) for f in PAYLOAD])),
                ('num_nodes-counts-emitted-nodes', nodes.sel('num_nodes', start) == nodes.len - start),
                ('num_leaves-nonneg', nodes.sel('num_leaves', start) >= 0)]

    def dict_inv(self, cx):
        v2, op = self.v2, cx.old('other_pos')
        curs = cx.obj(cx.var('other_curs'))
        j = z3.Int('j!dc')
        return self.level_inv(cx) + [
            ('cursors-are-the-children-of-other', z3.And(curs.len == v2.A(op), z3.ForAll(
                [j], z3.Implies(z3.And(0 <= j, j < v2.A(op)), z3.Select(curs.arr, j) == v2.cpos(op, j)),
                patterns=[z3.Select(curs.arr, j)]))),
            ('last_other_cur', cx.var('last_other_cur') == v2.start(op) - 1)]

    def seq_inv(self, cx):
        v2, op = self.v2, cx.old('other_pos')
        i, oc = cx.var('i'), cx.var('other_cur')
        return self.level_inv(cx) + [
            ('same-arity', self.v1.A(cx.old('pos')) == v2.A(op)),
            ('other-cur-is-child-i', z3.Implies(i >= 0, oc == v2.cpos(op, i))),
            ('other-cur-at-span-start-when-done', z3.Implies(i == -1, oc == v2.start(op) - 1))]

    def child_hints(self, cx):
        out = []
        for v, p, c in ((self.v1, cx.old('pos'), cx.var('cur')), (self.v2, cx.old('other_pos'), cx.var('other_cur'))):
            i = cx.var('i')
            out.append((f'child-span-{v.tag}', z3.Implies(z3.And(0 <= i, i < v.A(p), c == v.cpos(p, i)),
                                                         z3.And(v.start(p) <= c, c < p,
                                                                z3.Implies(i >= 1, v.cpos(p, i - 1) == v.start(c) - 1),
                                                                z3.Implies(i == 0, v.start(c) == v.start(p))))))
            out.append((f'last-child-{v.tag}', z3.Implies(v.A(p) > 0, v.cpos(p, v.A(p) - 1) == p - 1)))
        return out

    # ---- hooks ---------------------------------------------------------------------------------------
    def dict_get_item(self, eng, st, d, k, n):
        """Ghost fact about the fresh index dict: loop 0 stores only py::int_(i) with 0 <= i < other_root.arity."""
        j = fresh('dict_index', Int)
        st.pc.append(z3.And(0 <= j, j < self.v2.A(st.get('other_pos'))))
        return PyObj(M.py_int(j), stable=True)

    # ---- pre/post ---------------------------------------------------------------------------------------
    def post(self, cx, ret):
        v1, v2, pos, op = self.v1, self.v2, cx.old('pos'), cx.old('other_pos')
        nodes, nodes0, start, root = self.emitted(cx)
        a, b, c, d = [x for x in ret.items]
        other_root = v2.v.node_at(op)
        first_is_root_payload = z3.And(*[nodes.sel(f, start) == root.get(f) for f in PAYLOAD])
        first_is_other_root = z3.And(*[nodes.sel(f, start) == other_root.get(f) for f in M.NODE_FIELDS])
        return [('walked-the-subtree-of-this', a == v1.NN(pos)),
                ('walked-the-subtree-of-other', b == v2.NN(op)),
                ('reports-the-number-of-emitted-nodes', c == nodes.len - start),
                ('emits-at-least-one-node', c >= 1),
                ('earlier-nodes-untouched', prefix_same(nodes, nodes0, start)),
                ('first-emitted-node-carries-the-counts', z3.And(nodes.sel('num_nodes', start) == c,
                                                                 nodes.sel('num_leaves', start) == d)),
                ('keeps-the-first-operands-payload-or-copies-the-other-subtree',
                 z3.If(root.get('kind') == K['Leaf'], first_is_other_root, first_is_root_payload)),
                ('depth-within-limit', cx.old('depth') <= MAXD)]

    def frame(self, cx, ret):
        out = []
        for nm in ('traversal', 'other_traversal'):
            a, b = cx.obj(cx.old(nm), cx.entry), cx.obj(cx.old(nm), cx.st)
            out.append((f'{nm}-unchanged', z3.And(a.len == b.len, *[x == y for (_, x), (_, y) in zip(a.f, b.f)])))
        return out

    def frame_exc(self, cx):
        return self.frame(cx, None)

    def raises(self, cx):
        return {'pybind11::value_error': None, 'pybind11::error_already_set': None, 'pybind11::cast_error': None}

    # ---- recursive / top-level call site -------------------------------------------------------------
    def apply(self, eng, st, this, args, n):
        line = n.get('line')
        nodes_p, t1p, pos, t2p, op, depth = args
        cur = eng.cur_contract
        v1 = cur.v1 if hasattr(cur, 'v1') else cur.views['this']
        v2 = cur.v2 if hasattr(cur, 'v2') else cur.views['other']
        t1, t2 = st.heap[t1p.oid], st.heap[t2p.oid]
        eng.oblige(st, 'III', 'call-pre:recursion:pos-in-range', z3.And(0 <= pos, pos < t1.len), line)
        eng.oblige(st, 'III', 'call-pre:recursion:other-pos-in-range', z3.And(0 <= op, op < t2.len), line)
        eng.oblige(st, 'II', 'stack-bound:recursion-depth-is-guarded', depth <= MAXD + 1, line)
        if hasattr(cur, '_entry_pos'):
            eng.oblige(st, 'III', 'recursion-descends-into-a-smaller-subtree', pos < cur._entry_pos, line)
        eng.may_call_python(st, 'metadata __eq__ / key __hash__ (recursive broadcast)', line)
        s_exc = st.clone()
        eng.throw(s_exc, 'pybind11::value_error', line, 'incompatible treespecs (or a Python exception)')
        nodes0 = st.heap[nodes_p.oid]
        new = NodeVec.symbolic(f'nodes!rec{next(M._counter)}')
        st.heap[nodes_p.oid] = new
        c, d = fresh('new_num_nodes', Int), fresh('new_num_leaves', Int)
        root = t1.node_at(pos)
        other_root = t2.node_at(op)
        start = nodes0.len
        j = z3.Int('j!recb')
        st.facts += [c == new.len - start, c >= 1, d >= 0,
                     z3.ForAll([j], z3.Implies(z3.And(0 <= j, j < start),
                                               z3.And(*[new.sel(f, j) == nodes0.sel(f, j) for f in M.NODE_FIELDS])),
                               patterns=[new.sel(f, j) for f in M.NODE_FIELDS]),
                     new.sel('num_nodes', start) == c, new.sel('num_leaves', start) == d,
                     z3.If(root.get('kind') == K['Leaf'],
                           z3.And(*[new.sel(f, start) == other_root.get(f) for f in M.NODE_FIELDS]),
                           z3.And(*[new.sel(f, start) == root.get(f) for f in PAYLOAD])),
                     depth <= MAXD]
        return [(st, Tup((v1.NN(pos), v2.NN(op), c, d)))]


@contract
class BroadcastToCommonSuffix(Contract):
    name = 'optree::PyTreeSpec::BroadcastToCommonSuffix'
    props = ('C09', 'C14')

    def ns_conflict(self, cx):
        a, b = cx.this_spec(cx.entry), cx.obj(cx.old('other'), cx.entry)
        return z3.And(a.ns != EMPTY, b.ns != EMPTY, a.ns != b.ns)

    def post(self, cx, ret):
        a, b = cx.this_spec(cx.entry), cx.obj(cx.old('other'), cx.entry)
        spec = cx.obj(ret)
        t = cx.st.heap[spec.trav]
        return [('flags', z3.And(spec.nil == a.nil, spec.ns == z3.If(b.ns == EMPTY, a.ns, b.ns))),
                ('no-error-implies-compatible-flags', z3.And(a.nil == b.nil, z3.Not(self.ns_conflict(cx)))),
                ('result-root-count-consistent', z3.And(t.len >= 1, t.sel('num_nodes', t.len - 1) == t.len))]

    def raises(self, cx):
        return {'pybind11::value_error': None, 'pybind11::error_already_set': None, 'pybind11::cast_error': None}

    def frame(self, cx, ret):
        out = self.default_frame(cx)
        a, b = cx.vec(cx.old('other'), cx.entry), cx.vec(cx.old('other'), cx.st)
        out.append(('other-unchanged', z3.And(a.len == b.len, *[x == y for (_, x), (_, y) in zip(a.f, b.f)])))
        return out

    def frame_exc(self, cx):
        return self.frame(cx, None)
