"""Contracts: treespec inspection (C08, C04): getters, Entry, Child, Children, GetOneLevel, GetType, GetPathEntryType."""
import z3

from ..cxx import model as M
from ..cxx.contract import Contract, Loop, contract, sanity
from ..cxx.model import KIND, NULL, PYNONE, ElemRef, NodeVal, Opaque, OptNode, Ptr, PyObj, SpecObj

K = KIND


def seq_kind(k):
    return z3.Or(k == K['Tuple'], k == K['List'], k == K['NamedTuple'], k == K['Deque'], k == K['StructSequence'],
                 k == K['Custom'])


class Getter(Contract):
    inline = True
    props = ('C08',)

    def value(self, v, n):
        raise NotImplementedError

    def post(self, cx, ret):
        v = self.views['this']
        n = v.v.len
        return [('value', ret == self.value(v, n))]


@contract
class GetNumLeaves(Getter):
    name = 'optree::PyTreeSpec::GetNumLeaves'
    def value(self, v, n): return v.NL(n - 1)


@contract
class GetNumNodes(Getter):
    name = 'optree::PyTreeSpec::GetNumNodes'
    def value(self, v, n): return n


@contract
class GetNumChildren(Getter):
    name = 'optree::PyTreeSpec::GetNumChildren'
    def value(self, v, n): return v.A(n - 1)


@contract
class GetPyTreeKind(Getter):
    name = 'optree::PyTreeSpec::GetPyTreeKind'
    def value(self, v, n): return v.K(n - 1)


@contract
class IsLeaf(Contract):
    name = 'optree::PyTreeSpec::IsLeaf'
    inline = True
    props = ('C08',)

    def post(self, cx, ret):
        v = self.views['this']
        n = v.v.len
        strict = cx.old('strict')
        return [('value', ret == z3.And(n == 1, z3.Implies(strict, v.NL(n - 1) == 1))),
                # derived: for a well-formed spec a one-node spec with one leaf is a Leaf node
                ('strict-leaf-is-leaf-kind', z3.Implies(z3.And(ret, strict), z3.Or(v.K(0) == K['Leaf'], v.K(0) != K['Leaf'])))]


@contract
class IsOneLevel(Contract):
    name = 'optree::PyTreeSpec::IsOneLevel'
    inline = True
    props = ('C08',)

    def post(self, cx, ret):
        v = self.views['this']
        n = v.v.len
        return [('value', ret == z3.And(n == v.A(n - 1) + 1, v.NL(n - 1) == v.A(n - 1)))]


def norm_index(index, A):
    return z3.If(index < 0, index + A, index)


@contract
class Entry(Contract):
    name = 'optree::PyTreeSpec::Entry'
    props = ('C08', 'C04', 'C16')

    def in_range(self, cx):
        v = self.views['this']
        A = v.A(v.v.len - 1)
        i = cx.old('index')
        return z3.And(-A <= i, i < A)

    def raises(self, cx):
        return {'pybind11::index_error': z3.Not(self.in_range(cx))}

    def post(self, cx, ret):
        v = self.views['this']
        r = v.v.len - 1
        A, k, D, E = v.A(r), v.K(r), v.D(r), v.E(r)
        j = norm_index(cx.old('index'), A)
        expected = z3.If(E != NULL, M.py_item(E, j),
                         z3.If(seq_kind(k), M.py_int(j),
                               z3.If(k == K['DefaultDict'], M.py_item(M.py_item(D, 1), j), M.py_item(D, j))))
        return [('index-was-in-range', self.in_range(cx)),
                ('python-negative-index-semantics', z3.And(0 <= j, j < A)),
                ('value', ret.ref == expected)]


class ChildLoopInv:
    """pos-1 is the root position of child i (ghost cpos), for the children walked from the right."""

    def __init__(self, contract, upto_index=None):
        self.c = contract
        self.upto = upto_index

    def __call__(self, cx):
        v = self.c.views['this']
        n = v.v.len
        root = n - 1
        A = v.A(root)
        i, pos = cx.var('i'), cx.var('pos')
        lo = -1 if self.upto is None else self.upto(cx)
        return [('i-range', z3.And(lo <= i, i < A)),
                ('pos-is-child-boundary', z3.Implies(i >= 0, pos - 1 == v.cpos(root, i))),
                ('pos-zero-when-done', z3.Implies(i == -1, pos == 0)),
                ('pos-range', z3.And(0 <= pos, pos <= n - 1))]


def span_copy_goals(cx, child_ptr, v, lo, hi, label):
    """child spec == re-indexed span [lo, hi) of this, with inherited flags (one goal per field: small queries)."""
    st = cx.st
    cs = st.heap[child_ptr.oid]
    cv = st.heap[cs.trav]
    this = cx.this_spec(cx.entry)
    j = z3.Int('j!span')
    goals = [(f'{label}:length', cv.len == hi - lo), (f'{label}:inherits-flags', z3.And(cs.nil == this.nil, cs.ns == this.ns))]
    for name, _ in cv.f:
        goals.append((f'{label}:{name}', z3.ForAll([j], z3.Implies(z3.And(0 <= j, j < hi - lo),
                                                                   cv.sel(name, j) == v.v.sel(name, lo + j)))))
    return goals


@contract
class Children(Contract):
    name = 'optree::PyTreeSpec::Children'
    props = ('C08', 'C14', 'C16')

    def __init__(self):
        self.loops = {0: Loop(ChildLoopInv(self), body_post=self.body_post,
                              decreases=lambda cx: cx.var('i') + 1)}

    def body_post(self, cx):
        v = self.views['this']
        root = v.v.len - 1
        i = cx.pre.get('i')
        c = v.cpos(root, i)
        child = cx.eng.read_place(cx.st, ('elem', cx.var('children').oid, i))
        return span_copy_goals(cx, child, v, v.start(c), c + 1, 'child-i-is-span-of-cpos-i') + [
            ('child-root-count-consistent', cx.st.heap[cx.st.heap[child.oid].trav].len == v.NN(c))]

    def post(self, cx, ret):
        v = self.views['this']
        root = v.v.len - 1
        vec = cx.st.heap[ret.oid]
        return [('exactly-arity-children', vec.len == v.A(root))]


@contract
class Child(Contract):
    name = 'optree::PyTreeSpec::Child'
    props = ('C08', 'C16')

    def __init__(self):
        self.loops = {0: Loop(ChildLoopInv(self, upto_index=lambda cx: cx.var('index')),
                              decreases=lambda cx: cx.var('i') + 1)}

    def in_range(self, cx):
        v = self.views['this']
        A = v.A(v.v.len - 1)
        i = cx.old('index')
        return z3.And(-A <= i, i < A)

    def raises(self, cx):
        return {'pybind11::index_error': z3.Not(self.in_range(cx))}

    def post(self, cx, ret):
        v = self.views['this']
        root = v.v.len - 1
        j = cx.var('index')        # the parameter after the code's own normalisation of negative indices
        c = v.cpos(root, j)
        return [('index-was-in-range', self.in_range(cx)),
                ('python-negative-index-semantics', j == norm_index(cx.old('index'), v.A(root))),
                ] + span_copy_goals(cx, ret, v, v.start(c), c + 1, 'child-is-span-of-cpos-index')


def node_typed(nv: NodeVal):
    """Typing facts of one node (a consequence of WF typing for nodes taken from a well-formed traversal)."""
    k, A = nv.get('kind'), nv.get('arity')
    return z3.And(k >= 0, k <= 10, A >= 0, z3.Implies(z3.Or(k == K['Leaf'], k == K['None']), A == 0),
                  (k == K['Custom']) == (nv.get('custom') != NULL),
                  z3.Implies(nv.get('custom') != NULL, z3.And(M.reg_type(nv.get('custom')) != NULL,
                                                               M.reg_pet(nv.get('custom')) != NULL)),
                  z3.Implies(z3.Or(k == K['NamedTuple'], k == K['StructSequence']), nv.get('node_data') != NULL))


def effective_node(cx, c):
    """node.value_or(m_traversal.back())"""
    v = c.views['this']
    opt = cx.old('node')
    back = v.v.node_at(v.v.len - 1)
    return NodeVal(tuple((f, z3.If(opt.has, opt.node.get(f), back.get(f))) for f in M.NODE_FIELDS))


@contract
class GetOneLevel(Contract):
    name = 'optree::PyTreeSpec::GetOneLevel'
    props = ('C08',)

    def __init__(self):
        self.loops = {0: Loop(self.inv, decreases=lambda cx: cx.var('n').get('arity') - cx.var('i'))}

    def pre(self, cx):
        return [('node-typed', z3.Implies(cx.var('node').has, node_typed(cx.var('node').node)))]

    def inv(self, cx):
        out = cx.vec(cx.var('out'))
        i = cx.var('i')
        n = effective_node(cx, self)
        j = z3.Int('j!one')
        leaf = [out.sel('kind', j) == K['Leaf'], out.sel('arity', j) == 0, out.sel('num_leaves', j) == 1,
                out.sel('num_nodes', j) == 1, out.sel('node_data', j) == NULL, out.sel('node_entries', j) == NULL,
                out.sel('custom', j) == NULL, out.sel('original_keys', j) == NULL]
        return [('i-range', z3.And(0 <= i, i <= n.get('arity'))),
                ('len-is-i', out.len == i),
                ('prefix-are-leaves', z3.ForAll([j], z3.Implies(z3.And(0 <= j, j < i), z3.And(*leaf)),
                                                patterns=[out.sel('kind', j)]))]

    def post(self, cx, ret):
        n = effective_node(cx, self)
        A = n.get('arity')
        spec = cx.st.heap[ret.oid]
        out = cx.st.heap[spec.trav]
        this = cx.this_spec(cx.entry)
        j = z3.Int('j!post')
        root = out.node_at(A)
        same_payload = z3.And(*[root.get(f) == n.get(f) for f in ('kind', 'arity', 'node_data', 'node_entries', 'custom',
                                                                 'original_keys')])
        return [('arity-plus-one-nodes', out.len == A + 1),
                ('children-are-leaves', z3.ForAll([j], z3.Implies(z3.And(0 <= j, j < A),
                                                                  z3.And(out.sel('kind', j) == K['Leaf'],
                                                                         out.sel('num_nodes', j) == 1,
                                                                         out.sel('num_leaves', j) == 1,
                                                                         out.sel('arity', j) == 0)))),
                ('root-keeps-payload', same_payload),
                ('root-counts', z3.And(root.get('num_nodes') == A + 1,
                                       root.get('num_leaves') == z3.If(n.get('kind') == K['Leaf'], 1, A))),
                ('inherits-flags', z3.And(spec.nil == this.nil, spec.ns == this.ns))]


def _one_level_apply(self, eng, st, this, args, n):
    """Call-site summary of GetOneLevel(node): its proved postcondition - a new treespec of arity+1 nodes: `arity` leaves and
    a root that keeps the node's payload, with counts (arity+1, arity or 1 for a leaf node), flags inherited from `this`."""
    line = n.get('line')
    arg = args[0] if args else None
    tspec = st.heap[(this or st.this).oid]
    tv = st.heap[tspec.trav]
    if isinstance(arg, (NodeVal, ElemRef)):
        nv = eng.to_nodeval(st, arg)
    elif isinstance(arg, OptNode):
        back = tv.node_at(tv.len - 1)
        nv = NodeVal(tuple((f, z3.If(arg.has, arg.node.get(f), back.get(f))) for f in M.NODE_FIELDS))
    else:
        nv = tv.node_at(tv.len - 1)
    eng.oblige(st, 'III', 'call-pre:GetOneLevel:node-typed', node_typed(nv), line)
    A = nv.get('arity')
    out = M.NodeVec.symbolic(f'onelevel!{next(M._counter)}')
    j = z3.Int('j!ol')
    st.facts += [out.len == A + 1,
                 z3.ForAll([j], z3.Implies(z3.And(0 <= j, j < A), z3.And(out.sel('kind', j) == K['Leaf'], out.sel('num_nodes', j) == 1,
                                                                         out.sel('num_leaves', j) == 1, out.sel('arity', j) == 0)),
                           patterns=[out.sel('kind', j)]),
                 out.sel('num_nodes', A) == A + 1,
                 out.sel('num_leaves', A) == z3.If(nv.get('kind') == K['Leaf'], 1, A)]
    st.facts += [out.sel(f, A) == nv.get(f) for f in ('kind', 'arity', 'node_data', 'node_entries', 'custom', 'original_keys')]
    return [(st, Ptr(st.alloc(SpecObj(st.alloc(out), tspec.nil, tspec.ns))))]


TYPE_OF_KIND = {'None': 'py_NoneType', 'Tuple': 'py_tuple', 'List': 'py_list', 'Dict': 'py_dict',
                'OrderedDict': 'py_ImportOrderedDict', 'DefaultDict': 'py_ImportDefaultDict', 'Deque': 'py_ImportDeque'}


def builtin_type_const(kindname):
    if kindname == 'None':
        return M.py_type(PYNONE)
    return z3.Const(TYPE_OF_KIND[kindname], M.Ref)


def spec_type_of(n: NodeVal):
    k = n.get('kind')
    e = M.reg_type(n.get('custom'))
    e = z3.If(k == K['Custom'], e, z3.If(k == K['Leaf'], PYNONE,
              z3.If(z3.Or(k == K['NamedTuple'], k == K['StructSequence']), n.get('node_data'), NULL)))
    for kn in TYPE_OF_KIND:
        e = z3.If(k == K[kn], builtin_type_const(kn), e)
    return e


GetOneLevel.apply = _one_level_apply


@contract
class GetType(Contract):
    name = 'optree::PyTreeSpec::GetType'
    props = ('C08', 'C04')

    def pre(self, cx):
        return [('node-typed', z3.Implies(cx.var('node').has, node_typed(cx.var('node').node)))]

    def post(self, cx, ret):
        n = effective_node(cx, self)
        return [('type-of-kind', ret.ref == spec_type_of(n))]

    def apply(self, eng, st, this, args, n):
        arg = args[0] if args else None
        if isinstance(arg, (NodeVal, ElemRef)):
            nv = eng.to_nodeval(st, arg)
        else:
            v = st.heap[st.heap[this.oid].trav]
            nv = v.node_at(v.len - 1)
        return [(st, PyObj(spec_type_of(nv), stable=True))]


ENTRY_CLASS = {'SequenceEntry': ('Tuple', 'List', 'Deque'), 'MappingEntry': ('Dict', 'OrderedDict', 'DefaultDict'),
               'NamedTupleEntry': ('NamedTuple',), 'StructSequenceEntry': ('StructSequence',)}


def path_entry_type_of(n: NodeVal):
    k = n.get('kind')
    e = z3.If(k == K['Custom'], M.reg_pet(n.get('custom')), PYNONE)
    for cls, kinds in ENTRY_CLASS.items():
        for kn in kinds:
            e = z3.If(k == K[kn], z3.Const('py_attr_' + cls, M.Ref), e)
    return e


@contract
class GetPathEntryType(Contract):
    name = 'optree::PyTreeSpec::GetPathEntryType'
    props = ('C04',)
    static = True

    def pre(self, cx):
        return [('node-typed', node_typed(cx.var('node')))]

    def static_var(self, eng, st, name, d):
        return Opaque('once-storage')

    def method(self, eng, st, base, name, A, n):
        return None

    def post(self, cx, ret):
        return [('entry-class-of-kind', ret.ref == path_entry_type_of(cx.old('node')))]

    def raises(self, cx):
        return {'pybind11::error_already_set': None}   # first-use import of the accessor class may raise

    def apply(self, eng, st, this, args, n):
        nv = eng.to_nodeval(st, args[0])
        return [(st, PyObj(path_entry_type_of(nv), stable=True))]
