"""Contracts: PathsImpl / Paths / AccessorsImpl / Accessors (C03, C04, C16)."""
import z3

from ..cxx import model as M
from ..cxx.contract import Contract, Loop, contract
from ..cxx.model import KIND, NULL, Int, Ref, Opaque, Ptr, PyObj, ScalarVec, fresh
from .unflatten import pl_bounded_lemma

K = KIND
MAXD = M.MAX_RECURSION_DEPTH


def same_prefix(a, b):
    j = z3.Int('j!sp')
    return z3.And(a.len == b.len, z3.ForAll([j], z3.Implies(z3.And(0 <= j, j < a.len),
                                                           z3.Select(a.arr, j) == z3.Select(b.arr, j))))


class SpanWalk(Contract):
    """Recursive descent over the post-order array from a root position `pos` (children right to left)."""
    out_name = 'paths'

    def other_param(self, eng, st, p):
        vec = ScalarVec.symbolic(p.name, Ref)
        st.facts.append(vec.len >= 0)
        return Ptr(st.alloc(vec))

    def pre(self, cx):
        v = self.views['this']
        pos, depth = cx.var('pos'), cx.var('depth')
        stack = cx.obj(cx.var('stack'))
        return [('pos-in-range', z3.And(0 <= pos, pos < v.v.len)),
                ('stack-holds-the-entries-of-the-ancestors', stack.len == depth),
                ('depth-nonneg', depth >= 0)]

    def child_inv(self, cx):
        v = self.views['this']
        pos = cx.old('pos')
        i, cur = cx.var('i'), cx.var('cur')
        out = cx.obj(cx.var(self.out_name))
        out0 = cx.obj(cx.old(self.out_name), cx.entry)
        stack, stack0 = cx.obj(cx.var('stack')), cx.obj(cx.old('stack'), cx.entry)
        j = z3.Int('j!pw')
        return [('i-range', z3.And(-1 <= i, i < v.A(pos))),
                ('cur-is-child-i', z3.Implies(i >= 0, cur == v.cpos(pos, i))),
                ('cur-at-span-start-when-done', z3.Implies(i == -1, cur == v.start(pos) - 1)),
                ('one-item-per-leaf-so-far', out.len == out0.len + v.PL(pos) - v.PL(cur + 1)),
                ('earlier-items-untouched', z3.ForAll([j], z3.Implies(z3.And(0 <= j, j < out0.len),
                                                                      z3.Select(out.arr, j) == z3.Select(out0.arr, j)))),
                ('stack-restored', same_prefix(stack, stack0))]

    def hints(self, cx):
        v = self.views['this']
        pos = cx.old('pos')
        i, cur = cx.var('i'), cx.var('cur')
        return [('child-span', z3.Implies(z3.And(0 <= i, i < v.A(pos), cur == v.cpos(pos, i)),
                                          z3.And(v.start(pos) <= cur, cur < pos, v.start(cur) >= v.start(pos),
                                                 v.NL(cur) == v.PL(cur + 1) - v.PL(v.start(cur)),
                                                 z3.Implies(i >= 1, v.cpos(pos, i - 1) == v.start(cur) - 1),
                                                 z3.Implies(i == 0, v.start(cur) == v.start(pos))))),
                ('last-child', z3.Implies(v.A(pos) > 0, v.cpos(pos, v.A(pos) - 1) == pos - 1)),
                ('leaf-count-of-root', v.NL(pos) == v.PL(pos + 1) - v.PL(v.start(pos))),
                ('PL-step-root', v.PL(pos + 1) == v.PL(pos) + z3.If(v.K(pos) == K['Leaf'], 1, 0))]

    def common_post(self, cx, ret):
        v = self.views['this']
        pos = cx.old('pos')
        out = cx.obj(cx.var(self.out_name))
        out0 = cx.obj(cx.old(self.out_name), cx.entry)
        stack, stack0 = cx.obj(cx.var('stack')), cx.obj(cx.old('stack'), cx.entry)
        j = z3.Int('j!pwp')
        return [('returns-num_nodes-of-the-subtree', ret == v.NN(pos)),
                ('appends-one-item-per-leaf', out.len == out0.len + v.NL(pos)),
                ('earlier-items-untouched', z3.ForAll([j], z3.Implies(z3.And(0 <= j, j < out0.len),
                                                                      z3.Select(out.arr, j) == z3.Select(out0.arr, j)))),
                ('stack-restored', same_prefix(stack, stack0)),
                ('depth-within-limit', cx.old('depth') <= MAXD)]

    def post(self, cx, ret):
        return self.common_post(cx, ret)

    def raises(self, cx):
        return {'pybind11::error_already_set': None}

    def frame(self, cx, ret):
        return self.default_frame(cx)

    def frame_exc(self, cx):
        return self.default_frame(cx)

    def apply(self, eng, st, this, args, n):
        """Recursive call: the callee's precondition is an obligation, its postcondition an assumption."""
        line = n.get('line')
        v = eng.cur_contract.views['this']
        out_ptr, stack_ptr, pos, depth = args[0], args[1], args[2], args[3]
        out0, stack0 = st.heap[out_ptr.oid], st.heap[stack_ptr.oid]
        eng.oblige(st, 'III', 'call-pre:recursion:pos-in-range', z3.And(0 <= pos, pos < v.v.len), line)
        eng.oblige(st, 'III', 'call-pre:recursion:stack-holds-the-entries-of-the-ancestors', stack0.len == depth, line)
        eng.oblige(st, 'II', 'stack-bound:recursion-depth-is-guarded', depth <= MAXD + 1, line)
        if hasattr(eng.cur_contract, 'entry_pos'):      # a recursive call (termination measure: the root position)
            eng.oblige(st, 'III', 'recursion-descends-into-a-smaller-subtree', pos < eng.cur_contract.entry_pos(st), line)
        s_exc = st.clone()
        eng.throw(s_exc, 'pybind11::error_already_set', line, 'RecursionError or a Python exception from an entry class')
        new_out = ScalarVec.symbolic(f'{self.out_name}!rec{next(M._counter)}', Ref)
        st.heap[out_ptr.oid] = new_out
        j = z3.Int('j!rec')
        st.facts += [new_out.len == out0.len + v.NL(pos),
                     z3.ForAll([j], z3.Implies(z3.And(0 <= j, j < out0.len),
                                               z3.Select(new_out.arr, j) == z3.Select(out0.arr, j)),
                               patterns=[z3.Select(new_out.arr, j)]),
                     depth <= MAXD]
        self.may_run_python(eng, st, line)
        return [(st, v.NN(pos))]

    def may_run_python(self, eng, st, line):
        pass

    def entry_pos(self, st):
        return self._entry_pos

    def setup(self, eng, st, fn):
        cx = super().setup(eng, st, fn)
        self._entry_pos = st.get('pos')
        st.facts += pl_bounded_lemma(eng, st, self.views['this'], 'this')
        return cx


@contract
class PathsImpl(SpanWalk):
    name = 'optree::PyTreeSpec::PathsImpl'
    props = ('C03', 'C04', 'C16')
    out_name = 'paths'

    def __init__(self):
        mk = lambda: Loop(self.child_inv, hints=self.hints, decreases=lambda cx: cx.var('i') + 1)
        leaf = Loop(lambda cx: [('d-range', z3.And(0 <= cx.var('d'), cx.var('d') <= cx.old('depth')))],
                    decreases=lambda cx: cx.old('depth') - cx.var('d'))
        # loops in pre-order of the function body: entries loop, leaf path fill, sequence kinds, dict kinds
        self.loops = {0: mk(), 1: leaf, 2: mk(), 3: mk()}


@contract
class Paths(Contract):
    name = 'optree::PyTreeSpec::Paths'
    props = ('C03', 'C04')

    def post(self, cx, ret):
        v = self.views['this']
        n = v.v.len
        out = cx.obj(ret)
        return [('one-path-per-leaf', out.len == v.NL(n - 1))]

    def raises(self, cx):
        return {'pybind11::error_already_set': None}


@contract
class AccessorsImpl(SpanWalk):
    name = 'optree::PyTreeSpec::AccessorsImpl'
    props = ('C03', 'C04', 'C16')
    out_name = 'accessors'

    def __init__(self):
        mk = lambda: Loop(self.child_inv, hints=self.hints, decreases=lambda cx: cx.var('i') + 1)
        leaf = Loop(lambda cx: [('d-range', z3.And(0 <= cx.var('d'), cx.var('d') <= cx.old('depth')))],
                    decreases=lambda cx: cx.old('depth') - cx.var('d'))
        self.loops = {0: mk(), 1: leaf, 2: mk(), 3: mk()}

    def static_var(self, eng, st, name, d):
        return Opaque('once-storage')

    def may_run_python(self, eng, st, line):
        eng.may_call_python(st, 'path entry / accessor constructors (recursive call)', line)


@contract
class Accessors(Contract):
    name = 'optree::PyTreeSpec::Accessors'
    props = ('C03', 'C04')

    def post(self, cx, ret):
        v = self.views['this']
        n = v.v.len
        out = cx.obj(ret)
        return [('one-accessor-per-leaf', out.len == v.NL(n - 1))]

    def raises(self, cx):
        return {'pybind11::error_already_set': None}
