"""Contracts: the exact-type guards of pytypes.h (AssertExactList / Tuple / Dict / OrderedDict / DefaultDict / StandardDict /
Deque), used by FlattenUpTo and the treespec constructors (C07, C02: "subclasses of list/dict/... are leaves", a treespec node
matches only an object of exactly its type).

    returns normally   <=>   type(object) is one of the listed type objects          (never a subclass)
    otherwise ValueError (building the message may run __repr__, whose exception propagates instead)."""
import z3

from ..cxx import model as M
from ..cxx.contract import Contract, contract
from ..cxx.model import NULL, Ref, PyObj


def T(name):
    return z3.Const(name, Ref)


class AssertExact(Contract):
    this_is_spec = False
    props = ('C07', 'C02')
    types = ()

    def exact(self, cx):
        o = cx.old('object')
        r = o.ref if isinstance(o, PyObj) else o
        return z3.Or(*[M.py_type(r) == T(t) for t in self.types])

    def post(self, cx, ret):
        return [('returns-normally-only-for-an-object-of-exactly-the-expected-type', self.exact(cx))]

    def frame(self, cx, ret):
        return []

    def frame_exc(self, cx):
        return []

    def raises(self, cx):
        return {'pybind11::value_error': z3.Not(self.exact(cx)), 'pybind11::error_already_set': z3.Not(self.exact(cx))}


def mk(name, *types):
    cls = type('C_' + name, (AssertExact,), {'name': name, 'types': types})
    return contract(cls)


mk('AssertExactList', 'py_list')
mk('AssertExactTuple', 'py_tuple')
mk('AssertExactDict', 'py_dict')
mk('AssertExactOrderedDict', 'py_ImportOrderedDict')
mk('AssertExactDefaultDict', 'py_ImportDefaultDict')
mk('AssertExactStandardDict', 'py_dict', 'py_ImportOrderedDict', 'py_ImportDefaultDict')
mk('AssertExactDeque', 'py_ImportDeque')
