"""Contract: PyTreeSpec::ToStringImpl (C16, C08 - safety part only).

repr() walks the post-order node array with an agenda of already rendered children.  What is proved is the agenda discipline
(its height is forest(i): never fewer than arity entries, a singleton at the end), that the child iterators `cend() - arity ..
cend()` stay inside the agenda while keys / fields are enumerated (one child per key / field: the key and field counts equal
the arity for well-formed treespecs), and that all internal consistency checks are unreachable.  The rendered TEXT is not
specified here (strings are opaque in the encoding): the notation clause of C08 is decided by the bounded monitor."""
import z3

from ..cxx import model as M
from ..cxx.contract import Contract, Loop, contract, forall
from ..cxx.model import EMPTY, KIND, NULL, Bool, Int, Ref, Str, Opaque, PyObj, fresh
from .unflatten import AgendaWalk

K = KIND


@contract
class ToStringImpl(AgendaWalk):
    name = 'optree::PyTreeSpec::ToStringImpl'
    props = ('C16', 'C08')

    def __init__(self):
        def keyed(seq_of):
            def inv(cx):
                v = self.views['this']
                idx = cx.var('node__idx')
                ag = cx.obj(cx.var('agenda'))
                k = cx.var(self.idx_name(cx))
                it = cx.var(self.iter_name(cx))
                return [('key-index-range', z3.And(0 <= k, k <= v.A(idx))),
                        ('agenda-untouched', ag.len == self.F(idx)),
                        ('child-iterator-follows-the-keys', it.pos == ag.len - v.A(idx) + k)]
            return inv
        self.loops = {0: Loop(self.inv, index='node__idx', hints=self.hints,
                              decreases=lambda cx: cx.this_vec(cx.entry).len - cx.var('node__idx')),
                      1: Loop(self.children_inv),
                      2: Loop(keyed('keys'), index='key__idx'), 3: Loop(keyed('fields'), index='field__idx'),
                      4: Loop(keyed('keys'), index='key__idx'), 5: Loop(keyed('fields'), index='field__idx')}

    def idx_name(self, cx):
        return 'key__idx' if cx.st.scope.lookup('key__idx') is not None else 'field__idx'

    def iter_name(self, cx):
        return 'child_iter' if cx.st.scope.lookup('child_iter') is not None else 'child_it'

    # A namedtuple / struct-sequence CLASS is user-controlled: a hand-written tuple subclass may declare any number of
    # `_fields`.  The comparison of the number of field names with the arity is therefore a designed guard (it raises
    # InternalError for such classes), not an unreachable consistency check; the field loops are safe BECAUSE of it.
    designed_guards = ('Number of fields and entries does not match.',)

    def setup(self, eng, st, fn):
        from .. import twinspec as T
        cx = super().setup(eng, st, fn)
        v = self.views['this']
        i = z3.Int('i!ntf')
        inr = z3.And(0 <= i, i < v.v.len)
        st.facts.append(z3.ForAll([i], z3.Implies(z3.And(inr, z3.Or(v.K(i) == K['NamedTuple'], v.K(i) == K['StructSequence'])),
                                                  T.nt_is_type(v.D(i))), patterns=[v.D(i)]))
        return cx

    def inv(self, cx):
        v = self.views['this']
        n = v.v.len
        idx = cx.var('node__idx')
        ag = cx.obj(cx.var('agenda'))
        return [('idx-range', z3.And(0 <= idx, idx <= n)),
                ('agenda-height-is-forest', ag.len == self.F(idx))]

    def children_inv(self, cx):
        v = self.views['this']
        idx = cx.var('node__idx')
        ag = cx.obj(cx.var('agenda'))
        it = cx.var('it')
        return [('agenda-untouched', ag.len == self.F(idx)),
                ('iterator-inside-the-last-arity-entries', z3.And(ag.len - v.A(idx) <= it.pos, it.pos <= ag.len))]

    def hints(self, cx):
        v = self.views['this']
        n = v.v.len
        i = cx.var('node__idx')
        return [('forest-step', z3.Implies(z3.And(0 <= i, i < n), self.F(i + 1) == self.F(v.start(i)) + 1)),
                ('forest-children', z3.Implies(z3.And(0 <= i, i < n), self.F(i) == self.F(v.start(i)) + v.A(i))),
                ('forest-total', z3.Implies(i == n, self.F(i) == 1))]

    def raises(self, cx):
        return {'pybind11::error_already_set': None, 'pybind11::type_error': None, 'pybind11::cast_error': None,
                'optree::InternalError(guard)': None}

    def post(self, cx, ret):
        return []

    def frame_exc(self, cx):
        return self.default_frame(cx)


def _tostring_impl_apply(self, eng, st, this, args, n):
    """Call-site summary of ToStringImpl: runs Python (repr of keys / metadata), may raise, returns an opaque string."""
    eng.may_call_python(st, 'repr() of keys / metadata (ToStringImpl)', n.get('line'))
    for cls in ('pybind11::error_already_set', 'optree::InternalError(guard)'):
        s_exc = st.clone()
        eng.throw(s_exc, cls, n.get('line'), 'from repr()')
    return [(st, Opaque('str'))]


ToStringImpl.apply = _tostring_impl_apply

from .equality import HashValue  # noqa: E402


@contract
class ToString(HashValue):
    """repr(): the re-entrancy guard (set of (treespec, thread) identities that are being rendered) is restored on EVERY exit -
    normal, re-entrant ("..."), and exceptional (a key / metadata __repr__ that raises) - so a failed repr leaves no trace;
    the guard set is only touched under its mutex and no lock is held while ToStringImpl runs Python code."""
    name = 'optree::PyTreeSpec::ToString'
    props = ('C08', 'C15', 'C17')

    def post(self, cx, ret):
        return [('guard-restored', cx.st.ghost['running'] == self.entry_member)]

    def frame_exc(self, cx):
        return self.default_frame(cx) + [('guard-restored-on-exception', cx.st.ghost['running'] == self.entry_member),
                                         ('exception-only-from-impl', z3.Not(self.entry_member))]

    def raises(self, cx):
        return {'pybind11::error_already_set': None, 'optree::InternalError(guard)': None}

    def apply(self, eng, st, this, args, n):
        eng.may_call_python(st, 'repr() of keys / metadata (ToString)', n.get('line'))
        s_exc = st.clone()
        eng.throw(s_exc, 'pybind11::error_already_set', n.get('line'), 'from repr()')
        return [(st, Opaque('str'))]
