"""Contract: PyTreeSpec::Compose (C08, C06): counts, payload preservation, flags, exceptions."""
import z3

from ..cxx import model as M
from ..cxx.contract import Contract, Loop, contract
from ..cxx.model import EMPTY, KIND, NULL

K = KIND


@contract
class Compose(Contract):
    name = 'optree::PyTreeSpec::Compose'
    props = ('C08', 'C10')
    abstract_mul = True

    def __init__(self):
        self.loops = {0: Loop(self.inv, body_post=self.body_post, index='node__idx', hints=self.hints,
                              decreases=lambda cx: cx.this_vec(cx.entry).len - cx.var('node__idx'))}

    def setup(self, eng, st, fn):
        from ..cxx.symex import State
        cx = super().setup(eng, st, fn)
        m = self.views['inner_treespec'].v.len
        for name, e in (('mul-zero', M.mul(z3.IntVal(0), m) == 0),):
            real = z3.substitute_funs(e, (M.mul, z3.Var(0, M.Int) * z3.Var(1, M.Int)))
            eng.oblige(State(), 'L', f'lemma:{name}', real)       # proved for real multiplication
            st.facts.append(e)                                    # used for the abstract product
        return cx

    def sizes(self, cx):
        v, w = self.views['this'], self.views['inner_treespec']
        m = w.v.len
        return v, w, m, w.NL(m - 1)

    def ns_conflict(self, cx):
        a, b = cx.this_spec(cx.entry), cx.obj(cx.old('inner_treespec'), cx.entry)
        return z3.And(a.ns != EMPTY, b.ns != EMPTY, a.ns != b.ns)

    def raises(self, cx):
        a, b = cx.this_spec(cx.entry), cx.obj(cx.old('inner_treespec'), cx.entry)
        return {'pybind11::value_error': z3.Or(a.nil != b.nil, self.ns_conflict(cx)),
                'pybind11::error_already_set': self.ns_conflict(cx)}      # repr() of the namespaces in the message

    def flags(self, cx, spec):
        a, b = cx.this_spec(cx.entry), cx.obj(cx.old('inner_treespec'), cx.entry)
        return z3.And(spec.nil == a.nil, spec.ns == z3.If(b.ns == EMPTY, a.ns, b.ns))

    def inv(self, cx):
        v, w, m, l = self.sizes(cx)
        n = v.v.len
        idx = cx.var('node__idx')
        spec = cx.obj(cx.var('treespec'))
        t = cx.st.heap[spec.trav]
        last = t.len - 1
        return [('idx-range', z3.And(0 <= idx, idx <= n)),
                ('length', t.len == (idx - v.PL(idx)) + M.mul(v.PL(idx), m)),
                ('nonempty', z3.Implies(idx > 0, t.len >= 1)),
                ('last-leaves', z3.Implies(idx > 0, t.sel('num_leaves', last) == M.mul(v.NL(idx - 1), l))),
                ('last-nodes', z3.Implies(idx > 0, t.sel('num_nodes', last) ==
                                          (v.NN(idx - 1) - v.NL(idx - 1)) + M.mul(v.NL(idx - 1), m))),
                ('flags', self.flags(cx, spec))]

    def hints(self, cx):
        v, w, m, l = self.sizes(cx)
        n = v.v.len
        idx = cx.var('node__idx')
        P, P1 = v.PL(idx), v.PL(idx + 1)
        L = v.NL(n - 1)
        step = z3.If(v.K(idx) == K['Leaf'], 1, 0)
        leaf = v.K(idx) == K['Leaf']
        return [('PL-step', z3.Implies(idx < n, P1 == P + step)),
                ('PL-step-scaled', z3.Implies(P1 == P + step, M.mul(P1, m) == M.mul(P, m) + z3.If(leaf, m, 0)), 'mul'),
                ('total-leaves', L == v.PL(n)),
                ('mul-one', z3.And(M.mul(z3.IntVal(1), m) == m, M.mul(z3.IntVal(1), l) == l), 'mul'),
                ('exit-root', z3.Implies(idx == n, v.NN(idx - 1) == n))]

    def body_post(self, cx):
        v, w, m, l = self.sizes(cx)
        idx = cx.pre.get('node__idx')
        spec = cx.obj(cx.var('treespec'))
        t = cx.st.heap[spec.trav]
        last = t.len - 1
        keep = z3.And(*[t.sel(f, last) == v.v.sel(f, idx) for f in ('kind', 'arity', 'node_data', 'node_entries', 'custom',
                                                                    'original_keys')])
        inner_root = z3.And(*[t.sel(f, last) == w.v.sel(f, m - 1) for f in M.NODE_FIELDS])
        return [('non-leaf-keeps-payload', z3.Implies(v.K(idx) != K['Leaf'], keep)),
                ('leaf-replaced-by-inner', z3.Implies(v.K(idx) == K['Leaf'], inner_root))]

    def post(self, cx, ret):
        v, w, m, l = self.sizes(cx)
        n = v.v.len
        L = v.NL(n - 1)
        spec = cx.obj(ret)
        t = cx.st.heap[spec.trav]
        a, b = cx.this_spec(cx.entry), cx.obj(cx.old('inner_treespec'), cx.entry)
        return [('num-nodes', t.len == (n - L) + M.mul(L, m)),
                ('root-num-nodes-consistent', t.sel('num_nodes', t.len - 1) == t.len),
                ('num-leaves', t.sel('num_leaves', t.len - 1) == M.mul(L, l)),
                ('flags', self.flags(cx, spec)),
                ('no-error-implies-compatible', z3.And(a.nil == b.nil, z3.Not(self.ns_conflict(cx))))]

    def frame(self, cx, ret):
        out = self.default_frame(cx)
        a, b = cx.vec(cx.old('inner_treespec'), cx.entry), cx.vec(cx.old('inner_treespec'), cx.st)
        out.append(('inner-unchanged', z3.And(a.len == b.len, *[x == y for (_, x), (_, y) in zip(a.f, b.f)])))
        return out
