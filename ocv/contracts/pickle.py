"""Contracts: ToPickleable / FromPickleable and the codec lemma (C11)."""
import z3

from ..cxx import model as M
from ..cxx.contract import Contract, Loop, contract, forall, symbolic_spec
from ..cxx.model import EMPTY, KIND, NULL, PYNONE, Bool, Int, Ref, Str, Opaque, Ptr, PyObj, fresh
from ..cxx.symex import State
from .registry import RegistryMixin, lookup_value

K = KIND


def none_or(x):
    return z3.If(x != NULL, x, PYNONE)


def encode_node(v, j):
    """The 8-tuple ToPickleable stores for node j."""
    return [M.py_int(v.K(j)), M.py_int(v.A(j)), none_or(v.D(j)), none_or(v.E(j)),
            z3.If(v.C(j) != NULL, M.reg_type(v.C(j)), PYNONE), M.py_int(v.NL(j)), M.py_int(v.NN(j)), none_or(v.OK(j))]


def is_encoding(t, v, j):
    return z3.And(t != NULL, M.py_len(t) == 8, *[M.py_item(t, z3.IntVal(k)) == e for k, e in enumerate(encode_node(v, j))])


def cast(pred, short, x):
    return z3.If(pred(x), x, z3.Function('py_convert_' + short, Ref, Ref)(x))


def state_tuple(states, j):
    """thread_safe_cast<py::tuple>(item): the j-th node state as the tuple FromPickleable reads."""
    return cast(M.py_is_tuple, 'tuple', M.py_item(states, j))


def decode_node(t, lookup):
    """What FromPickleable stores for a node state tuple t (None when it must raise is handled by the caller)."""
    it = lambda k: M.py_item(t, z3.IntVal(k))
    k = M.py_as_int(it(0))
    isdict = z3.Or(k == K['Dict'], k == K['OrderedDict'])
    istype = z3.Or(k == K['NamedTuple'], k == K['StructSequence'])
    plain = z3.Or(k == K['Leaf'], k == K['None'], k == K['Tuple'], k == K['List'])
    D = z3.If(plain, NULL, z3.If(isdict, cast(M.py_is_list, 'list', it(2)), z3.If(istype, cast(M.py_is_type, 'type', it(2)), it(2))))
    E = z3.If(z3.And(k == K['Custom'], it(3) != PYNONE), cast(M.py_is_tuple, 'tuple', it(3)), NULL)
    C = z3.If(z3.And(k == K['Custom'], it(4) != PYNONE), lookup(it(4)), NULL)
    OK = z3.If(z3.And(M.py_len(t) == 8, it(7) != PYNONE), cast(M.py_is_list, 'list', it(7)), NULL)
    return {'kind': k, 'arity': M.py_as_int(it(1)), 'node_data': D, 'node_entries': E, 'custom': C,
            'num_leaves': M.py_as_int(it(5)), 'num_nodes': M.py_as_int(it(6)), 'original_keys': OK}


def codec_axioms():
    q = z3.Int('q!cx')
    b = z3.Bool('b!cx')
    s = z3.Const('s!cx', Str)
    return [z3.ForAll([q], M.py_as_int(M.py_int(q)) == q, patterns=[M.py_int(q)]),
            z3.ForAll([b], M.py_as_bool(M.py_bool(b)) == b, patterns=[M.py_bool(b)]),
            z3.ForAll([s], M.py_as_str(M.py_str(s)) == s, patterns=[M.py_str(s)]),
            # None is neither a tuple, a list nor a type
            z3.Not(M.py_is_tuple(PYNONE)), z3.Not(M.py_is_list(PYNONE)), z3.Not(M.py_is_type(PYNONE)), PYNONE != NULL]


@contract
class ToPickleable(Contract):
    name = 'optree::PyTreeSpec::ToPickleable'
    props = ('C11', 'C14')

    def __init__(self):
        self.loops = {0: Loop(self.inv, index='node__idx',
                              decreases=lambda cx: cx.this_vec(cx.entry).len - cx.var('node__idx'))}

    def inv(self, cx):
        v = self.views['this']
        idx, i = cx.var('node__idx'), cx.var('i')
        items = cx.items(cx.var('node_states'))
        j = z3.Int('j!tp')
        out = [('idx-range', z3.And(0 <= idx, idx <= v.v.len)), ('slot-counter', i == idx)]
        if items is not None:
            out.append(('states-so-far-encode-the-nodes', z3.ForAll(
                [j], z3.Implies(z3.And(0 <= j, j < idx), is_encoding(z3.Select(items, j), v, j)),
                patterns=[z3.Select(items, j)])))
        return out

    def post(self, cx, ret):
        v = self.views['this']
        n = v.v.len
        this = cx.this_spec(cx.entry)
        r = ret.ref
        states = M.py_item(r, z3.IntVal(0))
        j = z3.Int('j!tpp')
        return [('three-components', M.py_len(r) == 3),
                ('one-state-per-node', M.py_len(states) == n),
                ('states-encode-the-nodes-in-order', z3.ForAll([j], z3.Implies(z3.And(0 <= j, j < n),
                                                                               is_encoding(M.py_item(states, j), v, j)))),
                ('flags', z3.And(M.py_item(r, z3.IntVal(1)) == M.py_bool(this.nil), M.py_item(r, z3.IntVal(2)) == M.py_str(this.ns)))]

    def raises(self, cx):
        return {}


@contract
class FromPickleable(RegistryMixin, Contract):
    name = 'optree::PyTreeSpec::FromPickleable'
    props = ('C11', 'C16')
    static = True

    def __init__(self):
        self.loops = {0: Loop(self.inv, index='item__idx',
                              decreases=lambda cx: M.py_len(self.states(cx)) - cx.var('item__idx'))}

    def setup(self, eng, st, fn):
        self.setup_registry(eng, st)
        cx = super().setup(eng, st, fn)
        st.facts += codec_axioms()
        return cx

    def symbolic_param(self, eng, st, p):
        return PyObj(z3.Const(p.name, Ref), stable=True)      # A-PICKLE: an engine-produced state (immutable data)

    def pre(self, cx):
        """A-PICKLE: the state was produced by ToPickleable from some well-formed treespec `src` (ghost)."""
        p = cx.var('pickleable').ref
        self.src_ptr, self.src = symbolic_spec(cx.st, 'src', True, True)
        src_spec = cx.st.heap[self.src_ptr.oid]
        v = self.src
        j = z3.Int('j!fpre')
        states = M.py_item(p, z3.IntVal(0))
        return [('state-is-a-tuple', z3.And(M.py_is_tuple(p), M.py_len(p) == 3)),
                ('node-states-is-a-tuple', z3.And(M.py_is_tuple(states), M.py_len(states) == v.v.len)),
                ('flags-encoded', z3.And(M.py_item(p, z3.IntVal(1)) == M.py_bool(src_spec.nil),
                                         M.py_item(p, z3.IntVal(2)) == M.py_str(src_spec.ns))),
                ('states-encode-src', z3.ForAll([j], z3.Implies(z3.And(0 <= j, j < v.v.len),
                                                                z3.And(M.py_is_tuple(M.py_item(states, j)),
                                                                       is_encoding(M.py_item(states, j), v, j))),
                                                patterns=[M.py_item(states, j)]))]

    def states(self, cx):
        return M.py_item(cx.old('pickleable').ref, z3.IntVal(0))

    def lookup(self, cx):
        p = cx.old('pickleable').ref
        nil = M.py_as_bool(M.py_item(p, z3.IntVal(1)))
        ns = M.py_as_str(M.py_item(p, z3.IntVal(2)))
        maps = self.maps(cx.entry)
        return lambda t: z3.If(nil, lookup_value(maps, 'leaf', t, ns), lookup_value(maps, 'node', t, ns))

    def node_is_decoding(self, out, j, t, lookup):
        d = decode_node(t, lookup)
        return z3.And(*[out.sel(f, j) == d[f] for f in M.NODE_FIELDS])

    def inv(self, cx):
        idx = cx.var('item__idx')
        spec = cx.obj(cx.var('out'))
        out = cx.st.heap[spec.trav]
        states = self.states(cx)
        j = z3.Int('j!fp')
        lk = self.lookup(cx)
        p = cx.old('pickleable').ref
        return [('idx-range', z3.And(0 <= idx, idx <= M.py_len(states))),
                ('one-node-per-state', out.len == idx),
                ('flags', z3.And(spec.nil == M.py_as_bool(M.py_item(p, z3.IntVal(1))),
                                 spec.ns == M.py_as_str(M.py_item(p, z3.IntVal(2))))),
                ] + [(f'nodes-decode-the-states:{f}', forall([j], z3.Implies(
                    z3.And(0 <= j, j < idx), out.sel(f, j) == decode_node(state_tuple(states, j), lk)[f]),
                    patterns=[out.sel(f, j)])) for f in M.NODE_FIELDS] + [
                ('custom-nodes-are-bound-to-a-registration', forall(
                    [j], z3.Implies(z3.And(0 <= j, j < idx, out.sel('kind', j) == K['Custom']), out.sel('custom', j) != NULL),
                    patterns=[out.sel('custom', j)]))]

    def post(self, cx, ret):
        spec = cx.obj(ret)
        out = cx.st.heap[spec.trav]
        states = self.states(cx)
        p = cx.old('pickleable').ref
        j = z3.Int('j!fpp')
        lk = self.lookup(cx)
        return [('three-components', M.py_len(p) == 3),
                ('one-node-per-state', out.len == M.py_len(states)),
                ('flags', z3.And(spec.nil == M.py_as_bool(M.py_item(p, z3.IntVal(1))),
                                 spec.ns == M.py_as_str(M.py_item(p, z3.IntVal(2))))),
                ('nodes-decode-the-states', z3.ForAll([j], z3.Implies(z3.And(0 <= j, j < out.len),
                                                                      self.node_is_decoding(out, j, state_tuple(states, j), lk)))),
                ('missing-registration-never-yields-a-treespec', z3.ForAll(
                    [j], z3.Implies(z3.And(0 <= j, j < out.len, out.sel('kind', j) == K['Custom']), out.sel('custom', j) != NULL))),
                ('root-count-checked', out.sel('num_nodes', out.len - 1) == out.len)] + self.codec(cx, spec, out)

    def codec(self, cx, spec, out):
        """Lemma codec (C11): FromPickleable(ToPickleable(src)) = src on every field, provided every custom type of src
        is (still) registered with the same registration in the recorded namespace."""
        v = self.src
        src_spec = cx.entry.heap[self.src_ptr.oid]
        lk = self.lookup(cx)
        j = z3.Int('j!codec')
        same_regs = z3.ForAll([j], z3.Implies(z3.And(0 <= j, j < v.v.len, v.C(j) != NULL), lk(M.reg_type(v.C(j))) == v.C(j)),
                              patterns=[v.C(j)])
        goals = [('codec:flags', z3.And(spec.nil == src_spec.nil, spec.ns == src_spec.ns)),
                 ('codec:num-nodes', out.len == v.v.len)]
        for f in M.NODE_FIELDS:
            goals.append((f'codec:{f}', z3.Implies(same_regs, z3.ForAll(
                [j], z3.Implies(z3.And(0 <= j, j < v.v.len), out.sel(f, j) == v.v.sel(f, j))))))
        return goals

    def raises(self, cx):
        return {'std::runtime_error': None, 'pybind11::cast_error': None, 'pybind11::error_already_set': None}

    def frame(self, cx, ret):
        return [('registry-unchanged', self.unchanged(cx))]

    def frame_exc(self, cx):
        return [('registry-unchanged', self.unchanged(cx))]
