"""Contract: TotalOrderSort (C02, C18, C15) - the three-stage key sort of dict nodes.

Abstract list contents: `C0` the content on entry; sorted1(c) the result of a successful list.sort(); sorted2(c) the result
of a successful list.sort(key=fallback_key); a failed sort leaves an unspecified permutation.  External contracts (A-CAPI):
PyList_Sort / list.sort run user __lt__ and fail with whatever it raises; PyList_GetSlice(l, 0, len) is a new list with the
current content; PyList_SetSlice(l, 0, len, src) makes the content that of src or fails.

Proved: on normal return the content is  C0 (fewer than two items) | sorted1(C0) (first sort succeeded) | sorted2(C0) - the
keyed sort applied to the ORIGINAL order - (first sort raised TypeError, second succeeded) | C0 (both raised TypeError);
every other exception of a sort propagates; the fallback key of x is (<module.qualname text of type(x)>, x itself);
the error indicator is clear on normal return."""
import z3

from ..cxx import model as M
from ..cxx.contract import Contract, contract
from ..cxx.model import NULL, Bool, Int, Ref, Lam, Opaque, PyObj, fresh
from ..cxx.calls import PyMethod, call_lambda
from ..cxx.symex import Unsupported, as_int

Content = Ref
sorted1 = z3.Function('sorted_plain', Ref, Ref)
sorted2 = z3.Function('sorted_by_typename_then_value', Ref, Ref)


@contract
class TotalOrderSort(Contract):
    name = 'TotalOrderSort'
    this_is_spec = False
    props = ('C02', 'C18', 'C15')

    def setup(self, eng, st, fn):
        cx = super().setup(eng, st, fn)
        self.C0 = z3.Const('content_on_entry', Ref)
        st.ghost['content'] = self.C0
        st.ghost['snapshots'] = ()            # (list object ref, content)
        st.ghost['pyerr'] = z3.BoolVal(False)
        st.ghost['outcomes'] = ()             # ('sort1'|'sort2', ok?, is_typeerror)
        st.ghost['key_fn_checked'] = False
        return cx

    def symbolic_param(self, eng, st, p):
        return PyObj(z3.Const(p.name, Ref))

    def is_list(self, cx_or_st, o):
        return True

    def call_hook(self, eng, st, name, args_n, n):
        line = n.get('line')
        if name == 'PyList_GetSlice':
            (s1, o), = eng.ev(args_n[0], st)
            (s2, lo), = eng.ev(args_n[1], s1)
            (s3, hi), = eng.ev(args_n[2], s2)
            whole = z3.And(as_int(lo) == 0, as_int(hi) == M.py_len(self.lref(s3)))
            eng.oblige(s3, 'III', 'snapshot-covers-the-whole-list', whole, line)
            r = fresh('list_snapshot', Ref)
            s3.pc.append(r != NULL)
            s3.ghost['snapshots'] = s3.ghost['snapshots'] + ((r, s3.ghost['content']),)
            return [(s3, PyObj(r, fresh=True))]
        if name == 'PyList_Sort':
            return self.sort_outcomes(eng, st, 'sort1', sorted1, line, raises=False)
        if name == 'PyList_SetSlice':
            (s1, o), = eng.ev(args_n[0], st)
            (s2, lo), = eng.ev(args_n[1], s1)
            (s3, hi), = eng.ev(args_n[2], s2)
            (s4, src), = eng.ev(args_n[3], s3)
            eng.oblige(s4, 'III', 'restore-replaces-the-whole-list', z3.And(as_int(lo) == 0, as_int(hi) == M.py_len(self.lref(s4))), line)
            sref = src.ref if isinstance(src, PyObj) else src
            snap = next((c for r, c in s4.ghost['snapshots'] if r.eq(sref)), None)
            eng.oblige(s4, 'III', 'restore-source-is-the-snapshot-taken-on-entry', z3.BoolVal(snap is not None and snap.eq(self.C0)), line)
            s_fail = s4.clone()
            s_fail.ghost['pyerr'] = z3.BoolVal(True)
            s_fail.ghost['exc_is_typeerror'] = z3.BoolVal(False)
            if snap is not None:
                s4.ghost['content'] = snap
            return [(s4, z3.IntVal(0)), (s_fail, z3.IntVal(-1))]
        if name == 'ListGetSize':
            return [(st, M.py_len(self.lref(st)))]
        if name == 'PyErr_Clear':
            st.ghost['pyerr'] = z3.BoolVal(False)
            return [(st, None)]
        if name == 'getattr':
            (s1, o), = eng.ev(args_n[0], st)
            (s2, nm), = eng.ev(args_n[1], s1)
            if isinstance(nm, Opaque) and nm.tag == 'pyid:sort':
                return [(s2, PyMethod(o, 'sort'))]
        return None

    def lref(self, st):
        return st.get('list').ref

    def sort_outcomes(self, eng, st, which, fn, line, raises):
        eng.may_call_python(st, f'key comparison ({which})', line)
        ok, bad = st, st.clone()
        ok.ghost['content'] = fn(ok.ghost['content'])
        ok.ghost['outcomes'] = ok.ghost['outcomes'] + ((which, True, None),)
        te = fresh(f'{which}_raised_TypeError', Bool)
        bad.ghost['content'] = fresh('partially_permuted', Ref)
        bad.ghost['pyerr'] = z3.BoolVal(True)
        bad.ghost['exc_is_typeerror'] = te
        bad.ghost['outcomes'] = bad.ghost['outcomes'] + ((which, False, te),)
        if raises:
            eng.throw(bad, 'pybind11::error_already_set', line, f'{which} failed')
            return [(ok, PyObj(M.PYNONE))]
        return [(ok, z3.IntVal(0)), (bad, z3.IntVal(-1))]

    def on_pymethod_call(self, eng, st, f, args, n):
        if f.name == 'sort':
            eng.oblige(st, 'III', 'fallback-sort-is-keyed', z3.BoolVal(any(isinstance(a, Opaque) and a.tag == 'kwarg' for a in args)),
                       n.get('line'))
            eng.oblige(st, 'III', 'fallback-sort-sorts-this-list', f.obj.ref == self.lref(st), n.get('line'))
            return self.sort_outcomes(eng, st, 'sort2', sorted2, n.get('line'), raises=True)
        return None

    def method_hook(self, eng, st, base, name, A, n):
        if name == 'matches' and isinstance(base, Opaque) and base.tag.startswith('exc:'):
            return [(st, st.ghost.get('exc_is_typeerror', z3.BoolVal(False)))]
        if name == 'ptr' and isinstance(base, PyObj):
            return [(st, base)]
        return None

    def on_cpp_function(self, eng, st, fobj, vals, n):
        """The fallback key function: evaluated once for an arbitrary object; must return the pair (text, the object itself)."""
        lam = next((v for v in vals if isinstance(v, Lam)), None)
        if lam is None:
            eng.oblige(st, 'III', 'fallback-key-is-a-visible-lambda', z3.BoolVal(False), n.get('line'))
            return
        s = st.clone()
        x = z3.Const('x!key', Ref)
        s.set('x__keyarg', PyObj(x), declare=True)
        from ..cxx.ast import N as _N  # noqa: F401
        # call the lambda with a synthetic argument node bound to x
        params = []
        for d in eng.walk(lam.node):
            if d.k == 'CXXMethodDecl' and d.name == 'operator()':
                params = [c for c in d.c if c.k == 'ParmVarDecl']
                break
        comp = [c for c in lam.node.c if c.k == 'CompoundStmt'][-1]
        s.push()
        s.set(params[0].name, PyObj(x), declare=True)
        saved_exc = eng.exc
        eng.exc = []
        res = eng.ex(comp, s)
        eng.exc = saved_exc
        rets = [(s2, o[1]) for s2, o in res if o is not None and o != ('normal',) and o[0] == 'return']
        eng.oblige(st, 'III', 'fallback-key-function-returns', z3.BoolVal(len(rets) >= 1), n.get('line'))
        for s2, r in rets:
            rr = r.ref if isinstance(r, PyObj) else r
            eng.oblige(s2, 'III', 'fallback-key-is-a-pair', M.py_len(rr) == 2, n.get('line'))
            eng.oblige(s2, 'III', 'fallback-key-second-component-is-the-object-itself', M.py_item(rr, z3.IntVal(1)) == x, n.get('line'))
        st.ghost['key_fn_checked'] = True

    def raises(self, cx):
        return {'pybind11::error_already_set': None}

    def post(self, cx, ret):
        st = cx.st
        n = M.py_len(cx.old('list').ref)
        oc = dict((w, (ok, te)) for w, ok, te in st.ghost['outcomes'])
        content = st.ghost['content']
        if 'sort1' not in oc:
            exp = self.C0
            cond = n < 2
        elif oc['sort1'][0]:
            exp, cond = sorted1(self.C0), z3.BoolVal(True)
        elif 'sort2' in oc and oc['sort2'][0]:
            exp, cond = sorted2(self.C0), oc['sort1'][1]
        else:
            exp = self.C0
            cond = z3.And(oc['sort1'][1], oc['sort2'][1]) if 'sort2' in oc else z3.BoolVal(False)
        return [('normal-return-only-in-the-documented-cases', cond),
                ('content-is-the-documented-order', content == exp),
                ('error-indicator-clear-on-return', z3.Not(st.ghost['pyerr'])),
                ('fallback-key-function-was-checked-when-the-fallback-ran', z3.BoolVal('sort2' not in oc or st.ghost['key_fn_checked']))]

    def frame(self, cx, ret):
        return []

    def frame_exc(self, cx):
        return []
