"""Contracts: engine twins of optree/typing.py (C18): IsNamedTupleClassImpl against the shared predicate NT (ocv/twinspec.py).

The raw CPython calls of this helper are used through their documented contracts (A-CAPI):
  PyObject_GetAttr(o, name)  -> new reference to the attribute, or NULL with the error indicator set
  Py_IS_TYPE(o, &T)          -> exact type test;  PyType_HasFeature(t, Py_TPFLAGS_TUPLE_SUBCLASS) -> tuple subclass flag
  PyCallable_Check(o)        -> callable(o);  Py_DECREF(o) releases one reference;  PyErr_Clear() clears the indicator."""
import z3

from .. import twinspec as T
from ..cxx import model as M
from ..cxx.contract import Contract, Loop, contract, forall
from ..cxx.model import NULL, Bool, Int, Ref, Str, Opaque, PyObj, fresh
from ..cxx.symex import Unsupported

TUPLE_SUBCLASS = 1 << 26
TYPE_CONST = {'PyTuple_Type': T.nt_exact_tuple, 'PyUnicode_Type': T.nt_exact_str, 'PyLong_Type': T.ss_exact_int}


@contract
class IsNamedTupleClassImpl(Contract):
    name = 'IsNamedTupleClassImpl'
    this_is_spec = False
    props = ('C18',)

    def __init__(self):
        self.loops = {0: Loop(self.fields_inv, index='field__idx', break_post=self.fields_break)}

    def setup(self, eng, st, fn):
        cx = super().setup(eng, st, fn)
        st.facts.append(T.names_distinct())
        st.ghost['owned'] = ()          # references obtained from PyObject_GetAttr and not yet released
        st.ghost['pyerr'] = z3.BoolVal(False)
        return cx

    # -- external contracts -------------------------------------------------------------------------------------------
    def call_hook(self, eng, st, name, args_n, n):
        line = n.get('line')
        if name == 'PyType_HasFeature':
            (s1, t), = eng.ev(args_n[0], st)
            (s2, flag), = eng.ev(args_n[1], s1)
            flag = z3.simplify(flag)
            if not (z3.is_int_value(flag) and flag.as_long() == TUPLE_SUBCLASS):
                raise Unsupported('PyType_HasFeature with another flag')
            return [(s2, z3.If(T.nt_tuple_subclass(self.ref(t)), z3.IntVal(1), z3.IntVal(0)))]
        if name == 'PyObject_GetAttr':
            (s1, o), = eng.ev(args_n[0], st)
            (s2, nm), = eng.ev(args_n[1], s1)
            key = self.attr_name(nm)
            has = T.nt_has(self.ref(o), key)
            s_no = s2.clone()
            eng.assume(s_no, z3.Not(has))
            eng.assume(s2, has)
            outs = []
            if eng.feasible(s2):
                v = T.nt_attr(self.ref(o), key)
                s2.pc.append(v != NULL)
                s2.ghost['owned'] = s2.ghost['owned'] + (v,)
                outs.append((s2, v))
            if eng.feasible(s_no):
                s_no.ghost['pyerr'] = z3.BoolVal(True)
                outs.append((s_no, NULL))
            return outs
        if name == 'Py_IS_TYPE':
            (s1, o), = eng.ev(args_n[0], st)
            tn = next((d.name for d in eng.walk(args_n[1]) if d.k == 'DeclRefExpr'), None)
            if tn not in TYPE_CONST:
                raise Unsupported(f'Py_IS_TYPE against {tn}')
            return [(s1, z3.If(TYPE_CONST[tn](self.ref(o)), z3.IntVal(1), z3.IntVal(0)))]
        if name == 'PyCallable_Check':
            (s1, o), = eng.ev(args_n[0], st)
            return [(s1, z3.If(T.nt_callable(self.ref(o)), z3.IntVal(1), z3.IntVal(0)))]
        if name == 'Py_DECREF':
            (s1, o), = eng.ev(args_n[0], st)
            r = self.ref(o)
            owned = list(s1.ghost['owned'])
            hit = next((k for k, x in enumerate(owned) if x.eq(r)), None)
            eng.oblige(s1, 'IV', 'Py_DECREF:releases-a-reference-this-function-owns', z3.BoolVal(hit is not None), line)
            if hit is not None:
                owned.pop(hit)
            s1.ghost['owned'] = tuple(owned)
            return [(s1, None)]
        if name == 'Py_XDECREF':
            # Py_XDECREF(o): nothing for NULL, otherwise Py_DECREF(o)
            (s1, o), = eng.ev(args_n[0], st)
            r = self.ref(o)
            s_null = s1.clone()
            eng.assume(s_null, r == NULL)
            eng.assume(s1, r != NULL)
            outs = []
            if eng.feasible(s1):
                owned = list(s1.ghost['owned'])
                hit = next((k for k, x in enumerate(owned) if x.eq(r)), None)
                eng.oblige(s1, 'IV', 'Py_XDECREF:releases-a-reference-this-function-owns', z3.BoolVal(hit is not None), line)
                if hit is not None:
                    owned.pop(hit)
                s1.ghost['owned'] = tuple(owned)
                outs.append((s1, None))
            if eng.feasible(s_null):
                outs.append((s_null, None))
            return outs
        if name == 'PyObject_HasAttr':
            # PyObject_HasAttr(o, name): 1 / 0, never fails, leaves the error indicator as it was (A-CAPI)
            (s1, o), = eng.ev(args_n[0], st)
            (s2, nm), = eng.ev(args_n[1], s1)
            return [(s2, z3.If(T.nt_has(self.ref(o), self.attr_name(nm)), z3.IntVal(1), z3.IntVal(0)))]
        if name == 'PyErr_Clear':
            st.ghost['pyerr'] = z3.BoolVal(False)
            return [(st, None)]
        if name.startswith('Py_ID_'):
            return [(st, Opaque('pyid:' + name[len('Py_ID_'):]))]
        return None

    def ref(self, v):
        return v.ref if isinstance(v, PyObj) else v

    def attr_name(self, nm):
        if isinstance(nm, Opaque) and nm.tag.startswith('pyid:'):
            return T.nt_name(nm.tag[5:])
        raise Unsupported(f'attribute name {nm!r}')

    # -- loop over the fields ----------------------------------------------------------------------------------------
    def fields(self, cx):
        return T.nt_attr(cx.old('type').ref, T.nt_name('_fields'))

    def fields_inv(self, cx):
        f = self.fields(cx)
        idx = cx.var('field__idx')
        j = z3.Int('j!nt')
        return [('index-range', z3.And(0 <= idx, idx <= M.py_len(f))),
                ('fields_ok-still-true', cx.var('fields_ok')),
                ('all-fields-so-far-are-exact-strs', forall([j], z3.Implies(z3.And(0 <= j, j < idx), T.nt_exact_str(M.py_item(f, j))),
                                                             patterns=[M.py_item(f, j)]))]

    def fields_break(self, cx):
        f = self.fields(cx)
        idx = cx.pre.get('field__idx')
        return [('leaves-the-loop-early-only-at-a-field-that-is-not-an-exact-str',
                 z3.And(z3.Not(cx.var('fields_ok')), z3.Not(T.nt_exact_str(M.py_item(f, idx))), 0 <= idx, idx < M.py_len(f)))]

    def post(self, cx, ret):
        c = cx.old('type').ref
        return [('result-is-the-namedtuple-class-predicate', ret == T.NT_impl(c)),
                ('every-reference-obtained-is-released', z3.BoolVal(len(cx.st.ghost['owned']) == 0)),
                ('error-indicator-clear-on-return', z3.Not(cx.st.ghost['pyerr']))]

    def raises(self, cx):
        return {}

    def frame(self, cx, ret):
        return []


@contract
class NamedTupleGetFields(Contract):
    """NamedTupleGetFields(object): with C = object if it is a type else type(object): TypeError exactly when C is not a
    namedtuple class, otherwise getattr(C, '_fields').  IsNamedTupleClass (PyType_Check, then the cached Impl answer) is used
    through its summary: for a type object it returns NT_impl."""
    name = 'NamedTupleGetFields'
    this_is_spec = False
    props = ('C18',)

    def setup(self, eng, st, fn):
        cx = super().setup(eng, st, fn)
        st.facts.append(T.names_distinct())
        t = z3.Const('t!ty', Ref)
        # the type of an object is a type object (PyType_Check holds for it)
        st.facts.append(z3.ForAll([t], T.nt_is_type(M.py_type(t)), patterns=[M.py_type(t)]))
        # an exact tuple passes PyTuple_Check
        st.facts.append(z3.ForAll([t], z3.Implies(T.nt_exact_tuple(t), M.py_is_tuple(t)), patterns=[T.nt_exact_tuple(t)]))
        return cx

    def call_hook(self, eng, st, name, args_n, n):
        if name == 'PyType_Check':
            (s1, o), = eng.ev(args_n[0], st)
            r = o.ref if isinstance(o, PyObj) else o
            return [(s1, z3.If(T.nt_is_type(r), z3.IntVal(1), z3.IntVal(0)))]
        if name == 'IsNamedTupleClass':
            (s1, o), = eng.ev(args_n[0], st)
            r = o.ref if isinstance(o, PyObj) else o
            eng.may_call_python(s1, 'class predicate (getattr on the class)', n.get('line'))
            return [(s1, z3.And(T.nt_is_type(r), T.NT_impl(r)))]
        if name == 'getattr':
            (s1, o), = eng.ev(args_n[0], st)
            (s2, nm), = eng.ev(args_n[1], s1)
            if isinstance(nm, Opaque) and nm.tag == 'pyid:_fields':
                r = o.ref if isinstance(o, PyObj) else o
                eng.may_call_python(s2, 'getattr', n.get('line'))
                s_exc = s2.clone()
                eng.throw(s_exc, 'pybind11::error_already_set', n.get('line'), 'from getattr')
                return [(s2, PyObj(T.nt_attr(r, T.nt_name('_fields'))))]
        return None

    def C(self, cx):
        o = cx.old('object').ref
        return z3.If(T.nt_is_type(o), o, M.py_type(o))

    def raises(self, cx):
        return {'pybind11::type_error': z3.Not(T.NT(self.C(cx))), 'pybind11::error_already_set': None}

    def post(self, cx, ret):
        return [('returns-the-fields-of-the-class', ret.ref == T.nt_attr(self.C(cx), T.nt_name('_fields'))),
                ('only-for-namedtuple-classes', T.NT(self.C(cx)))]

    def frame(self, cx, ret):
        return []

    def frame_exc(self, cx):
        return []


def _ntfields_apply(self, eng, st, this, args, n):
    """Call-site summary of NamedTupleGetFields (its proved contract): TypeError unless the class is a namedtuple class,
    otherwise its `_fields` (an exact tuple)."""
    line = n.get('line')
    o = args[0]
    r = o.ref if isinstance(o, PyObj) else o
    eng.may_call_python(st, 'class predicate / getattr (NamedTupleGetFields)', line)
    for cls in ('pybind11::type_error', 'pybind11::error_already_set'):
        s_exc = st.clone()
        eng.throw(s_exc, cls, line, 'from NamedTupleGetFields')
    C = z3.If(T.nt_is_type(r), r, M.py_type(r))
    f = T.nt_attr(C, T.nt_name('_fields'))
    st.pc.append(z3.And(T.NT(C), f != NULL, M.py_is_tuple(f)))
    return [(st, PyObj(f, stable=True))]


NamedTupleGetFields.apply = _ntfields_apply


@contract
class StructSequenceGetFieldsSummary(Contract):
    """External summary (the function is not under contract): returns a new tuple of field names or raises."""
    name = 'StructSequenceGetFields'
    this_is_spec = False
    external_summary = True

    def apply(self, eng, st, this, args, n):
        line = n.get('line')
        eng.may_call_python(st, 'class predicate / getattr (StructSequenceGetFields)', line)
        for cls in ('pybind11::type_error', 'pybind11::error_already_set'):
            s_exc = st.clone()
            eng.throw(s_exc, cls, line, 'from StructSequenceGetFields')
        o = args[0]
        r = o.ref if isinstance(o, PyObj) else o
        f = z3.Function('structseq_fields_of', Ref, Ref)(z3.If(T.nt_is_type(r), r, M.py_type(r)))
        st.pc.append(z3.And(f != NULL, M.py_is_tuple(f)))
        return [(st, PyObj(f, stable=True))]


# ---- struct sequence classes ---------------------------------------------------------------------------------------------
BASETYPE = 1 << 10


@contract
class IsStructSequenceClassImpl(IsNamedTupleClassImpl):
    """IsStructSequenceClassImpl(type) against the shared predicate SS_impl (ocv/twinspec.py).  Additional raw CPython
    accesses, used through their documented meaning (A-CAPI):
      PyType_FastSubclass(t, Py_TPFLAGS_TUPLE_SUBCLASS) / PyType_HasFeature(t, Py_TPFLAGS_BASETYPE) -> flag tests
      t->tp_bases -> the bases tuple (or NULL);  PyTuple_CheckExact / PyTuple_GET_SIZE / PyTuple_GET_ITEM on it
      PyLong_CheckExact(v) -> type(v) is int;  &PyTuple_Type -> the object `tuple`.
    The loop over the three attribute names iterates a literal list and is unrolled exactly."""
    name = 'IsStructSequenceClassImpl'
    this_is_spec = False
    props = ('C18', 'C15', 'C16')

    def __init__(self):
        self.loops = {}

    def setup(self, eng, st, fn):
        cx = super().setup(eng, st, fn)
        st.facts.append(T.ss_names_distinct())
        return cx

    def call_hook(self, eng, st, name, args_n, n):
        if name in ('PyType_FastSubclass', 'PyType_HasFeature'):
            (s1, t), = eng.ev(args_n[0], st)
            (s2, flag), = eng.ev(args_n[1], s1)
            flag = z3.simplify(flag)
            if not z3.is_int_value(flag):
                raise Unsupported(f'{name} with a symbolic flag')
            pred = {TUPLE_SUBCLASS: T.nt_tuple_subclass, BASETYPE: T.ss_basetype, 1 << 24: T.ss_is_int}.get(flag.as_long())
            if pred is None:
                raise Unsupported(f'{name} with flag {flag}')
            return [(s2, z3.If(pred(self.ref(t)), z3.IntVal(1), z3.IntVal(0)))]
        if name == 'PyTuple_CheckExact':
            (s1, o), = eng.ev(args_n[0], st)
            return [(s1, z3.If(T.nt_exact_tuple(self.ref(o)), z3.IntVal(1), z3.IntVal(0)))]
        if name == 'PyLong_CheckExact':
            (s1, o), = eng.ev(args_n[0], st)
            return [(s1, z3.If(T.ss_exact_int(self.ref(o)), z3.IntVal(1), z3.IntVal(0)))]
        if name == 'PyTuple_GET_SIZE':
            (s1, o), = eng.ev(args_n[0], st)
            eng.oblige(s1, 'IV', 'PyTuple_GET_SIZE:argument-is-a-tuple', T.nt_exact_tuple(self.ref(o)), n.get('line'))
            return [(s1, M.py_len(self.ref(o)))]
        if name == 'PyTuple_GET_ITEM':
            (s1, o), = eng.ev(args_n[0], st)
            (s2, i), = eng.ev(args_n[1], s1)
            eng.oblige(s2, 'IV', 'PyTuple_GET_ITEM:index-in-range',
                       z3.And(T.nt_exact_tuple(self.ref(o)), 0 <= i, i < M.py_len(self.ref(o))), n.get('line'))
            return [(s2, M.py_item(self.ref(o), i))]
        return super().call_hook(eng, st, name, args_n, n)

    def member_hook(self, eng, st, base, name, n):
        if name == 'tp_bases' and isinstance(base, PyObj):
            return T.ss_bases(base.ref)
        return None

    def post(self, cx, ret):
        c = cx.old('type').ref
        return [('result-is-the-struct-sequence-class-predicate', ret == T.SS_impl(c)),
                ('every-reference-obtained-is-released', z3.BoolVal(len(cx.st.ghost['owned']) == 0)),
                ('error-indicator-clear-on-return', z3.Not(cx.st.ghost['pyerr']))]


# ---- struct sequence field names -------------------------------------------------------------------------------------------
ss_n_members = z3.Function('ss_n_members', Ref, Int)       # number of entries of tp_members before the {NULL} terminator
ss_member_name = z3.Function('ss_member_name', Ref, Int, Ref)   # str(tp_members[i].name)


class MemberTable:
    """`type->tp_members`: a NULL-terminated PyMemberDef array (or NULL); entry i may be read for 0 <= i <= ss_n_members."""
    def __init__(self, cls, null):
        self.cls, self.null = cls, null


class MemberEntry:
    def __init__(self, cls, idx):
        self.cls, self.idx = cls, idx


@contract
class StructSequenceGetFieldsImpl(Contract):
    """StructSequenceGetFieldsImpl(type) (CPython branch): the first min(n, M) member names for n >= 0, the first max(M + n, 0)
    for n < 0 (Python's `names[:n]`), where n = int(type.n_sequence_fields) read now and M = the number of entries of
    tp_members; every read of the member table stays inside it (terminator included) - C16."""
    name = 'StructSequenceGetFieldsImpl'
    this_is_spec = False
    sized_container_obligation = True
    props = ('C16', 'C18')

    def __init__(self):
        self.loops = {0: Loop(self.count_inv), 1: Loop(self.fill_inv)}

    def setup(self, eng, st, fn):
        cx = super().setup(eng, st, fn)
        c = st.get('type').ref
        self.cls = c
        self.tbl_null = z3.Bool('tp_members_is_null')
        st.facts.append(ss_n_members(c) >= 0)
        st.facts.append(z3.Implies(self.tbl_null, ss_n_members(c) == 0))
        # the loop variables are found by role, not by name (a renamed local must not break the invariants)
        self.counter, self.index, self.bound = 'n_members', 'i', 'n_sequence_fields'
        for d in eng.walk(fn):
            if d.k == 'WhileStmt':
                inc = next((u for u in eng.walk(d) if u.k == 'UnaryOperator' and u.get('op') == '++'), None)
                ref = next((r for r in eng.walk(inc) if r.k == 'DeclRefExpr'), None) if inc is not None else None
                if ref is not None and ref.name:
                    self.counter = ref.name
            if d.k == 'ForStmt':
                var = next((v for v in eng.walk(d.c[0]) if v.k == 'VarDecl'), None) if d.c else None
                if var is not None and var.name:
                    self.index = var.name
                    cond = next((b for b in eng.walk(d) if b.k == 'BinaryOperator' and b.get('op') in ('<', '!=')), None)
                    refs = [r.name for r in eng.walk(cond) if r.k == 'DeclRefExpr' and r.name != var.name] if cond is not None else []
                    if refs:
                        self.bound = refs[0]
        return cx

    def member_hook(self, eng, st, base, name, n):
        if name == 'tp_members' and isinstance(base, PyObj):
            return MemberTable(base.ref, self.tbl_null)
        if name == 'name' and isinstance(base, MemberEntry):
            line = n.get('line') if n else 0
            eng.oblige(st, 'II', 'tp_members:entry-read-is-inside-the-table-or-its-terminator',
                       z3.And(z3.Not(self.tbl_null), 0 <= base.idx, base.idx <= ss_n_members(base.cls)), line)
            return ('member-name', base.cls, base.idx)
        return None

    def call_hook(self, eng, st, name, args_n, n):
        if name == 'getattr':
            # py::getattr(type, <interned name>): the class attribute as it is now (A-ATTR), or the lookup raises
            (s1, o), = eng.ev(args_n[0], st)
            (s2, nm), = eng.ev(args_n[1], s1)
            if isinstance(nm, Opaque) and nm.tag.startswith('pyid:'):
                r = o.ref if isinstance(o, PyObj) else o
                eng.may_call_python(s2, 'getattr', n.get('line'))
                s_exc = s2.clone()
                eng.throw(s_exc, 'pybind11::error_already_set', n.get('line'), 'from getattr')
                v = T.nt_attr(r, T.nt_name(nm.tag[5:]))
                s2.pc.append(v != NULL)
                return [(s2, PyObj(v))]
        if name in ('max', 'min') and len(args_n) == 2:
            from ..cxx.symex import as_int
            (s1, a), = eng.ev(args_n[0], st)
            (s2, b), = eng.ev(args_n[1], s1)
            a, b = as_int(a), as_int(b)
            return [(s2, z3.If(a >= b, a, b) if name == 'max' else z3.If(a <= b, a, b))]
        return None

    def on_str_from_value(self, eng, st, v, line, oblige=True):
        if isinstance(v, tuple) and v and v[0] == 'member-name':
            if oblige:
                eng.oblige(st, 'II', 'py::str(member.name):the-name-is-not-the-NULL-of-the-terminator',
                           z3.And(0 <= v[2], v[2] < ss_n_members(v[1])), line)
            return PyObj(ss_member_name(v[1], v[2]), fresh=True, stable=True)
        return None

    def equal_hook(self, eng, st, a, b):
        from ..cxx.symex import Ptr
        for x, y in ((a, b), (b, a)):
            if isinstance(y, Ptr) and y.oid is None:
                if isinstance(x, MemberTable):
                    return x.null
                if isinstance(x, tuple) and x and x[0] == 'member-name':
                    return x[2] == ss_n_members(x[1])       # the terminator is the only entry with a NULL name
        return None

    def subscript_hook(self, eng, st, base, idx, n):
        if isinstance(base, MemberTable):
            from ..cxx.symex import as_int
            return MemberEntry(base.cls, as_int(idx))
        return None

    def count_inv(self, cx):
        k = cx.var(self.counter)
        return [('count-in-range', z3.And(0 <= k, k <= ss_n_members(self.cls))), ('table-not-null', z3.Not(self.tbl_null))]

    def fill_inv(self, cx):
        i = cx.var(self.index)
        return [('index-in-range', z3.And(0 <= i, i <= cx.var(self.bound)))]

    def post(self, cx, ret):
        n0 = M.py_as_int(T.nt_attr(self.cls, T.nt_name('n_sequence_fields')))
        m = ss_n_members(self.cls)
        want = z3.If(n0 < 0, z3.If(m + n0 >= 0, m + n0, 0), z3.If(n0 <= m, n0, m))
        return [('result-length-is-within-the-member-table', z3.And(0 <= M.py_len(ret.ref), M.py_len(ret.ref) <= m)),
                ('result-length-is-that-of-the-slice-names[:n_sequence_fields]', M.py_len(ret.ref) == want)]

    def raises(self, cx):
        return {'pybind11::error_already_set': None, 'pybind11::cast_error': None}

    def frame(self, cx, ret):
        return []

    def frame_exc(self, cx):
        return []
