"""Contracts: engine twins of optree/typing.py (C18): IsNamedTupleClassImpl against the shared predicate NT (ocv/twinspec.py).

The raw CPython calls of this helper are used through their documented contracts (A-CAPI):
  PyObject_GetAttr(o, name)  -> new reference to the attribute, or NULL with the error indicator set
  Py_IS_TYPE(o, &T)          -> exact type test;  PyType_HasFeature(t, Py_TPFLAGS_TUPLE_SUBCLASS) -> tuple subclass flag
  PyCallable_Check(o)        -> callable(o);  Py_DECREF(o) releases one reference;  PyErr_Clear() clears the indicator."""
import z3

from .. import twinspec as T
from ..cxx import model as M
from ..cxx.contract import Contract, Loop, contract, forall
from ..cxx.model import NULL, Bool, Int, Ref, Str, Opaque, PyObj, fresh
from ..cxx.symex import Unsupported

TUPLE_SUBCLASS = 1 << 26
TYPE_CONST = {'PyTuple_Type': T.nt_exact_tuple, 'PyUnicode_Type': T.nt_exact_str}


@contract
class IsNamedTupleClassImpl(Contract):
    name = 'IsNamedTupleClassImpl'
    this_is_spec = False
    props = ('C18',)

    def __init__(self):
        self.loops = {0: Loop(self.fields_inv, index='field__idx', break_post=self.fields_break)}

    def setup(self, eng, st, fn):
        cx = super().setup(eng, st, fn)
        st.facts.append(T.names_distinct())
        st.ghost['owned'] = ()          # references obtained from PyObject_GetAttr and not yet released
        st.ghost['pyerr'] = z3.BoolVal(False)
        return cx

    # -- external contracts -------------------------------------------------------------------------------------------
    def call_hook(self, eng, st, name, args_n, n):
        line = n.get('line')
        if name == 'PyType_HasFeature':
            (s1, t), = eng.ev(args_n[0], st)
            (s2, flag), = eng.ev(args_n[1], s1)
            flag = z3.simplify(flag)
            if not (z3.is_int_value(flag) and flag.as_long() == TUPLE_SUBCLASS):
                raise Unsupported('PyType_HasFeature with another flag')
            return [(s2, z3.If(T.nt_tuple_subclass(self.ref(t)), z3.IntVal(1), z3.IntVal(0)))]
        if name == 'PyObject_GetAttr':
            (s1, o), = eng.ev(args_n[0], st)
            (s2, nm), = eng.ev(args_n[1], s1)
            key = self.attr_name(nm)
            has = T.nt_has(self.ref(o), key)
            s_no = s2.clone()
            eng.assume(s_no, z3.Not(has))
            eng.assume(s2, has)
            outs = []
            if eng.feasible(s2):
                v = T.nt_attr(self.ref(o), key)
                s2.pc.append(v != NULL)
                s2.ghost['owned'] = s2.ghost['owned'] + (v,)
                outs.append((s2, v))
            if eng.feasible(s_no):
                s_no.ghost['pyerr'] = z3.BoolVal(True)
                outs.append((s_no, NULL))
            return outs
        if name == 'Py_IS_TYPE':
            (s1, o), = eng.ev(args_n[0], st)
            tn = next((d.name for d in eng.walk(args_n[1]) if d.k == 'DeclRefExpr'), None)
            if tn not in TYPE_CONST:
                raise Unsupported(f'Py_IS_TYPE against {tn}')
            return [(s1, z3.If(TYPE_CONST[tn](self.ref(o)), z3.IntVal(1), z3.IntVal(0)))]
        if name == 'PyCallable_Check':
            (s1, o), = eng.ev(args_n[0], st)
            return [(s1, z3.If(T.nt_callable(self.ref(o)), z3.IntVal(1), z3.IntVal(0)))]
        if name == 'Py_DECREF':
            (s1, o), = eng.ev(args_n[0], st)
            r = self.ref(o)
            owned = list(s1.ghost['owned'])
            hit = next((k for k, x in enumerate(owned) if x.eq(r)), None)
            eng.oblige(s1, 'IV', 'Py_DECREF:releases-a-reference-this-function-owns', z3.BoolVal(hit is not None), line)
            if hit is not None:
                owned.pop(hit)
            s1.ghost['owned'] = tuple(owned)
            return [(s1, None)]
        if name == 'PyErr_Clear':
            st.ghost['pyerr'] = z3.BoolVal(False)
            return [(st, None)]
        if name.startswith('Py_ID_'):
            return [(st, Opaque('pyid:' + name[len('Py_ID_'):]))]
        return None

    def ref(self, v):
        return v.ref if isinstance(v, PyObj) else v

    def attr_name(self, nm):
        if isinstance(nm, Opaque) and nm.tag.startswith('pyid:'):
            return T.nt_name(nm.tag[5:])
        raise Unsupported(f'attribute name {nm!r}')

    # -- loop over the fields ----------------------------------------------------------------------------------------
    def fields(self, cx):
        return T.nt_attr(cx.old('type').ref, T.nt_name('_fields'))

    def fields_inv(self, cx):
        f = self.fields(cx)
        idx = cx.var('field__idx')
        j = z3.Int('j!nt')
        return [('index-range', z3.And(0 <= idx, idx <= M.py_len(f))),
                ('fields_ok-still-true', cx.var('fields_ok')),
                ('all-fields-so-far-are-exact-strs', forall([j], z3.Implies(z3.And(0 <= j, j < idx), T.nt_exact_str(M.py_item(f, j))),
                                                             patterns=[M.py_item(f, j)]))]

    def fields_break(self, cx):
        f = self.fields(cx)
        idx = cx.pre.get('field__idx')
        return [('leaves-the-loop-early-only-at-a-field-that-is-not-an-exact-str',
                 z3.And(z3.Not(cx.var('fields_ok')), z3.Not(T.nt_exact_str(M.py_item(f, idx))), 0 <= idx, idx < M.py_len(f)))]

    def post(self, cx, ret):
        c = cx.old('type').ref
        return [('result-is-the-namedtuple-class-predicate', ret == T.NT_impl(c)),
                ('every-reference-obtained-is-released', z3.BoolVal(len(cx.st.ghost['owned']) == 0)),
                ('error-indicator-clear-on-return', z3.Not(cx.st.ghost['pyerr']))]

    def raises(self, cx):
        return {}

    def frame(self, cx, ret):
        return []


@contract
class NamedTupleGetFields(Contract):
    """NamedTupleGetFields(object): with C = object if it is a type else type(object): TypeError exactly when C is not a
    namedtuple class, otherwise getattr(C, '_fields').  IsNamedTupleClass (PyType_Check, then the cached Impl answer) is used
    through its summary: for a type object it returns NT_impl."""
    name = 'NamedTupleGetFields'
    this_is_spec = False
    props = ('C18',)

    def setup(self, eng, st, fn):
        cx = super().setup(eng, st, fn)
        st.facts.append(T.names_distinct())
        t = z3.Const('t!ty', Ref)
        # the type of an object is a type object (PyType_Check holds for it)
        st.facts.append(z3.ForAll([t], T.nt_is_type(M.py_type(t)), patterns=[M.py_type(t)]))
        # an exact tuple passes PyTuple_Check
        st.facts.append(z3.ForAll([t], z3.Implies(T.nt_exact_tuple(t), M.py_is_tuple(t)), patterns=[T.nt_exact_tuple(t)]))
        return cx

    def call_hook(self, eng, st, name, args_n, n):
        if name == 'PyType_Check':
            (s1, o), = eng.ev(args_n[0], st)
            r = o.ref if isinstance(o, PyObj) else o
            return [(s1, z3.If(T.nt_is_type(r), z3.IntVal(1), z3.IntVal(0)))]
        if name == 'IsNamedTupleClass':
            (s1, o), = eng.ev(args_n[0], st)
            r = o.ref if isinstance(o, PyObj) else o
            eng.may_call_python(s1, 'class predicate (getattr on the class)', n.get('line'))
            return [(s1, z3.And(T.nt_is_type(r), T.NT_impl(r)))]
        if name == 'getattr':
            (s1, o), = eng.ev(args_n[0], st)
            (s2, nm), = eng.ev(args_n[1], s1)
            if isinstance(nm, Opaque) and nm.tag == 'pyid:_fields':
                r = o.ref if isinstance(o, PyObj) else o
                eng.may_call_python(s2, 'getattr', n.get('line'))
                s_exc = s2.clone()
                eng.throw(s_exc, 'pybind11::error_already_set', n.get('line'), 'from getattr')
                return [(s2, PyObj(T.nt_attr(r, T.nt_name('_fields'))))]
        return None

    def C(self, cx):
        o = cx.old('object').ref
        return z3.If(T.nt_is_type(o), o, M.py_type(o))

    def raises(self, cx):
        return {'pybind11::type_error': z3.Not(T.NT(self.C(cx))), 'pybind11::error_already_set': None}

    def post(self, cx, ret):
        return [('returns-the-fields-of-the-class', ret.ref == T.nt_attr(self.C(cx), T.nt_name('_fields'))),
                ('only-for-namedtuple-classes', T.NT(self.C(cx)))]

    def frame(self, cx, ret):
        return []

    def frame_exc(self, cx):
        return []


def _ntfields_apply(self, eng, st, this, args, n):
    """Call-site summary of NamedTupleGetFields (its proved contract): TypeError unless the class is a namedtuple class,
    otherwise its `_fields` (an exact tuple)."""
    line = n.get('line')
    o = args[0]
    r = o.ref if isinstance(o, PyObj) else o
    eng.may_call_python(st, 'class predicate / getattr (NamedTupleGetFields)', line)
    for cls in ('pybind11::type_error', 'pybind11::error_already_set'):
        s_exc = st.clone()
        eng.throw(s_exc, cls, line, 'from NamedTupleGetFields')
    C = z3.If(T.nt_is_type(r), r, M.py_type(r))
    f = T.nt_attr(C, T.nt_name('_fields'))
    st.pc.append(z3.And(T.NT(C), f != NULL, M.py_is_tuple(f)))
    return [(st, PyObj(f, stable=True))]


NamedTupleGetFields.apply = _ntfields_apply


@contract
class StructSequenceGetFieldsSummary(Contract):
    """External summary (the function is not under contract): returns a new tuple of field names or raises."""
    name = 'StructSequenceGetFields'
    this_is_spec = False
    external_summary = True

    def apply(self, eng, st, this, args, n):
        line = n.get('line')
        eng.may_call_python(st, 'class predicate / getattr (StructSequenceGetFields)', line)
        for cls in ('pybind11::type_error', 'pybind11::error_already_set'):
            s_exc = st.clone()
            eng.throw(s_exc, cls, line, 'from StructSequenceGetFields')
        o = args[0]
        r = o.ref if isinstance(o, PyObj) else o
        f = z3.Function('structseq_fields_of', Ref, Ref)(z3.If(T.nt_is_type(r), r, M.py_type(r)))
        st.pc.append(z3.And(f != NULL, M.py_is_tuple(f)))
        return [(st, PyObj(f, stable=True))]
