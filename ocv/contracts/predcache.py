"""Contracts: the cached class predicates IsNamedTupleClass / IsStructSequenceClass of pytypes.h (C17, C18).

    answer(t) := PyType_Check(t) and Impl(t)          Impl = IsNamedTupleClassImpl / IsStructSequenceClassImpl (their own contracts)

The per-process cache (std::unordered_map<py::handle, bool>, guarded by a read-write mutex) is a ghost map with the coherence
invariant   forall t. t in cache ==> cache[t] == Impl(t).   It is assumed on entry and must hold
  * on every exit, and
  * at every point where other code can observe the cache: whenever Python code may run (the Impl call looks attributes up on
    the class: a metaclass __getattribute__ may re-enter the engine or let another thread run) - obligation
    `cache-coherent-while-python-code-runs`.
Hence no provisional entry may ever be published.  An entry must not outlive its class (the address can be reused by another
class): every entry this activation adds gets its eviction callback in the same activation (`every-new-cache-entry-gets-an-
eviction-callback`, normal return only: a failing weak-reference creation is out of scope).  Every access happens under the mutex (lockset obligations of the map), no
lock is held while Impl runs (L1).  A-ATTR (DESIGN 8.6): Impl(t) is a function of the class.  The weak reference that evicts
the entry when the class dies is created through pybind11 (py::weakref / py::cpp_function: external, the callback body - erase
under the write lock - is not executed here)."""
import z3

from ..cxx import model as M
from ..cxx.absmap import AbsMap
from ..cxx.contract import Contract, contract
from ..cxx.model import NULL, Bool, Int, Ref, Opaque, Ptr, PyObj, fresh
from .registry import class_predicate_apply, is_namedtuple_class, is_structseq_class

py_type_check = z3.Function('PyType_Check', Ref, Bool)


class CachedPredicate(Contract):
    this_is_spec = False
    props = ('C17', 'C18')
    impl = ''
    impl_result = None           # Ref -> Bool: what Impl answers for the class (A-ATTR)
    answer = None                # Ref -> Bool: the vocabulary used by callers (registry / flatten contracts)

    def setup(self, eng, st, fn):
        cx = super().setup(eng, st, fn)
        m = AbsMap.symbolic('cache', [Ref], valued=True, guard='mutex')
        m = AbsMap(m.has, z3.Const('cache.val', z3.ArraySort(Ref, Bool)), 1, 'cache', 'mutex')
        self.cache_oid = st.alloc(m)
        st.facts.append(self.coherent(st))
        t = z3.Const('t!ans', Ref)
        st.facts.append(z3.ForAll([t], self.answer(t) == z3.And(py_type_check(t), self.impl_result(t)), patterns=[self.answer(t)]))
        st.ghost['weakref_for'] = None          # the object for which an eviction callback was registered in this activation
        st.ghost['cache_size'] = fresh('cache_size', Int)
        st.facts.append(st.ghost['cache_size'] >= 0)
        return cx

    def coherent(self, st):
        m = st.heap[self.cache_oid]
        t = z3.Const('t!coh', Ref)
        return z3.ForAll([t], z3.Implies(m.contains((t,)), m.get((t,)) == self.impl_result(t)))

    # -- statics, external calls ---------------------------------------------------------------------------------------
    def static_var(self, eng, st, name, d):
        if name == 'cache':
            return Ptr(self.cache_oid)
        if name == 'mutex':
            return Opaque('static:mutex')
        return None

    def method(self, eng, st, base, name, A, n):
        if isinstance(base, Ptr) and base.oid == self.cache_oid and name == 'size':
            eng.oblige(st, 'IV', 'L2:lockset:cache.size-under-mutex', z3.BoolVal('mutex' in st.ghost['locks']), n.get('line'))
            return [(st, st.ghost['cache_size'])]
        return None

    def call_hook(self, eng, st, name, args_n, n):
        line = n.get('line')
        if name == 'PyType_Check':
            (s1, o), = eng.ev(args_n[0], st)
            r = o.ref if isinstance(o, PyObj) else o
            return [(s1, z3.If(py_type_check(r), z3.IntVal(1), z3.IntVal(0)))]
        if name == self.impl:
            (s1, o), = eng.ev(args_n[0], st)
            r = o.ref if isinstance(o, PyObj) else o
            # the Impl contract: looks attributes up on the class (Python code may run), never raises, answers Impl(t)
            eng.may_call_python(s1, f'{self.impl} (attribute lookups on the class)', line)
            return [(s1, self.impl_result(r))]
        return None

    def on_weakref(self, eng, st, vals, n):
        v = vals[0]
        st.ghost['weakref_for'] = v.ref if isinstance(v, PyObj) else v

    def on_python_call(self, eng, st, what, line):
        eng.oblige(st, 'III', 'cache-coherent-while-python-code-runs', self.coherent(st), line)

    # -- contract ----------------------------------------------------------------------------------------------------------
    def post(self, cx, ret):
        t = cx.old('type').ref
        a, b = cx.entry.heap[self.cache_oid], cx.st.heap[self.cache_oid]
        w = cx.st.ghost.get('weakref_for')
        return [('answers-PyType_Check-and-Impl', ret == self.answer(t)),
                # an entry must not outlive its class: the address may be reused by another class (C01 / C18)
                ('every-new-cache-entry-gets-an-eviction-callback',
                 z3.Implies(z3.And(b.contains((t,)), z3.Not(a.contains((t,)))), z3.BoolVal(w is not None and w.eq(t)))),
                ('cache-coherent-on-return', self.coherent(cx.st)),
                ('no-lock-held-on-return', z3.BoolVal(not cx.st.ghost['locks']))]

    def frame(self, cx, ret):
        a, b = cx.entry.heap[self.cache_oid], cx.st.heap[self.cache_oid]
        t = cx.old('type').ref
        u = z3.Const('u!fr', Ref)
        return [('only-the-entry-of-this-class-changes',
                 z3.ForAll([u], z3.Implies(u != t, z3.And(a.contains((u,)) == b.contains((u,)), a.get((u,)) == b.get((u,))))))]

    def frame_exc(self, cx):
        return self.frame(cx, None) + [('cache-coherent-on-exception', self.coherent(cx.st))]

    def raises(self, cx):
        return {'pybind11::error_already_set': None}


@contract
class IsNamedTupleClassCached(CachedPredicate):
    name = 'IsNamedTupleClass'
    impl = 'IsNamedTupleClassImpl'
    impl_result = staticmethod(z3.Function('IsNamedTupleClassImpl_result', Ref, Bool))
    answer = staticmethod(is_namedtuple_class)
    apply = class_predicate_apply(is_namedtuple_class)


@contract
class IsStructSequenceClassCached(CachedPredicate):
    name = 'IsStructSequenceClass'
    impl = 'IsStructSequenceClassImpl'
    impl_result = staticmethod(z3.Function('IsStructSequenceClassImpl_result', Ref, Bool))
    answer = staticmethod(is_structseq_class)
    apply = class_predicate_apply(is_structseq_class)
