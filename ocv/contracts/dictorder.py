"""Contracts: the insertion-ordered-dict mode set Omega (C13) and the comparison operators (C06, C07)."""
import z3

from ..cxx import model as M
from ..cxx.absmap import AbsMap
from ..cxx.contract import Contract, contract
from ..cxx.model import EMPTY, Bool, Ref, Str, Opaque, Ptr, PyObj


class OmegaMixin:
    this_is_spec = False

    def setup(self, eng, st, fn):
        self.omega = st.alloc(AbsMap.symbolic('Omega', [Str], valued=False, guard='sm_is_dict_insertion_ordered_mutex'))
        return super().setup(eng, st, fn)

    def global_value(self, eng, name, n):
        if name == 'sm_is_dict_insertion_ordered':
            return Ptr(self.omega)
        if name == 'sm_is_dict_insertion_ordered_mutex':
            return Opaque('mutex:' + name)
        return None

    def om(self, st):
        return st.heap[self.omega]


@contract
class IsDictInsertionOrdered(OmegaMixin, Contract):
    name = 'optree::PyTreeSpec::IsDictInsertionOrdered'
    props = ('C13',)
    static = True

    def post(self, cx, ret):
        om = self.om(cx.entry)
        ns, inherit = cx.old('registry_namespace'), cx.old('inherit_global_namespace')
        return [('namespace-in-mode-set-or-inherited-global', ret == z3.Or(om.contains((ns,)),
                                                                            z3.And(inherit, om.contains((EMPTY,)))))]

    def frame(self, cx, ret):
        return [('mode-set-unchanged', self.om(cx.entry).has == self.om(cx.st).has)]

    def apply(self, eng, st, this, args, n):
        owner = eng.cur_contract
        hook = getattr(owner, 'on_mode_query', None)
        if hook:
            hook(eng, st, args, n)
        if not hasattr(owner, 'omega'):
            # a caller whose contract does not talk about the mode set: the answer is some function of the (unknown) set
            mode_of = z3.Function('namespace_is_insertion_ordered_at', Str, z3.IntSort(), z3.BoolSort())
            inherit = args[1] if len(args) > 1 and not isinstance(args[1], Opaque) else z3.BoolVal(True)
            e = z3.IntVal(st.ghost['epoch'])
            return [(st, z3.Or(mode_of(args[0], e), z3.And(inherit, mode_of(EMPTY, e))))]
        om = st.heap[owner.omega]
        inherit = args[1] if len(args) > 1 and not isinstance(args[1], Opaque) else z3.BoolVal(True)
        return [(st, z3.Or(om.contains((args[0],)), z3.And(inherit, om.contains((EMPTY,)))))]


@contract
class SetDictInsertionOrdered(OmegaMixin, Contract):
    name = 'optree::PyTreeSpec::SetDictInsertionOrdered'
    props = ('C13',)
    static = True

    def post(self, cx, ret):
        a, b = self.om(cx.entry), self.om(cx.st)
        ns, mode = cx.old('registry_namespace'), cx.old('mode')
        s = z3.Const('s!om', Str)
        return [('namespace-added-or-removed', b.contains((ns,)) == mode),
                ('other-namespaces-untouched', z3.ForAll([s], z3.Implies(s != ns, a.contains((s,)) == b.contains((s,)))))]

    def frame(self, cx, ret):
        return []


class Delegation(Contract):
    """Comparison operators: pure delegation to EqualTo / IsPrefix (checked as: the result *is* the callee's result,
    with the documented argument order and strictness)."""
    props = ('C06', 'C07')
    inline = True
    target = ''          # callee
    negate = False
    swap = False         # other.IsPrefix(*this, ...)
    strict = None

    def setup(self, eng, st, fn):
        self.calls = []
        return super().setup(eng, st, fn)

    def post(self, cx, ret):
        ok = len(self.calls) == 1
        out = [('delegates-exactly-once', z3.BoolVal(ok))]
        if ok:
            recv, arg, strict, res = self.calls[0]
            this, other = cx.st.this, cx.old('other')
            out.append(('receiver-and-argument-order', z3.BoolVal((recv, arg) == ((other, this) if self.swap else (this, other)))))
            if self.strict is not None:
                out.append(('strictness', strict == (cx.old('strict') if self.strict == 'param' else z3.BoolVal(self.strict))))
            out.append(('result', ret == (z3.Not(res) if self.negate else res)))
        return out

    def frame(self, cx, ret):
        return []


def delegate_apply(label):
    def apply(self, eng, st, this, args, n):
        cur = eng.cur_contract
        r = z3.Bool(f'{label}_result!{len(getattr(cur, "calls", []))}')
        strict = args[1] if len(args) > 1 and not isinstance(args[1], Opaque) else z3.BoolVal(False)
        if hasattr(cur, 'calls'):
            cur.calls.append((this, args[0], strict, r))
        return [(st, r)]
    return apply


def op(name, target, negate=False, swap=False, strict=None):
    cls = type('Op_' + str(abs(hash(name))), (Delegation,), dict(name=name, target=target, negate=negate, swap=swap, strict=strict))
    return contract(cls)


op('optree::PyTreeSpec::operator==', 'EqualTo')
op('optree::PyTreeSpec::operator!=', 'EqualTo', negate=True)
op('optree::PyTreeSpec::operator<', 'IsPrefix', strict=True)
op('optree::PyTreeSpec::operator<=', 'IsPrefix', strict=False)
op('optree::PyTreeSpec::operator>', 'IsPrefix', swap=True, strict=True)
op('optree::PyTreeSpec::operator>=', 'IsPrefix', swap=True, strict=False)
op('optree::PyTreeSpec::IsSuffix', 'IsPrefix', swap=True, strict='param')


from .equality import EqualTo  # noqa: E402

EqualTo.apply = delegate_apply('EqualTo')


@contract
class IsPrefixSummary(Contract):
    """Call-site summary only (the body of IsPrefix is covered by the bounded monitor, DESIGN.md C07)."""
    name = 'optree::PyTreeSpec::IsPrefix'
    props = ('C07',)
    summary_only = True
    apply = delegate_apply('IsPrefix')
