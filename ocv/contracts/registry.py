"""Contracts: PyTreeTypeRegistry (C12, C02, C17) and the dict-order mode set (C13)."""
import z3

from ..cxx import model as M
from ..cxx.absmap import AbsMap
from ..cxx.contract import Contract, Loop, contract
from ..cxx.model import EMPTY, KIND, NULL, PYNONE, Bool, Int, Ref, Str, Opaque, Ptr, PyObj, fresh
from ..cxx.symex import Unsupported

K = KIND
reg_ff = z3.Function('reg_flatten_func', Ref, Ref)
reg_uf = z3.Function('reg_unflatten_func', Ref, Ref)
is_structseq_class = z3.Function('is_structseq_class', Ref, Bool)
is_namedtuple_class = z3.Function('is_namedtuple_class', Ref, Bool)

MAPS = ('G_node', 'N_node', 'G_leaf', 'N_leaf')


class RegistryMixin:
    """Abstract registry state R = (G_v, N_v for v in {node, leaf}; B) of DESIGN.md 1.4, guarded by sm_mutex."""
    this_is_spec = False

    def setup_registry(self, eng, st):
        self.oids = {}
        for v in ('node', 'leaf'):
            self.oids[f'G_{v}'] = st.alloc(AbsMap.symbolic(f'G_{v}', [Ref], guard='sm_mutex'))
            self.oids[f'N_{v}'] = st.alloc(AbsMap.symbolic(f'N_{v}', [Str, Ref], guard='sm_mutex'))
        self.oids['B'] = st.alloc(AbsMap.symbolic('builtins', [Ref], valued=False, guard='sm_mutex'))
        self.recs = {v: st.alloc({'m_registrations': Ptr(self.oids[f'G_{v}']),
                                  'm_named_registrations': Ptr(self.oids[f'N_{v}'])}) for v in ('node', 'leaf')}
        st.facts += self.RI(st)

    def maps(self, st):
        return {k: st.heap[o] for k, o in self.oids.items()}

    def RI(self, st, with_patterns=True):
        """Registry invariant: the two variants hold the same custom registrations field-wise, every stored
        registration is non-null and describes its key, built-ins are registered globally."""
        m = self.maps(st)
        c = z3.Const('c!ri', Ref)
        s = z3.Const('s!ri', Str)

        def same(r1, r2):
            return z3.And(M.reg_type(r1) == M.reg_type(r2), reg_ff(r1) == reg_ff(r2), reg_uf(r1) == reg_uf(r2),
                          M.reg_pet(r1) == M.reg_pet(r2), M.reg_kind(r1) == M.reg_kind(r2))
        Gn, Gl, Nn, Nl, B = m['G_node'], m['G_leaf'], m['N_node'], m['N_leaf'], m['B']

        def pat(*ps):
            return list(ps) if with_patterns else []
        return [
            z3.ForAll([c], z3.Implies(z3.Not(B.contains((c,))), Gn.contains((c,)) == Gl.contains((c,))),
                      patterns=pat(Gn.contains((c,)))),
            z3.ForAll([c], z3.Implies(z3.And(Gn.contains((c,)), Gl.contains((c,))), same(Gn.get((c,)), Gl.get((c,)))),
                      patterns=pat(Gn.get((c,)))),
            z3.ForAll([c], z3.Implies(Gn.contains((c,)), z3.And(Gn.get((c,)) != NULL, M.reg_type(Gn.get((c,))) == c)),
                      patterns=pat(Gn.get((c,)))),
            z3.ForAll([c], z3.Implies(Gl.contains((c,)), z3.And(Gl.get((c,)) != NULL, M.reg_type(Gl.get((c,))) == c)),
                      patterns=pat(Gl.get((c,)))),
            z3.ForAll([c], z3.Implies(z3.And(Gn.contains((c,)), z3.Not(B.contains((c,)))),
                                      M.reg_kind(Gn.get((c,))) == K['Custom']), patterns=pat(Gn.get((c,)))),
            z3.ForAll([s, c], Nn.contains((s, c)) == Nl.contains((s, c)), patterns=pat(Nn.contains((s, c)))),
            z3.ForAll([s, c], z3.Implies(Nn.contains((s, c)),
                                         z3.And(same(Nn.get((s, c)), Nl.get((s, c))), Nn.get((s, c)) != NULL,
                                                Nl.get((s, c)) != NULL, M.reg_type(Nn.get((s, c))) == c,
                                                M.reg_kind(Nn.get((s, c))) == K['Custom'])),
                      patterns=pat(Nn.get((s, c)))),
        ]

    # hooks used by the engine
    def singleton(self, eng, st, targs):
        if not targs or not (z3.is_true(targs[0]) or z3.is_false(targs[0])):
            raise Unsupported('Singleton<NoneIsLeaf>() needs a concrete template argument (verify per instance)')
        return Ptr(self.recs['leaf' if z3.is_true(targs[0]) else 'node'])

    def global_value(self, eng, name, n):
        if name == 'sm_builtins_types':
            return Ptr(self.oids['B'])
        if name in ('sm_mutex',):
            return Opaque('mutex:' + name)
        if name in ('PyExc_UserWarning',):
            return PyObj(z3.Const('PyExc_UserWarning', Ref), stable=True)
        return None

    def unchanged(self, cx, names=MAPS + ('B',)):
        """Same mapping: same domain and same value for every present key (values of absent keys are unobservable)."""
        a, b = self.maps(cx.entry), self.maps(cx.st)
        c = z3.Const('c!u', Ref)
        s = z3.Const('s!u', Str)
        conj = []
        for k in names:
            if a[k].nkeys == 1:
                body = a[k].contains((c,)) == b[k].contains((c,))
                if a[k].val is not None:
                    body = z3.And(body, z3.Implies(a[k].contains((c,)), a[k].get((c,)) == b[k].get((c,))))
                conj.append(z3.ForAll([c], body))
            else:
                body = z3.And(a[k].contains((s, c)) == b[k].contains((s, c)),
                              z3.Implies(a[k].contains((s, c)), a[k].get((s, c)) == b[k].get((s, c))))
                conj.append(z3.ForAll([s, c], body))
        return z3.And(*conj)

    def key(self, cx, variant):
        cls = cx.old('cls').ref
        ns = cx.old('registry_namespace')
        return cls, ns


def class_predicate_apply(fn):
    def apply(self, eng, st, this, args, n):
        eng.may_call_python(st, f'{self.name} (attribute lookups on the class)', n.get('line'))
        o = args[0]
        ref = o.ref if isinstance(o, PyObj) else o
        return [(st, fn(ref))]
    return apply


# the contracts of IsNamedTupleClass / IsStructSequenceClass (cached class predicates) live in predcache.py


@contract
class Lookup(RegistryMixin, Contract):
    name = 'optree::PyTreeTypeRegistry::Lookup'
    props = ('C12', 'C02', 'C17')
    template_instances = [{'NoneIsLeaf': False}, {'NoneIsLeaf': True}]

    def setup(self, eng, st, fn):
        self.setup_registry(eng, st)
        return super().setup(eng, st, fn)

    def expected(self, cx, variant, cls, ns):
        m = self.maps(cx.entry)
        G, Nm = m[f'G_{variant}'], m[f'N_{variant}']
        return z3.If(z3.And(ns != EMPTY, Nm.contains((ns, cls))), Nm.get((ns, cls)),
                     z3.If(G.contains((cls,)), G.get((cls,)), NULL))

    def post(self, cx, ret):
        variant = 'leaf' if z3.is_true(cx.eng.template_env['NoneIsLeaf']) else 'node'
        cls, ns = cx.old('cls').ref, cx.old('registry_namespace')
        exp = self.expected(cx, variant, cls, ns)
        return [('namespace-entry-shadows-global-else-null', ret == exp),
                ('runs-no-python-code', z3.BoolVal(cx.st.ghost['trace'] == ()))]

    def frame(self, cx, ret):
        return [('registry-unchanged', self.unchanged(cx))]


def variant_of(cx):
    return 'leaf' if z3.is_true(cx.eng.template_env['NoneIsLeaf']) else 'node'


def registration_is(r, cls, ff, uf, pet):
    return z3.And(r != NULL, M.reg_kind(r) == K['Custom'], M.reg_type(r) == cls, reg_ff(r) == ff, reg_uf(r) == uf,
                  M.reg_pet(r) == pet)


@contract
class RegisterImpl(RegistryMixin, Contract):
    name = 'optree::PyTreeTypeRegistry::RegisterImpl'
    props = ('C12', 'C17')
    template_instances = [{'NoneIsLeaf': False}, {'NoneIsLeaf': True}]

    def setup(self, eng, st, fn):
        self.setup_registry(eng, st)
        cx = super().setup(eng, st, fn)
        st.ghost['locks'] = ('sm_mutex',)        # precondition: called with the registry lock held
        return cx

    def post(self, cx, ret):
        v = variant_of(cx)
        other = 'leaf' if v == 'node' else 'node'
        a, b = self.maps(cx.entry), self.maps(cx.st)
        cls, ns = cx.old('cls').ref, cx.old('registry_namespace')
        ff, uf, pet = cx.old('flatten_func').ref, cx.old('unflatten_func').ref, cx.old('path_entry_type').ref
        G0, N0, G1, N1 = a[f'G_{v}'], a[f'N_{v}'], b[f'G_{v}'], b[f'N_{v}']
        present = z3.If(ns == EMPTY, G0.contains((cls,)), N0.contains((ns, cls)))
        newreg = z3.If(ns == EMPTY, G1.get((cls,)), N1.get((ns, cls)))
        c = z3.Const('c!f', Ref)
        s = z3.Const('s!f', Str)
        return [('returns-whether-inserted', ret == z3.Not(present)),
                ('duplicate-leaves-registry-unchanged', z3.Implies(present, self.unchanged(cx))),
                ('inserted-registration-has-the-given-fields',
                 z3.Implies(z3.Not(present), z3.And(z3.If(ns == EMPTY, G1.contains((cls,)), N1.contains((ns, cls))),
                                                    registration_is(newreg, cls, ff, uf, pet)))),
                ('no-other-global-key-changes', z3.ForAll([c], z3.Implies(z3.Or(c != cls, ns != EMPTY), z3.And(
                    G1.contains((c,)) == G0.contains((c,)), G1.get((c,)) == G0.get((c,)))))),
                ('no-other-named-key-changes', z3.ForAll([s, c], z3.Implies(z3.Or(c != cls, s != ns, ns == EMPTY), z3.And(
                    N1.contains((s, c)) == N0.contains((s, c)), N1.get((s, c)) == N0.get((s, c)))))),
                ('other-variant-and-builtins-untouched', self.unchanged(cx, (f'G_{other}', f'N_{other}', 'B'))),
                ('runs-no-python-code', z3.BoolVal(cx.st.ghost['trace'] == ()))]

    def frame(self, cx, ret):
        return []

    def apply(self, eng, st, this, args, n):
        """Call-site summary (used by Register): exactly the postcondition above."""
        v = 'leaf' if z3.is_true(eng.template_env['NoneIsLeaf']) else 'node'
        m = self.owner_maps(eng, st)
        cls, ff, uf, pet, ns = args[0].ref, args[1].ref, args[2].ref, args[3].ref, args[4]
        G, Nm = st.heap[m[f'G_{v}']], st.heap[m[f'N_{v}']]
        present = z3.If(ns == EMPTY, G.contains((cls,)), Nm.contains((ns, cls)))
        r = fresh('registration', Ref)
        st.pc.append(registration_is(r, cls, ff, uf, pet))
        st.heap[m[f'G_{v}']] = G.put((cls,), r, cond=z3.And(ns == EMPTY, z3.Not(present)))
        st.heap[m[f'N_{v}']] = Nm.put((ns, cls), r, cond=z3.And(ns != EMPTY, z3.Not(present)))
        return [(st, z3.Not(present))]

    def owner_maps(self, eng, st):
        return eng.cur_contract.oids


@contract
class UnregisterImpl(RegistryMixin, Contract):
    name = 'optree::PyTreeTypeRegistry::UnregisterImpl'
    props = ('C12', 'C17')
    template_instances = [{'NoneIsLeaf': False}, {'NoneIsLeaf': True}]

    def setup(self, eng, st, fn):
        self.setup_registry(eng, st)
        cx = super().setup(eng, st, fn)
        st.ghost['locks'] = ('sm_mutex',)
        return cx

    def post(self, cx, ret):
        v = variant_of(cx)
        other = 'leaf' if v == 'node' else 'node'
        a, b = self.maps(cx.entry), self.maps(cx.st)
        cls, ns = cx.old('cls').ref, cx.old('registry_namespace')
        G0, N0, G1, N1 = a[f'G_{v}'], a[f'N_{v}'], b[f'G_{v}'], b[f'N_{v}']
        present = z3.If(ns == EMPTY, G0.contains((cls,)), N0.contains((ns, cls)))
        oldreg = z3.If(ns == EMPTY, G0.get((cls,)), N0.get((ns, cls)))
        c = z3.Const('c!f', Ref)
        s = z3.Const('s!f', Str)
        return [('returns-the-removed-registration-or-null', ret == z3.If(present, oldreg, NULL)),
                ('absent-leaves-registry-unchanged', z3.Implies(z3.Not(present), self.unchanged(cx))),
                ('key-is-gone', z3.Not(z3.If(ns == EMPTY, G1.contains((cls,)), N1.contains((ns, cls))))),
                ('no-other-global-key-changes', z3.ForAll([c], z3.Implies(z3.Or(c != cls, ns != EMPTY),
                                                                          G1.contains((c,)) == G0.contains((c,))))),
                ('global-values-untouched', G1.val == G0.val),
                ('no-other-named-key-changes', z3.ForAll([s, c], z3.Implies(z3.Or(c != cls, s != ns, ns == EMPTY),
                                                                            N1.contains((s, c)) == N0.contains((s, c))))),
                ('named-values-untouched', N1.val == N0.val),
                ('other-variant-and-builtins-untouched', self.unchanged(cx, (f'G_{other}', f'N_{other}', 'B'))),
                ('runs-no-python-code', z3.BoolVal(cx.st.ghost['trace'] == ()))]

    def frame(self, cx, ret):
        return []

    def apply(self, eng, st, this, args, n):
        v = 'leaf' if z3.is_true(eng.template_env['NoneIsLeaf']) else 'node'
        m = eng.cur_contract.oids
        cls, ns = args[0].ref, args[1]
        G, Nm = st.heap[m[f'G_{v}']], st.heap[m[f'N_{v}']]
        present = z3.If(ns == EMPTY, G.contains((cls,)), Nm.contains((ns, cls)))
        oldreg = z3.If(ns == EMPTY, G.get((cls,)), Nm.get((ns, cls)))
        import dataclasses
        st.heap[m[f'G_{v}']] = dataclasses.replace(G, has=z3.If(ns == EMPTY, G.remove((cls,)).has, G.has))
        st.heap[m[f'N_{v}']] = dataclasses.replace(Nm, has=z3.If(ns != EMPTY, Nm.remove((ns, cls)).has, Nm.has))
        return [(st, z3.If(present, oldreg, NULL))]


def ref_balance(st):
    """Net manual reference count changes per object (ghost counter of the raw inc_ref/dec_ref sites)."""
    net = {}
    for op, who in st.ghost.get('refs', ()):
        net[who] = net.get(who, 0) + (1 if op == 'inc_ref' else -1)
    return net


class RegisterBase(RegistryMixin, Contract):
    def setup(self, eng, st, fn):
        self.setup_registry(eng, st)
        return super().setup(eng, st, fn)

    def present_before(self, cx, v='node'):
        a = self.maps(cx.entry)
        cls, ns = cx.old('cls').ref, cx.old('registry_namespace')
        return z3.If(ns == EMPTY, a[f'G_{v}'].contains((cls,)), a[f'N_{v}'].contains((ns, cls)))

    def is_builtin(self, cx):
        return self.maps(cx.entry)['B'].contains((cx.old('cls').ref,))

    def others_unchanged(self, cx):
        a, b = self.maps(cx.entry), self.maps(cx.st)
        cls, ns = cx.old('cls').ref, cx.old('registry_namespace')
        c = z3.Const('c!f', Ref)
        s = z3.Const('s!f', Str)
        conj = [a['B'].has == b['B'].has]
        for v in ('node', 'leaf'):
            G0, G1, N0, N1 = a[f'G_{v}'], b[f'G_{v}'], a[f'N_{v}'], b[f'N_{v}']
            conj.append(z3.ForAll([c], z3.Implies(z3.Or(c != cls, ns != EMPTY), z3.And(
                G1.contains((c,)) == G0.contains((c,)),
                z3.Implies(G0.contains((c,)), G1.get((c,)) == G0.get((c,)))))))
            conj.append(z3.ForAll([s, c], z3.Implies(z3.Or(c != cls, s != ns, ns == EMPTY), z3.And(
                N1.contains((s, c)) == N0.contains((s, c)),
                z3.Implies(N0.contains((s, c)), N1.get((s, c)) == N0.get((s, c)))))))
        return z3.And(*conj)

    def frame(self, cx, ret):
        return []


@contract
class Register(RegisterBase):
    name = 'optree::PyTreeTypeRegistry::Register'
    props = ('C12', 'C17', 'C15')

    def post(self, cx, ret):
        b = self.maps(cx.st)
        cls, ns = cx.old('cls').ref, cx.old('registry_namespace')
        ff, uf, pet = cx.old('flatten_func').ref, cx.old('unflatten_func').ref, cx.old('path_entry_type').ref
        out = [('was-not-builtin', z3.Not(self.is_builtin(cx))),
               ('was-not-registered', z3.Not(self.present_before(cx))),
               ('namespace-isolation:no-other-key-changes', self.others_unchanged(cx)),
               ('error-indicator-clear-on-normal-return', z3.Not(cx.st.ghost['pyerr']))]
        for v in ('node', 'leaf'):
            G, Nm = b[f'G_{v}'], b[f'N_{v}']
            has = z3.If(ns == EMPTY, G.contains((cls,)), Nm.contains((ns, cls)))
            reg = z3.If(ns == EMPTY, G.get((cls,)), Nm.get((ns, cls)))
            out.append((f'registered-in-{v}-variant-with-the-given-functions',
                        z3.And(has, registration_is(reg, cls, ff, uf, pet))))
        for i, e in enumerate(self.RI(cx.st, with_patterns=False)):
            out.append((f'registry-invariant-preserved:{i}', e))
        net = ref_balance(cx.st)
        want = {cx.old(p).ref.sexpr(): 1 for p in ('cls', 'flatten_func', 'unflatten_func', 'path_entry_type')}
        out.append(('keeps-exactly-one-extra-reference-to-each-argument',
                    z3.BoolVal({k: v for k, v in net.items() if v} == want)))
        return out

    def raises(self, cx):
        return {'pybind11::value_error': z3.Or(self.is_builtin(cx), self.present_before(cx)),
                'pybind11::error_already_set': None}

    def frame_exc(self, cx):
        net = ref_balance(cx.st)
        return [('atomic:registry-unchanged-when-the-call-raises', self.unchanged(cx)),
                ('manual-references-balanced-when-the-call-raises', z3.BoolVal(not any(net.values())))]


@contract
class Unregister(RegisterBase):
    name = 'optree::PyTreeTypeRegistry::Unregister'
    props = ('C12', 'C17', 'C15')

    def post(self, cx, ret):
        a, b = self.maps(cx.entry), self.maps(cx.st)
        cls, ns = cx.old('cls').ref, cx.old('registry_namespace')
        out = [('was-not-builtin', z3.Not(self.is_builtin(cx))),
               ('was-registered', self.present_before(cx)),
               ('namespace-isolation:no-other-key-changes', self.others_unchanged(cx)),
               ('error-indicator-clear-on-normal-return', z3.Not(cx.st.ghost['pyerr']))]
        for v in ('node', 'leaf'):
            G, Nm = b[f'G_{v}'], b[f'N_{v}']
            out.append((f'removed-from-{v}-variant', z3.Not(z3.If(ns == EMPTY, G.contains((cls,)), Nm.contains((ns, cls))))))
        for i, e in enumerate(self.RI(cx.st, with_patterns=False)):
            out.append((f'registry-invariant-preserved:{i}', e))
        net = ref_balance(cx.st)
        out.append(('drops-exactly-four-manual-references', z3.BoolVal(sorted(net.values()) == [-1, -1, -1, -1])))
        return out

    def raises(self, cx):
        return {'pybind11::value_error': z3.Or(self.is_builtin(cx), z3.Not(self.present_before(cx))),
                'pybind11::error_already_set': None}

    def frame_exc(self, cx):
        net = ref_balance(cx.st)
        return [('atomic:registry-unchanged-when-the-call-raises', self.unchanged(cx)),
                ('manual-references-balanced-when-the-call-raises', z3.BoolVal(not any(net.values())))]


def lookup_value(maps, variant, cls, ns):
    G, Nm = maps[f'G_{variant}'], maps[f'N_{variant}']
    return z3.If(z3.And(ns != EMPTY, Nm.contains((ns, cls))), Nm.get((ns, cls)),
                 z3.If(G.contains((cls,)), G.get((cls,)), NULL))


def _lookup_apply(self, eng, st, this, args, n):
    """Call-site summary of Lookup<v>: its proved postcondition over the caller's registry view."""
    owner = eng.cur_contract
    v = 'leaf' if z3.is_true(eng.template_env['NoneIsLeaf']) else 'node'
    if not hasattr(owner, 'oids'):
        # caller without a registry view: the current registration of (variant, namespace, type), whatever it is
        cls = args[0].ref if isinstance(args[0], PyObj) else args[0]
        return [(st, z3.Function(f'registry_lookup_{v}', Ref, Str, Int, Ref)(cls, args[1], z3.IntVal(st.ghost['epoch'])))]
    maps = {k: st.heap[o] for k, o in owner.oids.items()}
    cls = args[0].ref if isinstance(args[0], PyObj) else args[0]
    return [(st, lookup_value(maps, v, cls, args[1]))]


Lookup.apply = _lookup_apply


@contract
class GetKind(RegistryMixin, Contract):
    name = 'optree::PyTreeTypeRegistry::GetKind'
    props = ('C02', 'C12', 'C17')
    template_instances = [{'NoneIsLeaf': False}, {'NoneIsLeaf': True}]

    def setup(self, eng, st, fn):
        self.setup_registry(eng, st)
        return super().setup(eng, st, fn)

    def post(self, cx, ret):
        v = variant_of(cx)
        h = cx.old('handle').ref
        ns = cx.old('registry_namespace')
        t = M.py_type(h)
        reg = lookup_value(self.maps(cx.entry), v, t, ns)
        custom = cx.var('custom')
        expected = z3.If(reg != NULL, M.reg_kind(reg),
                         z3.If(is_structseq_class(t), K['StructSequence'],
                               z3.If(is_namedtuple_class(t), K['NamedTuple'], K['Leaf'])))
        return [('registered-exact-type-else-structseq-else-namedtuple-else-leaf', ret == expected),
                ('custom-set-iff-custom-registration', custom == z3.If(z3.And(reg != NULL, M.reg_kind(reg) == K['Custom']),
                                                                       reg, NULL))]

    def frame(self, cx, ret):
        return [('registry-unchanged', self.unchanged(cx))]

    def method(self, eng, st, base, name, A, n):
        return None
