"""Contract: PyTreeSpec::Transform (C08, C16, C15).

One forward pass over the post-order node array.  For every node a one-level treespec of that node is made (GetOneLevel,
proved) and optionally replaced by what the user function returns for it; a *leaf* is replaced by the whole returned
treespec (its nodes are copied), a non-leaf node by the root of the returned one-level treespec with the counts recomputed
from the `pending` stack of (num_leaves, num_nodes) pairs.

Ghost vocabulary: forest(k) as in unflatten.py (height of `pending`); xl(p) / xn(p) = extra leaves / nodes contributed by the
replacements of the leaves among the first p nodes (defined along the loop, one definitional instance per iteration);
sum(arr, k) = arr[0] + .. + arr[k-1] with the lemma that a store at or above k does not change it (proved by explicit
induction, obligations L-sum:*).  Invariants: the entries of `pending` add up to (PL(i) + xl(i), i + xn(i)) - all leaves /
all nodes emitted so far - so that the root ends up with num_leaves = num_leaves(this) + extra and num_nodes = len(result),
which is what the function's own consistency checks test: they are proved unreachable."""
import z3

from ..cxx import model as M
from ..cxx.contract import Contract, Loop, contract, forall
from ..cxx.model import EMPTY, KIND, NULL, Bool, Int, Ref, Str, NodeVec, Ptr, PyObj, SpecObj, fresh
from ..cxx.symex import State, Unsupported
from .unflatten import AgendaWalk

K = KIND
IntArr = z3.ArraySort(Int, Int)
asum = z3.Function('stack_sum', IntArr, Int, Int)
xl = z3.Function('extra_leaves_before', Int, Int)
xn = z3.Function('extra_nodes_before', Int, Int)


def sum_axioms(eng):
    """sum is defined by  sum(a, 0) = 0,  sum(a, k+1) = sum(a, k) + a[k]  (k >= 0).  Only instances of the recursive clause
    are ever asserted (at the push / pop sites, see on_vector_op): the quantified clause would be a matching loop.  The frame
    lemma  k <= p  ==>  sum(a[p := v], k) = sum(a, k)  is proved here once, by explicit induction on k, and then used through
    instances as well."""
    a = z3.Const('a!sum', IntArr)
    k, p, v = z3.Ints('k!sum p!sum v!sum')
    zero = z3.ForAll([a], asum(a, 0) == 0, patterns=[asum(a, 0)])
    step = lambda arr, kk: asum(arr, kk + 1) == asum(arr, kk) + z3.Select(arr, kk)
    s0 = State(); s0.facts = [zero]
    eng.oblige(s0, 'L', 'L-sum:frame:base', asum(z3.Store(a, p, v), 0) == asum(a, 0), _split=False)
    s1 = State(); s1.facts = [zero, k >= 0, k + 1 <= p, asum(z3.Store(a, p, v), k) == asum(a, k),
                               step(z3.Store(a, p, v), k), step(a, k)]
    eng.oblige(s1, 'L', 'L-sum:frame:step', asum(z3.Store(a, p, v), k + 1) == asum(a, k + 1), _split=False)
    return [zero]


@contract
class Transform(AgendaWalk):
    name = 'optree::PyTreeSpec::Transform'
    props = ('C08', 'C15', 'C16')

    def __init__(self):
        self.loops = {0: Loop(self.inv, index='node__idx', hints=self.hints, body_post=self.accepted,
                              decreases=lambda cx: cx.this_vec(cx.entry).len - cx.var('node__idx')),
                      1: Loop(self.pop_inv, decreases=lambda cx: cx.eng.to_nodeval(cx.st, cx.var('node')).get('arity') - cx.var('i'))}

    def setup(self, eng, st, fn):
        cx = super().setup(eng, st, fn)
        st.facts += sum_axioms(eng)
        st.facts += [xl(z3.IntVal(0)) == 0, xn(z3.IntVal(0)) == 0]
        r = z3.Const('r!ext', Ref)
        isi = z3.Function('py_isinstance_PyTreeSpec', Ref, Bool)
        nn, nl = M.ext_spec_arr['num_nodes'], M.ext_spec_arr['num_leaves']
        st.facts.append(z3.ForAll([r], z3.Implies(isi(r), z3.And(M.ext_spec_len(r) >= 1,
                                                                  z3.Select(nn(r), M.ext_spec_len(r) - 1) == M.ext_spec_len(r),
                                                                  z3.Select(nl(r), M.ext_spec_len(r) - 1) >= 0)),
                                  patterns=[M.ext_spec_len(r)]))
        return cx

    def other_param(self, eng, st, p):
        return PyObj(z3.Const(p.name, Ref))

    def on_vector_op(self, eng, st, op, before, after):
        """Instances of the definition of sum (and of the proved frame lemma) at the stack operations."""
        from ..cxx.model import PairVec
        if not isinstance(before, PairVec):
            return
        L = before.len
        for arr0, arr1 in ((before.a, after.a), (before.b, after.b)):
            if op == 'pop_back':
                st.facts.append(z3.Implies(L >= 1, asum(arr0, L) == asum(arr0, L - 1) + z3.Select(arr0, L - 1)))
            else:
                st.facts.append(z3.Implies(L >= 0, z3.And(asum(arr1, L + 1) == asum(arr1, L) + z3.Select(arr1, L),
                                                          asum(arr1, L) == asum(arr0, L))))
        if op == 'emplace_back' and st.scope.lookup('transformed') is not None and st.scope.lookup('node__idx') is not None:
            # definition of the ghost functions xl / xn at this node (each node pushes exactly once): a leaf that is replaced
            # by a treespec of NN nodes and NL leaves contributes NL - 1 / NN - 1, every other node nothing
            idx = st.get('node__idx')
            v = self.views['this']
            tr = st.get('transformed')
            tv = st.heap[st.heap[tr.oid].trav]
            leaf = v.K(idx) == K['Leaf']
            st.facts += [xl(idx + 1) == xl(idx) + z3.If(leaf, tv.sel('num_leaves', tv.len - 1) - 1, 0),
                         xn(idx + 1) == xn(idx) + z3.If(leaf, tv.len - 1, 0)]
            st.ghost['replacement'] = (tv.sel('num_leaves', tv.len - 1), tv.len, st.heap[tr.oid].nil, st.heap[tr.oid].ns)
            st.ghost['replacement_root'] = tv.node_at(tv.len - 1)

    def cast_spec(self, eng, st, o):
        ref = o.ref if isinstance(o, PyObj) else o
        return Ptr(st.alloc(SpecObj(st.alloc(M.ext_spec_vec(ref)), M.ext_spec_nil(ref), M.ext_spec_ns(ref))))

    # ---- main loop -------------------------------------------------------------------------------------------------------
    def totals(self, cx, idx):
        v = self.views['this']
        return v.PL(idx) + xl(idx), idx + xn(idx)

    def inv(self, cx):
        v = self.views['this']
        n = v.v.len
        idx = cx.var('node__idx')
        pend = cx.obj(cx.var('pending_num_leaves_nodes'))
        out = cx.st.heap[cx.st.heap[cx.var('treespec').oid].trav]
        tl, tn = self.totals(cx, idx)
        return [('idx-range', z3.And(0 <= idx, idx <= n)),
                ('pending-height-is-forest', pend.len == self.F(idx)),
                ('extra-leaves-so-far', cx.var('num_extra_leaves') == xl(idx)),
                ('extra-nodes-so-far', z3.And(cx.var('num_extra_nodes') == xn(idx), xn(idx) >= 0)),
                ('nodes-emitted-so-far', out.len == tn),
                ('pending-leaves-add-up-to-the-leaves-so-far', asum(pend.a, pend.len) == tl),
                ('pending-nodes-add-up-to-the-nodes-so-far', asum(pend.b, pend.len) == tn),
                ('common-namespace-is-the-namespace-of-this-when-it-has-one',
                 z3.Implies(cx.this_spec(cx.entry).ns != EMPTY, cx.var('common_registry_namespace') == cx.this_spec(cx.entry).ns)),
                ('top-of-pending-holds-the-counts-of-the-last-emitted-node',
                 z3.Implies(idx > 0, z3.And(pend.len >= 1, out.len >= 1,
                                            z3.Select(pend.a, pend.len - 1) == out.sel('num_leaves', out.len - 1),
                                            z3.Select(pend.b, pend.len - 1) == out.sel('num_nodes', out.len - 1))))]

    def accepted(self, cx):
        """What a replacement must satisfy to be accepted (otherwise ValueError): same none_is_leaf; a namespace compatible
        with the common one; for a non-leaf node exactly `arity` leaves and `arity` + 1 nodes (a one-level treespec)."""
        v = self.views['this']
        idx = cx.pre.get('node__idx')
        rep = cx.st.ghost.get('replacement')
        if rep is None:
            return [('every-node-is-replaced-or-kept', z3.BoolVal(False))]
        nl, nn, nil, ns = rep
        nonleaf = v.K(idx) != K['Leaf']
        common = cx.var('common_registry_namespace')
        out_vec = cx.st.heap[cx.st.heap[cx.var('treespec').oid].trav]
        root = cx.st.ghost['replacement_root']
        emitted = out_vec.node_at(out_vec.len - 1)
        payload = [(f'emitted-node-keeps-the-{f}-of-the-replacement-root', z3.Implies(nonleaf, emitted.get(f) == root.get(f)))
                   for f in ('kind', 'arity', 'node_data', 'node_entries', 'custom', 'original_keys')]
        return payload + [('replacement-has-the-same-none_is_leaf', nil == cx.this_spec(cx.entry).nil),
                ('replacement-namespace-is-empty-or-the-common-one', z3.Or(ns == EMPTY, ns == common)),
                ('replacement-of-a-non-leaf-node-has-arity-leaves', z3.Implies(nonleaf, nl == v.A(idx))),
                ('replacement-of-a-non-leaf-node-is-one-level', z3.Implies(nonleaf, nn == v.A(idx) + 1))]

    def hints(self, cx):
        v = self.views['this']
        n = v.v.len
        i = cx.var('node__idx')
        return [('PL-step', z3.Implies(z3.And(0 <= i, i < n), v.PL(i + 1) == v.PL(i) + z3.If(v.K(i) == K['Leaf'], 1, 0))),
                ('forest-step', z3.Implies(z3.And(0 <= i, i < n), self.F(i + 1) == self.F(v.start(i)) + 1)),
                ('forest-children', z3.Implies(z3.And(0 <= i, i < n), self.F(i) == self.F(v.start(i)) + v.A(i))),
                ('forest-total', z3.Implies(i == n, self.F(i) == 1)),
                ('total-leaves', v.NL(n - 1) == v.PL(n)),
                ('sum-of-a-singleton', z3.And(asum(self.pend(cx).a, 1) == asum(self.pend(cx).a, 0) + z3.Select(self.pend(cx).a, 0),
                                              asum(self.pend(cx).b, 1) == asum(self.pend(cx).b, 0) + z3.Select(self.pend(cx).b, 0)),
                 'instance')]

    def pend(self, cx):
        return cx.obj(cx.var('pending_num_leaves_nodes'))

    # ---- pop loop: subroot accumulates the entries it pops --------------------------------------------------------------
    def pop_inv(self, cx):
        v = self.views['this']
        idx = cx.var('node__idx')
        i = cx.var('i')
        pend = cx.obj(cx.var('pending_num_leaves_nodes'))
        sub = cx.eng.to_nodeval(cx.st, cx.var('subroot'))
        A = v.A(idx)
        tl, tn = self.totals(cx, idx)
        out = cx.st.heap[cx.st.heap[cx.var('treespec').oid].trav]
        return [('i-range', z3.And(0 <= i, i <= A)),
                ('pending-height', pend.len == self.F(idx) - i),
                ('popped-leaves-are-in-subroot', asum(pend.a, pend.len) + sub.get('num_leaves') == tl),
                ('popped-nodes-are-in-subroot', asum(pend.b, pend.len) + sub.get('num_nodes') == tn + 1),
                ('subroot-is-the-last-emitted-node', out.len == tn + 1)] + self.payload_kept(cx, out)

    def payload_kept(self, cx, out):
        tr = cx.var('transformed')
        tv = cx.st.heap[cx.st.heap[tr.oid].trav]
        root = tv.node_at(tv.len - 1)
        last = out.node_at(out.len - 1)
        return [(f'emitted-node-keeps-the-{f}-of-the-replacement-root', last.get(f) == root.get(f))
                for f in ('kind', 'arity', 'node_data', 'node_entries', 'custom', 'original_keys')]



    def raises(self, cx):
        return {'pybind11::type_error': None, 'pybind11::value_error': None, 'pybind11::error_already_set': None,
                'pybind11::cast_error': None}

    def post(self, cx, ret):
        v = self.views['this']
        n = v.v.len
        spec = cx.st.heap[ret.oid]
        t = cx.st.heap[spec.trav]
        this = cx.this_spec(cx.entry)
        some = z3.Or(cx.old('f_node').ref != NULL, cx.old('f_leaf').ref != NULL)
        tv = cx.this_vec(cx.entry)
        j = z3.Int('j!tr')
        same = z3.And(t.len == n, *[forall([j], z3.Implies(z3.And(0 <= j, j < n), t.sel(f, j) == tv.sel(f, j))) for f in M.NODE_FIELDS])
        return [('result-is-non-empty', t.len >= 1),
                ('records-none_is_leaf', spec.nil == this.nil),
                ('without-functions-the-result-is-a-copy', z3.Implies(z3.Not(some), z3.And(same, spec.ns == this.ns))),
                ('number-of-nodes-is-that-of-this-plus-the-extra-nodes-of-the-replaced-leaves',
                 z3.Implies(some, z3.And(t.len == n + xn(n), t.sel('num_nodes', t.len - 1) == t.len))),
                ('number-of-leaves-is-that-of-this-plus-the-extra-leaves-of-the-replaced-leaves',
                 z3.Implies(some, t.sel('num_leaves', t.len - 1) == v.NL(n - 1) + xl(n))),
                ('keeps-the-namespace-of-this-unless-it-has-none', z3.Implies(this.ns != EMPTY, spec.ns == this.ns))]

    def frame_exc(self, cx):
        return self.default_frame(cx)
