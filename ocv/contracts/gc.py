"""Contract: PyTreeSpec::PyTpTraverse (C14, clause "treespecs in reference cycles through their metadata are reclaimed by
the garbage collector").  CPython's cycle collector can only break a cycle whose every edge is reported by tp_traverse, so
the obligation is completeness: every Python object a node owns (node_data, node_entries, original_keys; the custom
registration is owned by the registry, not by the treespec) is passed to `visit` unless an earlier visit returned non-zero,
in which case that value is returned at once."""
import z3

from ..cxx import model as M
from ..cxx.contract import Contract, Loop, contract, forall, symbolic_spec
from ..cxx.model import NULL, Bool, Int, Ref, Opaque, Ptr, PyObj, fresh

OWNED = ('node_data', 'node_entries', 'original_keys')


@contract
class PyTpTraverse(Contract):
    name = 'optree::PyTreeSpec::PyTpTraverse'
    static = True
    props = ('C14',)

    def __init__(self):
        self.loops = {0: Loop(self.inv, index='node__idx', ghost_modifies=('visited',),
                              decreases=lambda cx: self.vec(cx).len - cx.var('node__idx'))}

    def setup(self, eng, st, fn):
        self.views = {}
        self.self_ptr, self.views['self'] = symbolic_spec(st, 'self', True, True)
        cx = super().setup(eng, st, fn)
        st.facts.append(M.py_type(z3.Const('self_base', Ref)) != NULL)        # every object has a type
        st.ghost['visited'] = z3.K(Ref, False)
        st.ghost['stopped'] = z3.BoolVal(False)
        self.constructed = z3.Bool('holder_constructed')
        return cx

    def symbolic_param(self, eng, st, p):
        if p.name == 'self_base':
            return z3.Const('self_base', Ref)
        return Opaque('param:' + p.name)

    def vec(self, cx):
        return cx.st.heap[cx.st.heap[self.self_ptr.oid].trav]

    def call_hook(self, eng, st, name, args_n, n):
        if name == 'visit':
            (s1, o), = eng.ev(args_n[0], st)
            r = o.ref if isinstance(o, PyObj) else o
            s1.ghost['visited'] = z3.Store(s1.ghost['visited'], r, True)
            return [(s1, fresh('vret', Int))]
        if name == 'Py_TYPE':
            (s1, o), = eng.ev(args_n[0], st)
            return [(s1, M.py_type(o.ref if isinstance(o, PyObj) else o))]
        if name == 'holder_constructed':
            return [(st, self.constructed)]
        if name == 'get_value_and_holder':
            return [(st, Opaque('value_and_holder'))]
        return None

    def method_hook(self, eng, st, base, name, A, n):
        if name == 'holder_constructed':
            return [(st, self.constructed)]
        if name == 'get_value_and_holder':
            return [(st, Opaque('value_and_holder'))]
        return None

    def cast_spec(self, eng, st, o):
        return self.self_ptr

    def inv(self, cx):
        v = self.vec(cx)
        idx = cx.var('node__idx')
        vis = cx.st.ghost['visited']
        j = z3.Int('j!gc')
        out = [('index-range', z3.And(0 <= idx, idx <= v.len)),
               ('type-object-stays-visited', z3.Select(vis, M.py_type(z3.Const('self_base', Ref))))]
        for f in OWNED:
            out.append((f'every-{f}-of-the-nodes-so-far-was-visited',
                        forall([j], z3.Implies(z3.And(0 <= j, j < idx, v.sel(f, j) != NULL), z3.Select(vis, v.sel(f, j))),
                               patterns=[v.sel(f, j)])))
        return out

    def post(self, cx, ret):
        return []

    def at_return(self, cx, ret):
        v = self.vec(cx)
        vis = cx.st.ghost['visited']
        j = z3.Int('j!gcp')
        out = []
        everything = z3.And(*[forall([j], z3.Implies(z3.And(0 <= j, j < v.len, v.sel(f, j) != NULL), z3.Select(vis, v.sel(f, j))))
                              for f in OWNED])
        out.append(('returns-zero-only-after-visiting-every-owned-object-(or-before-the-holder-exists)',
                    z3.Implies(z3.And(ret == 0, self.constructed), everything)))
        out.append(('type-object-visited', z3.Implies(ret == 0, z3.Select(vis, M.py_type(z3.Const('self_base', Ref))))))
        return out

    def raises(self, cx):
        # the cast of self_base cannot fail: tp_traverse is only installed on the PyTreeSpec type (typing of the callback)
        return {'pybind11::cast_error': None}

    def frame(self, cx, ret):
        return []
