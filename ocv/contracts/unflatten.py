"""Contracts: PyTreeSpec::UnflattenImpl / Unflatten, MakeNode, WalkImpl (C01, C05, C16).

Ghost vocabulary.  forest(k) = number of maximal complete subtrees in the node prefix [0, k): the height of the
unflatten agenda after k nodes.  Definition by well-founded recursion (start(k-1) < k):
     forest(0) = 0,   forest(k) = forest(start(k-1)) + 1   (0 < k <= n)
Lemma L-stack (explicit induction over the children of node i):  forest(i) = forest(start(i)) + arity(i), hence the
agenda never underflows and ends as a singleton."""
import z3

from ..cxx import model as M
from ..cxx.contract import Contract, Loop, contract
from ..cxx.model import EMPTY, KIND, NULL, PYNONE, Int, Ref, ElemRef, NodeVal, Opaque, Ptr, PyObj, PySeqIter, ScalarVec, fresh
from ..cxx.symex import State
from .inspect import node_typed

K = KIND


def forest_fn(tag):
    return z3.Function(f'forest_{tag}', Int, Int)


def forest_axioms(v, F):
    k = z3.Int('k!forest')
    n = v.v.len
    return [F(0) == 0,
            z3.ForAll([k], z3.Implies(z3.And(0 < k, k <= n), F(k) == F(v.start(k - 1)) + 1), patterns=[F(k)]),
            z3.ForAll([k], z3.Implies(z3.And(0 <= k, k <= n), F(k) >= 0), patterns=[F(k)])]


def stack_lemma(eng, st, v, F, tag):
    """L-stack: forall i < n. forest(i) = forest(start(i)) + A(i), by induction on t over the child chain:
         Q(t):  forest(cpos(i,t) + 1) = forest(start(i)) + t + 1        (0 <= t < A(i))"""
    n = v.v.len
    I, t = z3.Ints(f'I!{tag} t!{tag}')
    wf = list(st.facts)
    ctx = [0 <= I, I < n]
    # non-negativity of forest (part of forest_axioms) is itself an induction: forest(k) = forest(smaller) + 1
    s0 = State(); s0.facts = [f for f in wf if True]
    s1 = State(); s1.facts = wf + ctx + [v.A(I) > 0]
    eng.oblige(s1, 'L', f'L-stack:{tag}:base', F(v.cpos(I, 0) + 1) == F(v.start(I)) + 1)
    s2 = State(); s2.facts = wf + ctx + [1 <= t, t < v.A(I), F(v.cpos(I, t - 1) + 1) == F(v.start(I)) + t]
    eng.oblige(s2, 'L', f'L-stack:{tag}:step', F(v.cpos(I, t) + 1) == F(v.start(I)) + t + 1)
    qall = z3.ForAll([t], z3.Implies(z3.And(0 <= t, t < v.A(I)), F(v.cpos(I, t) + 1) == F(v.start(I)) + t + 1),
                     patterns=[v.cpos(I, t)])
    s3 = State(); s3.facts = wf + ctx + [qall]
    eng.oblige(s3, 'L', f'L-stack:{tag}:conclusion', F(I) == F(v.start(I)) + v.A(I))
    i = z3.Int(f'i!{tag}')
    return [z3.ForAll([i], z3.Implies(z3.And(0 <= i, i < n), F(i) == F(v.start(i)) + v.A(i)), patterns=[F(i)])]


def pl_bounded_lemma(eng, st, v, tag):
    """forall k in [0, n]. PL(k) <= PL(n)   (downward induction on k; PL(k) <= PL(k+1) by definition)."""
    n = v.v.len
    I = z3.Int(f'I!plb{tag}')
    wf = list(st.facts)
    s1 = State(); s1.facts = wf
    eng.oblige(s1, 'L', f'L-PL-bounded:{tag}:base', v.PL(n) <= v.PL(n))
    s2 = State(); s2.facts = wf + [0 <= I, I < n, v.PL(I + 1) <= v.PL(n)]
    eng.oblige(s2, 'L', f'L-PL-bounded:{tag}:step', v.PL(I) <= v.PL(n))
    k = z3.Int(f'k!plb{tag}')
    return [z3.ForAll([k], z3.Implies(z3.And(0 <= k, k <= n), v.PL(k) <= v.PL(n)), patterns=[v.PL(k)])]


class AgendaWalk(Contract):
    """Shared shape of UnflattenImpl / WalkImpl / ToStringImpl: one pass over the post-order node array with an agenda."""

    def setup(self, eng, st, fn):
        cx = super().setup(eng, st, fn)
        v = self.views['this']
        self.F = forest_fn('this')
        st.facts += forest_axioms(v, self.F)
        st.facts += stack_lemma(eng, st, v, self.F, 'this')
        st.facts += pl_bounded_lemma(eng, st, v, 'this')
        return cx

    def other_param(self, eng, st, p):
        return PyObj(z3.Const(p.name, Ref))

    def base_inv(self, cx):
        v = self.views['this']
        n = v.v.len
        i = cx.var('node__idx')
        agenda = cx.obj(cx.var('agenda'))
        it = cx.var('it')
        return [('idx-range', z3.And(0 <= i, i <= n)),
                ('agenda-height-is-forest', agenda.len == self.F(i)),
                ('leaves-pulled-in-order', z3.And(it.pos == v.PL(i), it.pos <= M.iter_len(it.ref)))]


@contract
class UnflattenImpl(AgendaWalk):
    name = 'optree::PyTreeSpec::UnflattenImpl'
    props = ('C01', 'C16', 'C15')

    def __init__(self):
        self.loops = {0: Loop(self.inv, index='node__idx', hints=self.hints,
                              decreases=lambda cx: cx.this_vec(cx.entry).len - cx.var('node__idx'))}

    def inv(self, cx):
        return self.base_inv(cx) + [('num_leaves-counts-pulled', cx.var('num_leaves') == cx.var('it').pos)]

    def hints(self, cx):
        v = self.views['this']
        n = v.v.len
        i = cx.var('node__idx')
        return [('PL-step', z3.Implies(z3.And(0 <= i, i < n), v.PL(i + 1) == v.PL(i) + z3.If(v.K(i) == K['Leaf'], 1, 0))),
                ('forest-step', z3.Implies(z3.And(0 <= i, i < n), self.F(i + 1) == self.F(v.start(i)) + 1)),
                ('forest-children', z3.Implies(z3.And(0 <= i, i < n), self.F(i) == self.F(v.start(i)) + v.A(i))),
                ('forest-total', z3.Implies(i == n, self.F(i) == 1)),
                ('total-leaves', v.NL(n - 1) == v.PL(n))]

    def leaves_ref(self, cx):
        return cx.old('leaves').ref

    def post(self, cx, ret):
        v = self.views['this']
        n = v.v.len
        return [('consumed-exactly-num_leaves-leaves', M.iter_len(self.leaves_ref(cx)) == v.NL(n - 1))]

    def raises(self, cx):
        v = self.views['this']
        n = v.v.len
        return {'pybind11::value_error': M.iter_len(self.leaves_ref(cx)) != v.NL(n - 1),
                'pybind11::error_already_set': None, 'pybind11::cast_error': None}

    def apply(self, eng, st, this, args, n):
        eng.may_call_python(st, 'unflatten (constructors / custom unflatten functions / leaves iterator)', n.get('line'))
        s_exc = st.clone()
        eng.throw(s_exc, 'pybind11::error_already_set', n.get('line'), 'from unflatten')
        return [(st, PyObj(fresh('unflattened', Ref), fresh=True))]


@contract
class Unflatten(Contract):
    name = 'optree::PyTreeSpec::Unflatten'
    props = ('C01',)

    def apply(self, eng, st, this, args, n):
        # call-site summary: a new object built from the leaves (constructors / custom unflatten functions may run), or an error
        eng.may_call_python(st, 'unflatten (constructors / custom unflatten functions / leaves iterator)', n.get('line'))
        s_exc = st.clone()
        eng.throw(s_exc, 'pybind11::error_already_set', n.get('line'), 'from unflatten')
        view = getattr(eng.cur_contract, 'views', {}).get('this')
        lv = args[0].ref if args and isinstance(args[0], PyObj) else None
        if view is not None and lv is not None and (this is None or this is st.this):
            # the contract of UnflattenImpl (proved): ValueError exactly when the iterable does not yield num_leaves items
            exact = M.iter_len(lv) == view.NL(view.v.len - 1)
            s_bad = st.clone()
            eng.assume(s_bad, z3.Not(exact))
            if eng.feasible(s_bad):
                eng.throw(s_bad, 'pybind11::value_error', n.get('line'), 'leaf count mismatch')
            eng.assume(st, exact)
            if not eng.feasible(st):
                return []
        else:
            s_bad = st.clone()
            eng.throw(s_bad, 'pybind11::value_error', n.get('line'), 'leaf count mismatch')
        return [(st, PyObj(fresh('unflattened', Ref), fresh=True))]

    def raises(self, cx):
        return {'pybind11::value_error': None, 'pybind11::error_already_set': None}


class MakeNodeBase(Contract):
    pass


@contract
class MakeNode(Contract):
    """Memory-safety and payload-selection contract of MakeNode (object-level results are CPython constructors: A)."""
    name = 'optree::PyTreeSpec::MakeNode'
    props = ('C01', 'C16')
    static = True
    this_is_spec = False

    def __init__(self):
        rng = lambda cx: [('i-range', z3.And(0 <= cx.var('i'), cx.var('i') <= cx.var('node').get('arity')))]
        self.loops = {k: Loop(rng, decreases=lambda cx: cx.var('node').get('arity') - cx.var('i')) for k in range(6)}

    def symbolic_param(self, eng, st, p):
        if p.name == 'children':
            self.agenda = st.alloc(ScalarVec.symbolic('agenda', Ref))
            self.base = z3.Int('children_base')
            return ElemRef(self.agenda, self.base)
        return super().symbolic_param(eng, st, p)

    def pre(self, cx):
        nv = cx.var('node')
        k, A, D, OK = nv.get('kind'), nv.get('arity'), nv.get('node_data'), nv.get('original_keys')
        ag = cx.st.heap[self.agenda]
        isdict = z3.Or(k == K['Dict'], k == K['OrderedDict'])
        return [('node-typed', node_typed(nv)),
                ('children-span-inside-agenda', z3.And(0 <= self.base, self.base + cx.var('num_children') <= ag.len)),
                ('called-with-arity-children', cx.var('num_children') == A),
                ('dict-metadata-shape', z3.Implies(isdict, z3.And(D != NULL, M.py_len(D) == A))),
                ('defaultdict-metadata-shape', z3.Implies(k == K['DefaultDict'],
                                                          z3.And(D != NULL, M.py_len(D) == 2, M.py_item(D, 1) != NULL,
                                                                 M.py_len(M.py_item(D, 1)) == A))),
                ('original-keys-shape', z3.Implies(OK != NULL, M.py_len(OK) == A)),
                ('never-called-for-leaves', k != K['Leaf'])]

    def raises(self, cx):
        return {'pybind11::error_already_set': None, 'pybind11::cast_error': None}

    def frame(self, cx, ret):
        a, b = cx.entry.heap[self.agenda], cx.st.heap[self.agenda]
        return [('agenda-cells-unchanged', z3.And(a.len == b.len, a.arr == b.arr))]

    def frame_exc(self, cx):
        return self.frame(cx, None)

    def apply(self, eng, st, this, args, n):
        """Call site: the precondition becomes an obligation of the caller."""
        node, children, num = args[0], args[1], args[2]
        nv = eng.to_nodeval(st, node)
        line = n.get('line')
        eng.oblige(st, 'III', 'call-pre:MakeNode:called-with-arity-children', num == nv.get('arity'), line)
        eng.oblige(st, 'III', 'call-pre:MakeNode:never-called-for-leaves', nv.get('kind') != K['Leaf'], line)
        if isinstance(children, ElemRef):
            vec = st.heap[children.oid]
            eng.oblige(st, 'II', 'call-pre:MakeNode:children-span-inside-agenda',
                       z3.And(0 <= children.idx, children.idx + num <= vec.len), line)
        else:
            eng.oblige(st, 'II', 'call-pre:MakeNode:null-children-only-for-arity-zero', num == 0, line)
        eng.may_call_python(st, 'MakeNode (container constructors / custom unflatten function)', line)
        s_exc = st.clone()
        eng.throw(s_exc, 'pybind11::error_already_set', line, 'from a constructor / unflatten function')
        return [(st, PyObj(fresh('made_node', Ref), fresh=True))]


@contract
class WalkImpl(AgendaWalk):
    name = 'optree::PyTreeSpec::WalkImpl'
    props = ('C05', 'C16', 'C15')
    template_instances = [{'PassRawNode': True}, {'PassRawNode': False}]

    def __init__(self):
        self.loops = {0: Loop(self.walk_inv, index='node__idx', hints=UnflattenImpl.hints.__get__(self),
                              decreases=lambda cx: cx.this_vec(cx.entry).len - cx.var('node__idx'),
                              ghost_modifies=('leaf_calls', 'node_calls')),
                      1: Loop(self.inner_inv, decreases=lambda cx: cx.var('i') + 1)}

    def setup(self, eng, st, fn):
        cx = super().setup(eng, st, fn)
        st.ghost['leaf_calls'] = z3.IntVal(0)      # how often f_leaf / f_node have been applied so far (C05)
        st.ghost['node_calls'] = z3.IntVal(0)
        return cx

    @staticmethod
    def given(cx, name):
        v = cx.old(name)
        return (v.ref if isinstance(v, PyObj) else v) != NULL

    def walk_inv(self, cx):
        v = self.views['this']
        i = cx.var('node__idx')
        g = cx.st.ghost
        return self.base_inv(cx) + [
            ('leaf-function-applied-exactly-once-per-leaf-so-far', g['leaf_calls'] == z3.If(self.given(cx, 'f_leaf'), v.PL(i), 0)),
            ('node-function-applied-exactly-once-per-internal-node-so-far',
             g['node_calls'] == z3.If(self.given(cx, 'f_node'), i - v.PL(i), 0))]

    def on_python_result(self, eng, st, f, args, r, n):
        fl, fn_ = st.get('f_leaf'), st.get('f_node')
        ref = lambda x: x.ref if isinstance(x, PyObj) else x
        if f.ref.eq(ref(fl)):
            st.ghost['leaf_calls'] = st.ghost['leaf_calls'] + 1
            it = st.get('it')
            a0 = args[0].ref if isinstance(args[0], PyObj) else args[0]
            eng.oblige(st, 'III', 'leaf-function-is-applied-to-the-next-leaf-of-the-iterable', a0 == M.iter_item(it.ref, it.pos), n.get('line'))
        elif f.ref.eq(ref(fn_)):
            st.ghost['node_calls'] = st.ghost['node_calls'] + 1
        else:
            eng.oblige(st, 'III', 'only-the-two-given-functions-are-called', z3.BoolVal(False), n.get('line'))

    def inner_inv(self, cx):
        v = self.views['this']
        idx = cx.var('node__idx')
        A = v.A(idx)
        i = cx.var('i')
        agenda = cx.obj(cx.var('agenda'))
        return [('i-range', z3.And(-1 <= i, i < A)),
                ('agenda-height', agenda.len == self.F(idx) - (A - 1 - i)),
                ('enough-children-left', agenda.len >= i + 1)]

    def symbolic_param(self, eng, st, p):
        if p.name == 'leaves':
            return PyObj(z3.Const('leaves', Ref))
        return super().symbolic_param(eng, st, p)

    def post(self, cx, ret):
        v = self.views['this']
        n = v.v.len
        g = cx.st.ghost
        return [('consumed-exactly-num_leaves-leaves', M.iter_len(cx.old('leaves').ref) == v.NL(n - 1)),
                ('leaf-function-applied-exactly-once-per-leaf', g['leaf_calls'] == z3.If(self.given(cx, 'f_leaf'), v.NL(n - 1), 0)),
                ('node-function-applied-exactly-once-per-internal-node',
                 g['node_calls'] == z3.If(self.given(cx, 'f_node'), n - v.NL(n - 1), 0))]

    def raises(self, cx):
        v = self.views['this']
        n = v.v.len
        return {'pybind11::value_error': M.iter_len(cx.old('leaves').ref) != v.NL(n - 1),
                'pybind11::error_already_set': None, 'pybind11::cast_error': None}
