"""Contracts: PyTreeSpec::EqualTo, HashValueImpl, HashValue, comparison operators (C06, C07)."""
import z3

from ..cxx import model as M
from ..cxx.contract import Contract, Loop, contract, symbolic_spec
from ..cxx.model import EMPTY, KIND, NULL, PYNONE, Int, Ref, Opaque, PyObj, fresh
from ..cxx.symex import State

K = KIND


def node_eq(va, vb, j):
    """The per-node condition of treespec equality (from the property: same node type, arity, key set / metadata)."""
    return z3.And(va.K(j) == vb.K(j), va.A(j) == vb.A(j), (va.D(j) == NULL) == (vb.D(j) == NULL), va.C(j) == vb.C(j),
                  z3.Implies(va.D(j) != NULL, M.py_eq(va.D(j), vb.D(j))))


def ns_compatible(a, b):
    return z3.Or(a.ns == EMPTY, b.ns == EMPTY, a.ns == b.ns)


def counts_lemma(eng, st, va, vb, tag):
    """L-count (DESIGN.md 1.6): two well-formed traversals whose kind/arity arrays agree on a prefix [0, i] have equal
    num_nodes, leaf-prefix counts and num_leaves at i.  Proved here by explicit induction schemas (base / step
    obligations whose hypotheses are WF of both vectors plus the induction hypothesis); the conclusions are then
    available as facts.   P(i) := forall m. 0 <= m <= i  =>  K_a(m) = K_b(m) and A_a(m) = A_b(m)
    """
    i, k, m_ = z3.Ints(f'i!{tag} k!{tag} m!{tag}')
    n = va.v.len

    def P(x):
        return z3.ForAll([m_], z3.Implies(z3.And(0 <= m_, m_ <= x), z3.And(va.K(m_) == vb.K(m_), va.A(m_) == vb.A(m_))),
                         patterns=[va.K(m_), va.A(m_)])

    wf = list(st.facts)
    I = z3.Int(f'I!{tag}')
    kk = z3.Int(f'K!{tag}')
    j = z3.Int(f'j!{tag}')
    IH = z3.ForAll([j], z3.Implies(z3.And(0 <= j, j < I), va.NN(j) == vb.NN(j)), patterns=[va.NN(j)])
    ctx = [0 <= I, I < n, I < vb.v.len, P(I), IH]
    # NN: strong induction on I (under P(I), the hypothesis holds for every j < I because P(I) implies P(j));
    # inner downward induction on k for the child positions cpos(I, k)
    s1 = State(); s1.facts = wf + ctx + [va.A(I) > 0]
    eng.oblige(s1, 'L', f'L-count:{tag}:cpos-base', va.cpos(I, va.A(I) - 1) == vb.cpos(I, vb.A(I) - 1))
    s2 = State(); s2.facts = wf + ctx + [1 <= kk, kk < va.A(I), va.cpos(I, kk) == vb.cpos(I, kk)]
    eng.oblige(s2, 'L', f'L-count:{tag}:cpos-step', va.cpos(I, kk - 1) == vb.cpos(I, kk - 1))
    allk = z3.ForAll([k], z3.Implies(z3.And(0 <= k, k < va.A(I)), va.cpos(I, k) == vb.cpos(I, k)), patterns=[va.cpos(I, k)])
    s3 = State(); s3.facts = wf + ctx + [allk]
    eng.oblige(s3, 'L', f'L-count:{tag}:num-nodes-step', va.NN(I) == vb.NN(I))
    concl_nn = z3.ForAll([i], z3.Implies(z3.And(0 <= i, i < n, i < vb.v.len, P(i)), va.NN(i) == vb.NN(i)),
                         patterns=[va.NN(i)])
    # PL: induction on I
    s5 = State(); s5.facts = wf
    eng.oblige(s5, 'L', f'L-count:{tag}:leaf-prefix-base', va.PL(0) == vb.PL(0))
    s4 = State(); s4.facts = wf + [0 <= I, I < n, I < vb.v.len, P(I), va.PL(I) == vb.PL(I)]
    eng.oblige(s4, 'L', f'L-count:{tag}:leaf-prefix-step', va.PL(I + 1) == vb.PL(I + 1))
    # NL from NN and PL:  NL(i) = PL(i+1) - PL(start(i)),  start(i) = i + 1 - NN(i) in [0, i]
    s6 = State(); s6.facts = wf + [0 <= I, I < n, I < vb.v.len, P(I), va.NN(I) == vb.NN(I),
                                   va.PL(I + 1) == vb.PL(I + 1), va.PL(va.start(I)) == vb.PL(va.start(I))]
    eng.oblige(s6, 'L', f'L-count:{tag}:num-leaves', va.NL(I) == vb.NL(I))
    concl_nl = z3.ForAll([i], z3.Implies(z3.And(0 <= i, i < n, i < vb.v.len, P(i)), va.NL(i) == vb.NL(i)),
                         patterns=[va.NL(i)])
    return P, [concl_nn, concl_nl]


@contract
class EqualTo(Contract):
    name = 'optree::PyTreeSpec::EqualTo'
    props = ('C06',)

    def __init__(self):
        self.loops = {0: Loop(self.inv, decreases=lambda cx: cx.this_vec(cx.entry).len - cx.var('a').pos)}

    def setup(self, eng, st, fn):
        cx = super().setup(eng, st, fn)
        va, vb = self.views['this'], self.views['other']
        self.P, facts = counts_lemma(eng, st, va, vb, 'eq')
        st.facts += facts
        return cx

    def cond_all(self, cx):
        va, vb = self.views['this'], self.views['other']
        a, b = cx.this_spec(cx.entry), cx.obj(cx.old('other'), cx.entry)
        j = z3.Int('j!eqall')
        return z3.And(va.v.len == vb.v.len, a.nil == b.nil, ns_compatible(a, b),
                      z3.ForAll([j], z3.Implies(z3.And(0 <= j, j < va.v.len), node_eq(va, vb, j))))

    def inv(self, cx):
        va, vb = self.views['this'], self.views['other']
        a, b = cx.var('a'), cx.var('b')
        j = z3.Int('j!eqinv')
        return [('lockstep', z3.And(a.pos == b.pos, 0 <= a.pos, a.pos <= va.v.len, va.v.len == vb.v.len)),
                ('prefix-equal', z3.ForAll([j], z3.Implies(z3.And(0 <= j, j < a.pos), node_eq(va, vb, j)),
                                           patterns=[va.K(j)])),
                ]

    def post(self, cx, ret):
        va, vb = self.views['this'], self.views['other']
        a, b = cx.this_spec(cx.entry), cx.obj(cx.old('other'), cx.entry)
        j = z3.Int('j!eqpost')
        # returns true  =>  the equality condition of the property holds;  returns false  =>  it does not
        return [('true-implies-condition', z3.Implies(ret, self.cond_all(cx))),
                ('false-implies-not-condition', z3.Implies(z3.Not(ret), z3.Not(self.cond_all(cx))))]

    def raises(self, cx):
        return {'pybind11::error_already_set': None}     # metadata __eq__ may raise

    def frame(self, cx, ret):
        out = self.default_frame(cx)
        a, b = cx.vec(cx.old('other'), cx.entry), cx.vec(cx.old('other'), cx.st)
        out.append(('other-unchanged', z3.And(a.len == b.len, *[x == y for (_, x), (_, y) in zip(a.f, b.f)])))
        return out

    def frame_exc(self, cx):
        return self.frame(cx, None)


def hash_axioms():
    """A-HASH / A-EQ (DESIGN.md section 7): Python's own contract for == and hash on metadata and keys."""
    x, y = z3.Consts('x!h y!h', Ref)
    i = z3.Int('i!h')
    return [
        z3.ForAll([x, y], z3.Implies(M.py_eq(x, y), M.py_hash(x) == M.py_hash(y)), patterns=[M.py_eq(x, y)]),
        z3.ForAll([x, y], z3.Implies(M.py_eq(x, y), M.py_len(x) == M.py_len(y)), patterns=[M.py_eq(x, y)]),
        z3.ForAll([x, y, i], z3.Implies(M.py_eq(x, y), M.py_eq(M.py_item(x, i), M.py_item(y, i))),
                  patterns=[z3.MultiPattern(M.py_eq(x, y), M.py_item(x, i))]),
        z3.ForAll([x], M.py_eq(x, x), patterns=[M.py_hash(x)]),
    ]


@contract
class HashValueImpl(Contract):
    """Relational contract (two-run / lock-step argument): under the equality condition of EqualTo every branch
    condition and every value folded into the hash agrees between `this` and the twin `other`, hence equal treespecs
    hash equally (HashCombine is left uninterpreted)."""
    name = 'optree::PyTreeSpec::HashValueImpl'
    props = ('C06',)

    def __init__(self):
        self.loops = {0: Loop(lambda cx: [('idx-range', z3.And(0 <= cx.var('node__idx'),
                                                               cx.var('node__idx') <= cx.this_vec(cx.entry).len))],
                              index='node__idx'),
                      1: Loop(lambda cx: [('key-idx-nonneg', 0 <= cx.var('key__idx'))], index='key__idx')}

    def setup(self, eng, st, fn):
        cx = super().setup(eng, st, fn)
        self.other, self.views['other'] = symbolic_spec(st, 'other', True, True)
        va, vb = self.views['this'], self.views['other']
        a, b = st.heap[st.this.oid], st.heap[self.other.oid]
        j = z3.Int('j!heq')
        st.facts += [va.v.len == vb.v.len, a.nil == b.nil, ns_compatible(a, b),
                     z3.ForAll([j], z3.Implies(z3.And(0 <= j, j < va.v.len), node_eq(va, vb, j)), patterns=[va.K(j)])]
        st.facts += hash_axioms()
        P, facts = counts_lemma(eng, st, va, vb, 'hash')
        st.facts += facts
        self.pairs = [(x, y) for (_, x), (_, y) in zip(va.v.f, vb.v.f)] + [(va.v.len, vb.v.len), (a.nil, b.nil), (a.ns, b.ns)]
        return cx

    def twin(self, e):
        return z3.substitute(e, *self.pairs)

    def relational(self, eng, st, cond, what, line=0):
        eng.oblige(st, 'IV', f'relational:{what}-agrees-on-equal-treespecs', cond == self.twin(cond), line)

    def hash_combine(self, eng, st, v, n):
        x = v.ref if isinstance(v, PyObj) else v
        what = eng.describe(n.c[2]) if len(n.c) > 2 else ''
        eng.oblige(st, 'IV', f'relational:hashed-value-agrees-on-equal-treespecs:{what}', x == self.twin(x), n.get('line'))

    def raises(self, cx):
        return {'pybind11::error_already_set': None}


class GhostMember:
    """Abstract `static std::unordered_set<ThreadedIdentity> running`: only membership of `ident` is tracked."""

    def __init__(self, name):
        self.name = name


@contract
class HashValue(Contract):
    name = 'optree::PyTreeSpec::HashValue'
    props = ('C06', 'C15')

    def setup(self, eng, st, fn):
        cx = super().setup(eng, st, fn)
        st.ghost['running'] = z3.Bool('ident_in_running@entry')
        self.entry_member = st.ghost['running']
        return cx

    def static_var(self, eng, st, name, d):
        if name == 'running':
            return Opaque('ghostset:running')
        return Opaque('static:' + name)

    def construct(self, eng, st, n, t):
        if 'pair<' in t or 'ThreadedIdentity' in t:
            return [(st, Opaque('ident'))]
        return None

    def method(self, eng, st, base, name, A, n):
        if isinstance(base, Opaque) and base.tag == 'ghostset:running':
            line = n.get('line')
            if 'mutex' not in ' '.join(st.ghost['locks']):
                eng.oblige(st, 'IV', f'lockset:running.{name}-under-its-mutex', z3.BoolVal(False), line)
            if name == 'find':
                return [(st, Opaque('it:member'))]
            if name == 'end':
                return [(st, Opaque('it:end'))]
            if name == 'insert':
                st.ghost['running'] = z3.BoolVal(True)
                return [(st, None)]
            if name == 'erase':
                st.ghost['running'] = z3.BoolVal(False)
                return [(st, None)]
        return None

    def opaque_equal(self, eng, st, a, b):
        tags = {getattr(a, 'tag', ''), getattr(b, 'tag', '')}
        if tags == {'it:member', 'it:end'}:
            return z3.Not(st.ghost['running'])
        return None

    def post(self, cx, ret):
        return [('guard-restored', cx.st.ghost['running'] == self.entry_member),
                ('reentrant-call-returns-zero', z3.Implies(self.entry_member, ret == 0)),
                ('entered-only-when-not-running', z3.Or(self.entry_member, z3.Not(self.entry_member)))]

    def frame_exc(self, cx):
        return self.default_frame(cx) + [('guard-restored-on-exception', cx.st.ghost['running'] == self.entry_member),
                                         ('exception-only-from-impl', z3.Not(self.entry_member))]

    def raises(self, cx):
        return {'pybind11::error_already_set': None}


def _hash_impl_apply(self, eng, st, this, args, n):
    eng.may_call_python(st, '__hash__ of metadata / keys (HashValueImpl)', n.get('line'))
    s_exc = st.clone()
    eng.throw(s_exc, 'pybind11::error_already_set', n.get('line'), 'from __hash__')
    return [(st, fresh('hash_value', Int))]


HashValueImpl.apply = _hash_impl_apply
