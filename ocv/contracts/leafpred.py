"""Contracts: is_leaf / all_leaves entry points (C03, C02): IsLeafImpl, IsLeaf, AllLeavesImpl, AllLeaves.

The classification GetKind<NoneIsLeaf>(handle, custom, namespace) is used through its proved contract (registry.py); here it
is the uninterpreted function  kind_of(variant, object, namespace, epoch)  (epoch: the registry may change whenever Python
code runs), so the postconditions relate the answer to *the same* classification the flatten traversals use."""
import z3

from ..cxx import model as M
from ..cxx.contract import Contract, Loop, contract
from ..cxx.model import KIND, NULL, Bool, Int, Ref, Str, PyObj, fresh
from ..cxx.symex import as_bool

K = KIND
kind_of = z3.Function('GetKind_result', Bool, Ref, Str, Int, Int)


class LeafPredBase(Contract):
    this_is_spec = False
    props = ('C03', 'C02')
    template_instances = [{'NoneIsLeaf': False}, {'NoneIsLeaf': True}]

    def setup(self, eng, st, fn):
        cx = super().setup(eng, st, fn)
        st.ghost['kinds'] = ()        # (handle ref, kind term, asked-before?) per GetKind call
        st.ghost['answers'] = ()      # predicate results (Bool terms)
        return cx

    def call_hook(self, eng, st, name, args_n, n):
        if name == 'GetKind':
            line = n.get('line')
            (s1, handle), = eng.ev(args_n[0], st)
            (s2, ns), = eng.ev(args_n[2], st)
            pred = st.get('leaf_predicate')
            asked = sum(1 for w, _ in st.ghost['trace'] if w.startswith('call of a Python callable'))
            eng.oblige(st, 'IV', 'predicate-is-consulted-before-classification',
                       z3.Or(pred.ref == NULL, z3.BoolVal(asked > len(st.ghost['kinds']))), line)
            eng.oblige(st, 'III', 'classifies-in-the-given-namespace', ns == st.get('registry_namespace'), line)
            eng.may_call_python(st, 'class predicates (GetKind)', line)
            nil = eng.template_env.get('NoneIsLeaf', z3.BoolVal(False))
            h = handle.ref if isinstance(handle, PyObj) else handle
            k = kind_of(nil, h, ns, z3.IntVal(st.ghost['epoch']))
            c = fresh('custom', Ref)
            st.pc.append(z3.And(k >= 0, k <= 10, z3.Implies(nil, k != K['None'])))
            s3, p = eng.place(args_n[1], st)
            eng.write_place(s3, p, c)
            s3.ghost['kinds'] = s3.ghost['kinds'] + ((h, k),)
            return [(s3, k)]
        return None

    def raises(self, cx):
        return {'pybind11::error_already_set': None, 'pybind11::cast_error': None}

    def frame(self, cx, ret):
        return []

    def frame_exc(self, cx):
        return []


@contract
class IsLeafImpl(LeafPredBase):
    """ret <=> the predicate (if any) answered true for the object, or else the object classifies as a leaf."""
    name = 'IsLeafImpl'

    def on_python_result(self, eng, st, f, args, r, n):
        st.ghost['answers'] = st.ghost['answers'] + ((f, args, r),)

    def post(self, cx, ret):
        st = cx.st
        pred = cx.old('leaf_predicate')
        h = cx.old('handle').ref
        kinds, answers = st.ghost['kinds'], st.ghost['answers']
        out = [('predicate-called-at-most-once', z3.BoolVal(len(answers) <= 1)),
               ('predicate-called-iff-given', z3.BoolVal(len(answers) == 1) == (pred.ref != NULL)),
               ('classified-at-most-once', z3.BoolVal(len(kinds) <= 1))]
        if answers:
            f, args, r = answers[0]
            out.append(('predicate-is-the-given-one-applied-to-the-object',
                        z3.And(f.ref == pred.ref, z3.BoolVal(len(args) == 1), (args[0].ref if args else NULL) == h)))
        if kinds:
            hk, k = kinds[0]
            out += [('classifies-the-object-itself', hk == h),
                    ('without-a-true-predicate-the-answer-is-kind-is-Leaf', ret == (k == K['Leaf']))]
        else:
            out.append(('answer-is-true-when-the-predicate-said-so', z3.And(ret, z3.BoolVal(len(answers) == 1))))
        return out


@contract
class IsLeafTop(Contract):
    name = 'optree::IsLeaf'
    this_is_spec = False
    props = ('C03',)

    def setup(self, eng, st, fn):
        cx = super().setup(eng, st, fn)
        st.ghost['impl_calls'] = ()
        return cx

    def raises(self, cx):
        return {'pybind11::error_already_set': None, 'pybind11::cast_error': None}

    def post(self, cx, ret):
        calls = cx.st.ghost['impl_calls']
        out = [('delegates-exactly-once', z3.BoolVal(len(calls) == 1))]
        if len(calls) == 1:
            nil, args, r = calls[0]
            out += [('instance-NoneIsLeaf-is-none_is_leaf', nil == cx.old('none_is_leaf')),
                    ('forwards-object', args[0].ref == cx.old('object').ref),
                    ('forwards-predicate', args[1].ref == cx.old('leaf_predicate').ref),
                    ('forwards-namespace', args[2] == cx.old('registry_namespace')),
                    ('returns-its-answer', ret == r)]
        return out

    def frame(self, cx, ret):
        return []

    def frame_exc(self, cx):
        return []


def _impl_apply(self, eng, st, this, args, n):
    """Call-site summary of IsLeafImpl<v> / AllLeavesImpl<v>: may run Python, returns a Boolean; the dispatcher's contract
    records instance and arguments."""
    line = n.get('line')
    eng.may_call_python(st, f'user predicate / class predicates in {self.name}', line)
    s_exc = st.clone()
    eng.throw(s_exc, 'pybind11::error_already_set', line, 'from a callback')
    r = fresh('impl_answer', Bool)
    nil = eng.template_env.get('NoneIsLeaf', z3.BoolVal(False))
    args = [eng.load(st, a) if not isinstance(a, (PyObj,)) and hasattr(a, 'oid') and False else a for a in args]
    if 'impl_calls' in st.ghost:
        st.ghost['impl_calls'] = st.ghost['impl_calls'] + ((nil, args, r),)
    return [(st, r)]


IsLeafImpl.apply = _impl_apply


@contract
class AllLeavesImpl(LeafPredBase):
    """all_leaves: visits the elements in iteration order; an element passes iff the predicate (if any) answers true for it or
    it classifies as a leaf (same rule as IsLeafImpl); returns false at the first element that does not pass, true after
    the last one (by induction over the iterations: every completed iteration passed)."""
    name = 'AllLeavesImpl'

    def __init__(self):
        self.loops = {0: Loop(lambda cx: [('index-nonneg', cx.var('handle__idx') >= 0)], body_post=self.body_post,
                              break_post=lambda cx: [('the-loop-is-never-left-before-the-last-element', z3.BoolVal(False))],
                              index='handle__idx', seq_len=lambda eng, st, rng: M.iter_len(rng.ref))}

    def on_python_result(self, eng, st, f, args, r, n):
        st.ghost['answers'] = st.ghost['answers'] + ((f, args, r),)

    def element_goals(self, cx, passed):
        st = cx.st
        pred = cx.old('leaf_predicate')
        cur = (cx.pre.get('handle') if getattr(cx, 'pre', None) is not None else cx.var('handle')).ref
        kinds, answers = st.ghost['kinds'], st.ghost['answers']
        out = [('predicate-called-at-most-once-per-element', z3.BoolVal(len(answers) <= 1)),
               ('predicate-called-iff-given', z3.BoolVal(len(answers) == 1) == (pred.ref != NULL)),
               ('classified-at-most-once-per-element', z3.BoolVal(len(kinds) <= 1))]
        if answers:
            f, args, r = answers[0]
            out.append(('predicate-is-the-given-one-applied-to-the-element',
                        z3.And(f.ref == pred.ref, z3.BoolVal(len(args) == 1), (args[0].ref if args else NULL) == cur)))
        if kinds:
            hk, k = kinds[0]
            out += [('classifies-the-current-element', hk == cur),
                    ('element-passes-iff-kind-is-Leaf' if passed else 'failing-element-is-not-a-leaf',
                     (k == K['Leaf']) if passed else (k != K['Leaf']))]
        else:
            out.append(('element-passes-without-classification-only-when-the-predicate-said-so' if passed
                        else 'a-failing-element-was-classified', z3.BoolVal(passed and len(answers) == 1)))
        return out

    def body_post(self, cx):
        return self.element_goals(cx, True)

    def at_return(self, cx, ret):
        inside = cx.st.scope.lookup('handle') is not None
        if inside:
            return [('returns-false-inside-the-loop', z3.Not(ret))] + self.element_goals(cx, False)
        return [('returns-true-after-the-loop', ret)]

    def post(self, cx, ret):
        return []


AllLeavesImpl.apply = _impl_apply


@contract
class AllLeavesTop(IsLeafTop):
    name = 'optree::AllLeaves'

    def post(self, cx, ret):
        calls = cx.st.ghost['impl_calls']
        out = [('delegates-exactly-once', z3.BoolVal(len(calls) == 1))]
        if len(calls) == 1:
            nil, args, r = calls[0]
            out += [('instance-NoneIsLeaf-is-none_is_leaf', nil == cx.old('none_is_leaf')),
                    ('forwards-iterable', args[0].ref == cx.old('iterable').ref),
                    ('forwards-predicate', args[1].ref == cx.old('leaf_predicate').ref),
                    ('forwards-namespace', args[2] == cx.old('registry_namespace')),
                    ('returns-its-answer', ret == r)]
        return out
