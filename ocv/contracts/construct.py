"""Contracts: treespec constructors and entries (C08, C04): Entries, MakeLeaf, MakeNone."""
import z3

from ..cxx import model as M
from ..cxx.contract import Contract, Loop, contract, forall
from ..cxx.model import EMPTY, KIND, NULL, PYNONE, Bool, Int, Ref, Str, NodeVec, Opaque, Ptr, PyObj, fresh
from .inspect import seq_kind

K = KIND


@contract
class Entries(Contract):
    """entries(): a new list of arity items; the custom node_entries when present, else 0..arity-1 for sequence-like kinds,
    else a copy of the key list (Dict/OrderedDict: node_data, DefaultDict: node_data[1]); [] for leaf / None."""
    name = 'optree::PyTreeSpec::Entries'
    props = ('C04', 'C08', 'C14')

    def __init__(self):
        self.loops = {0: Loop(self.inv, decreases=lambda cx: self.root(cx)[1] - cx.var('i'))}

    def root(self, cx):
        v = self.views['this']
        r = v.v.len - 1
        return r, v.A(r), v.K(r), v.D(r), v.E(r)

    def inv(self, cx):
        r, A, k, D, E = self.root(cx)
        i = cx.var('i')
        lst = cx.var('entries').ref
        j = z3.Int('j!ent')
        items = cx.items(cx.var('entries'))
        out = [('i-range', z3.And(0 <= i, i <= A)),
               ('list-has-arity-slots', M.py_len(lst) == A)]
        if items is not None:
            out.append(('slots-below-i-hold-their-index',
                        forall([j], z3.Implies(z3.And(0 <= j, j < i), z3.Select(items, j) == M.py_int(j)),
                               patterns=[z3.Select(items, j)])))
        return out

    def post(self, cx, ret):
        r, A, k, D, E = self.root(cx)
        j = z3.Int('j!entp')
        rng = z3.And(0 <= j, j < A)
        src = z3.If(E != NULL, E, z3.If(k == K['DefaultDict'], M.py_item(D, 1), D))
        return [('result-is-a-new-object', z3.BoolVal(bool(ret.fresh))),
                ('sequence-like-without-custom-entries:length-is-arity',
                 z3.Implies(z3.And(E == NULL, seq_kind(k)), M.py_len(ret.ref) == A)),
                ('sequence-like-without-custom-entries:item-j-is-j',
                 z3.Implies(z3.And(E == NULL, seq_kind(k), rng), M.py_item(ret.ref, j) == M.py_int(j))),
                ('leaf-or-none-without-custom-entries:empty',
                 z3.Implies(z3.And(E == NULL, z3.Or(k == K['Leaf'], k == K['None'])), M.py_len(ret.ref) == 0)),
                ('otherwise:copy-of-the-stored-entries-or-keys',
                 z3.Implies(z3.Or(E != NULL, k == K['Dict'], k == K['OrderedDict'], k == K['DefaultDict']),
                            z3.And(M.py_len(ret.ref) == M.py_len(src),
                                   z3.Implies(z3.And(0 <= j, j < M.py_len(src)), M.py_item(ret.ref, j) == M.py_item(src, j)))))]

    def raises(self, cx):
        return {'pybind11::error_already_set': None}


class MakeAtom(Contract):
    """treespec_leaf / treespec_none: a one-node treespec with the given none_is_leaf and the global namespace."""
    this_is_spec = False
    static = True
    props = ('C08',)
    leaf = True

    def post(self, cx, ret):
        spec = cx.st.heap[ret.oid]
        t = cx.st.heap[spec.trav]
        nil = cx.old('none_is_leaf')
        as_leaf = z3.Or(z3.BoolVal(self.leaf), nil)
        return [('one-node', t.len == 1),
                ('kind', t.sel('kind', 0) == z3.If(as_leaf, K['Leaf'], K['None'])),
                ('arity-zero', t.sel('arity', 0) == 0),
                ('num_leaves', t.sel('num_leaves', 0) == z3.If(as_leaf, 1, 0)),
                ('num_nodes', t.sel('num_nodes', 0) == 1),
                ('no-payload', z3.And(t.sel('node_data', 0) == NULL, t.sel('node_entries', 0) == NULL,
                                      t.sel('custom', 0) == NULL, t.sel('original_keys', 0) == NULL)),
                ('records-none_is_leaf', spec.nil == nil),
                ('global-namespace', spec.ns == EMPTY)]

    def raises(self, cx):
        return {}

    def frame(self, cx, ret):
        return []


@contract
class MakeLeaf(MakeAtom):
    name = 'optree::PyTreeSpec::MakeLeaf'
    leaf = True
    inline = True          # MakeNone delegates to it: the body is re-executed at that call site


@contract
class MakeNone(MakeAtom):
    name = 'optree::PyTreeSpec::MakeNone'
    leaf = False


# ======================================================================================================================
# treespec_from_collection (C08, C15, C16)

from ..cxx.symex import Unsupported, as_bool  # noqa: E402
from .dictorder import OmegaMixin  # noqa: E402

off = z3.Function('children_offset', Int, Int)          # ghost: number of nodes of the first k child treespecs
snl = z3.Function('children_leaves', Int, Int)          # ghost: number of leaves of the first k child treespecs


@contract
class MakeFromCollectionImpl(OmegaMixin, Contract):
    """treespec_from_collection(obj): obj is classified once (GetKind); its children must all be treespecs with the given
    none_is_leaf and at most one distinct non-empty namespace (compatible with the given one).  The result is the
    concatenation of the children's traversals, in order, followed by one root node whose kind / registration are the
    classification of obj, arity = number of children, num_nodes = total + 1, num_leaves = sum of the children's (1 for a
    leaf); none_is_leaf as given; the namespace rule of the property text.  The error indicator is clear on return.
    Every PyTreeSpec object that exists is well-formed (A-WF-EXT): non-empty, root.num_nodes = its length."""
    name = 'optree::PyTreeSpec::MakeFromCollectionImpl'
    static = True
    this_is_spec = False
    props = ('C08', 'C15', 'C16')
    template_instances = [{'NoneIsLeaf': False}, {'NoneIsLeaf': True}]

    def __init__(self):
        def counted(var):
            return Loop(lambda cx: [('i-range', z3.And(0 <= cx.var(var), cx.var(var) <= cx.var('node').get('arity'))),
                                    ('one-child-per-index', cx.obj(cx.var('children')).len == cx.var(var))],
                        decreases=lambda cx: cx.var('node').get('arity') - cx.var(var))
        keys = Loop(lambda cx: [('key-index-range', z3.And(0 <= cx.var('key__idx'), cx.var('key__idx') <= M.py_len(cx.var('keys').ref))),
                                ('one-child-per-key', cx.obj(cx.var('children')).len == cx.var('key__idx')),
                                ('arity-is-the-number-of-keys', cx.var('node').get('arity') == M.py_len(cx.var('keys').ref))],
                    index='key__idx')
        custom = Loop(lambda cx: [('child-index-nonneg', 0 <= cx.var('child__idx')),
                                  ('arity-counts-the-children', z3.And(cx.var('node').get('arity') == cx.var('child__idx'),
                                                                       cx.obj(cx.var('children')).len == cx.var('child__idx'))),
                                  ('node-keeps-the-metadata-and-has-no-entries-yet',
                                   z3.And(cx.var('node').get('node_data') == M.py_item(self.as_tuple(cx.st.ghost['flatten_result']), 1),
                                          cx.var('node').get('node_entries') == NULL,
                                          cx.var('node').get('original_keys') == NULL))],
                      index='child__idx', seq_len=lambda eng, st, rng: M.iter_len(rng.ref))
        self.loops = {0: Loop(self.cast_inv, index='child__idx'), 1: Loop(self.ns_inv, index='treespec__idx'),
                      2: Loop(self.cast_inv, index='child__idx'), 3: Loop(self.ns_inv, index='treespec__idx'),
                      4: counted('i'), 5: counted('i'), 6: keys, 7: counted('i'), 8: counted('i'), 9: custom,
                      10: Loop(self.concat_inv, index='treespec__idx', hints=self.concat_hints)}
        for lp in self.loops.values():
            lp.inv = (lambda inner: lambda cx: inner(cx) + self.keeps_classification(cx))(lp.inv)

    def keeps_classification(self, cx):
        cl = cx.st.ghost.get('classified')
        node = cx.var('node')
        return [('node-keeps-its-classification', z3.And(node.get('kind') == cl[0], node.get('custom') == cl[1]))] if cl else []

    # -- verify_children, first loop: every child is a PyTreeSpec and is copied into treespecs in order --------------------
    def cast_inv(self, cx):
        ch, ts = cx.obj(cx.var('children')), cx.obj(cx.var('treespecs'))
        idx = cx.var('child__idx')
        isi = z3.Function('py_isinstance_PyTreeSpec', Ref, Bool)
        j = z3.Int('j!mc')
        return [('index-range', z3.And(0 <= idx, idx <= ch.len)),
                ('one-treespec-per-child-so-far', ts.len == idx),
                ('treespec-k-is-child-k', forall([j], z3.Implies(z3.And(0 <= j, j < idx),
                                                                 z3.And(z3.Select(ts.arr, j) == z3.Select(ch.arr, j),
                                                                        isi(z3.Select(ch.arr, j)))), patterns=[z3.Select(ts.arr, j)]))]

    # -- verify_children, second loop: flags and namespaces of the children ---------------------------------------------
    def ns_inv(self, cx):
        ts = cx.obj(cx.var('treespecs'))
        idx = cx.var('treespec__idx')
        common = cx.var('common_registry_namespace')
        nil = cx.eng.template_env.get('NoneIsLeaf', z3.BoolVal(False))
        j = z3.Int('j!ns')
        e = lambda jj: z3.Select(ts.arr, jj)
        return [('index-range', z3.And(0 <= idx, idx <= ts.len)),
                ('children-so-far-have-the-given-none_is_leaf', forall([j], z3.Implies(z3.And(0 <= j, j < idx), M.ext_spec_nil(e(j)) == nil),
                                                                       patterns=[M.ext_spec_nil(e(j))])),
                ('children-so-far-have-no-namespace-or-the-common-one',
                 forall([j], z3.Implies(z3.And(0 <= j, j < idx), z3.Or(M.ext_spec_ns(e(j)) == EMPTY, M.ext_spec_ns(e(j)) == common)),
                        patterns=[M.ext_spec_ns(e(j))])),
                ('a-common-namespace-is-the-namespace-of-some-child-so-far',
                 z3.Or(common == EMPTY, z3.Exists([j], z3.And(0 <= j, j < idx, M.ext_spec_ns(e(j)) == common)))),
                ('no-common-namespace-means-none-so-far',
                 forall([j], z3.Implies(z3.And(0 <= j, j < idx, common == EMPTY), M.ext_spec_ns(e(j)) == EMPTY),
                        patterns=[M.ext_spec_ns(e(j))]))]

    # -- final loop: the children's traversals are concatenated in order ---------------------------------------------------
    def concat_inv(self, cx):
        ts = cx.obj(cx.var('treespecs'))
        idx = cx.var('treespec__idx')
        out = cx.st.heap[cx.st.heap[cx.var('out').oid].trav]
        e = lambda jj: z3.Select(ts.arr, jj)
        base = z3.If(cx.var('node').get('kind') == K['Leaf'], 1, 0)
        k, j = z3.Ints('k!cc j!cc')
        inv = [('index-range', z3.And(0 <= idx, idx <= ts.len)),
               ('nodes-so-far', out.len == off(idx)),
               ('leaves-so-far', cx.var('num_leaves') == base + snl(idx)),
               ('offsets-are-ordered', forall([k], z3.Implies(z3.And(0 <= k, k < idx),
                                                              z3.And(off(k) >= 0, off(k) + M.ext_spec_len(e(k)) <= off(idx))),
                                              patterns=[off(k)]))]
        for f in M.NODE_FIELDS:
            inv.append((f'child-traversals-copied-in-order:{f}',
                        forall([k, j], z3.Implies(z3.And(0 <= k, k < idx, 0 <= j, j < M.ext_spec_len(e(k))),
                                                  out.sel(f, off(k) + j) == z3.Select(M.ext_spec_arr[f](e(k)), j)),
                               patterns=[z3.Select(M.ext_spec_arr[f](e(k)), j)])))
        return inv

    def concat_hints(self, cx):
        ts = cx.obj(cx.var('treespecs'))
        idx = cx.var('treespec__idx')
        r = z3.Select(ts.arr, idx)
        L = M.ext_spec_len(r)
        return [('offset-step', z3.Implies(z3.And(0 <= idx, idx < ts.len), off(idx + 1) == off(idx) + L), 'instance'),
                ('leaves-step', z3.Implies(z3.And(0 <= idx, idx < ts.len),
                                           snl(idx + 1) == snl(idx) + z3.Select(M.ext_spec_arr['num_leaves'](r), L - 1)), 'instance')]

    def setup(self, eng, st, fn):
        self.setup_omega(eng, st) if hasattr(self, 'setup_omega') else None
        cx = super().setup(eng, st, fn)
        r = z3.Const('r!ext', Ref)
        isi = z3.Function('py_isinstance_PyTreeSpec', Ref, Bool)
        nn, nl = M.ext_spec_arr['num_nodes'], M.ext_spec_arr['num_leaves']
        st.facts.append(z3.ForAll([r], z3.Implies(isi(r), z3.And(M.ext_spec_len(r) >= 1,
                                                                  z3.Select(nn(r), M.ext_spec_len(r) - 1) == M.ext_spec_len(r),
                                                                  z3.Select(nl(r), M.ext_spec_len(r) - 1) >= 0)),
                                  patterns=[M.ext_spec_len(r)]))
        st.facts += [off(z3.IntVal(0)) == 0, snl(z3.IntVal(0)) == 0]
        st.ghost['pyerr'] = z3.BoolVal(False)
        return cx

    def call_hook(self, eng, st, name, args_n, n):
        if name == 'GetKind':
            line = n.get('line')
            eng.may_call_python(st, 'class predicates (GetKind)', line)
            k, c = fresh('kind', Int), fresh('custom', Ref)
            nil = eng.template_env.get('NoneIsLeaf', z3.BoolVal(False))
            st.pc.append(z3.And(k >= 0, k <= 10, (k == K['Custom']) == (c != NULL), z3.Implies(nil, k != K['None']),
                                z3.Implies(c != NULL, z3.And(M.reg_type(c) != NULL, M.reg_pet(c) != NULL))))
            s2, p = eng.place(args_n[1], st)
            eng.write_place(s2, p, c)
            s2.ghost['classified'] = (k, c)
            return [(s2, k)]
        return None

    @staticmethod
    def as_tuple(x):
        return z3.If(M.py_is_tuple(x), x, z3.Function('py_convert_tuple', Ref, Ref)(x))

    def cast_spec(self, eng, st, o):
        return o          # a treespec copied from an existing object is identified by that object

    def on_python_result(self, eng, st, f, args, r, n):
        st.ghost['flatten_result'] = r.ref

    def on_mode_query(self, eng, st, args, n):
        # C13: the constructor follows the dict-order mode of the namespace its CALLER passed - not of a namespace inferred
        # from the children later on
        eng.oblige(st, 'III', 'dict-order-mode-is-asked-for-the-namespace-the-caller-passed',
                   args[0] == eng.fn_entry.get('registry_namespace'), n.get('line'))

    def on_getattr(self, eng, st, obj, attr, res, n):
        h = st.get('handle')
        if obj.ref.eq(h.ref if isinstance(h, PyObj) else h):
            st.ghost['attr:' + attr] = res.ref            # an attribute of THIS collection

    def on_dict_keys_result(self, eng, st, d, r, n):
        st.ghost['dict_keys'] = r                          # the key list made for THIS dict node

    def raises(self, cx):
        return {'pybind11::value_error': None, 'std::runtime_error': None, 'pybind11::error_already_set': None,
                'pybind11::cast_error': None}

    def post(self, cx, ret):
        return []

    def at_return(self, cx, ret):
        spec = cx.st.heap[ret.oid]
        t = cx.st.heap[spec.trav]
        last = t.len - 1
        k, c = cx.st.ghost['classified']
        nil = cx.eng.template_env.get('NoneIsLeaf', z3.BoolVal(False))
        ts = cx.obj(cx.var('treespecs'))
        ch = cx.obj(cx.var('children'))
        n = ts.len
        e = lambda jj: z3.Select(ts.arr, jj)
        given = cx.old('registry_namespace')
        kk, j = z3.Ints('k!mp j!mp')
        base = z3.If(k == K['Leaf'], 1, 0)
        out = [('root-node-is-last', t.len >= 1),
               ('root-kind-is-the-classification-of-the-object', t.sel('kind', last) == k),
               ('root-registration-is-the-classification-of-the-object', t.sel('custom', last) == c),
               ('one-treespec-per-child', n == ch.len),
               ('root-arity-is-the-number-of-children', t.sel('arity', last) == n),
               ('root-num_nodes-is-the-total', z3.And(t.sel('num_nodes', last) == t.len, t.len == off(n) + 1)),
               ('root-num_leaves-is-the-sum-of-the-childrens-leaves', t.sel('num_leaves', last) == base + snl(n)),
               ('records-none_is_leaf', spec.nil == nil),
               ('children-have-the-same-none_is_leaf', forall([kk], z3.Implies(z3.And(0 <= kk, kk < n), M.ext_spec_nil(e(kk)) == nil))),
               ('namespace-of-the-children-or-else-the-given-one-for-custom-nodes',
                forall([kk], z3.Implies(z3.And(0 <= kk, kk < n, M.ext_spec_ns(e(kk)) != EMPTY),
                                        z3.And(spec.ns == M.ext_spec_ns(e(kk)), z3.Or(given == EMPTY, given == spec.ns))))),
               ('without-namespaced-children:given-namespace-only-for-custom-nodes-(and-childless-leaf-or-None)',
                z3.Implies(forall([kk], z3.Implies(z3.And(0 <= kk, kk < n), M.ext_spec_ns(e(kk)) == EMPTY)),
                           spec.ns == z3.If(z3.Or(k == K['Custom'], k == K['Leaf'], k == K['None']), given, EMPTY))),
               ('error-indicator-clear-on-return', z3.Not(cx.st.ghost['pyerr'])),
               # unflatten rebuilds dict / defaultdict in source key order and pickling requires the field (C01, C11)
               ('exactly-dict-and-defaultdict-roots-record-their-original-key-order',
                z3.Or(k == K['Dict'], k == K['DefaultDict']) == (t.sel('original_keys', last) != NULL))]
        # payload of the root node
        as_tuple = lambda x: z3.If(M.py_is_tuple(x), x, z3.Function('py_convert_tuple', Ref, Ref)(x))
        h = cx.old('handle').ref
        out.append(('namedtuple-or-structseq-root-records-the-class',
                    z3.Implies(z3.Or(k == K['NamedTuple'], k == K['StructSequence']), t.sel('node_data', last) == M.py_type(h))))
        nd = t.sel('node_data', last)
        g = cx.st.ghost
        is_k = lambda *names: z3.Or(*[k == K[nm] for nm in names])
        keys = g.get('dict_keys')
        df, ml = g.get('attr:default_factory'), g.get('attr:maxlen')
        out += [('tuple-list-none-and-leaf-roots-carry-no-metadata', z3.Implies(is_k('Tuple', 'List', 'None', 'Leaf'), nd == NULL)),
                ('dict-and-ordereddict-roots-record-the-key-list-that-was-traversed',
                 z3.Implies(is_k('Dict', 'OrderedDict'), nd == keys if keys is not None else z3.BoolVal(False))),
                ('defaultdict-root-records-(default_factory, the key list that was traversed)',
                 z3.Implies(is_k('DefaultDict'), z3.And(M.py_len(nd) == 2, M.py_item(nd, 0) == df, M.py_item(nd, 1) == keys)
                            if keys is not None and df is not None else z3.BoolVal(False))),
                ('deque-root-records-its-maxlen', z3.Implies(is_k('Deque'), nd == ml if ml is not None else z3.BoolVal(False)))]
        fr = cx.st.ghost.get('flatten_result')
        if fr is not None:
            T = as_tuple(fr)
            ent = M.py_item(T, 2)
            has_entries = z3.And(M.py_len(T) == 3, ent != PYNONE)
            out += [('custom-root-records-the-metadata-of-its-flatten-result', z3.Implies(k == K['Custom'], t.sel('node_data', last) == M.py_item(T, 1))),
                    ('custom-root-records-the-path-entries-of-its-flatten-result',
                     z3.Implies(k == K['Custom'], t.sel('node_entries', last) == z3.If(has_entries, as_tuple(ent), NULL)))]
        else:
            out.append(('non-custom-root-has-no-path-entries', t.sel('node_entries', last) == NULL))
        for f in M.NODE_FIELDS:
            out.append((f'child-traversals-concatenated-in-order:{f}',
                        forall([kk, j], z3.Implies(z3.And(0 <= kk, kk < n, 0 <= j, j < M.ext_spec_len(e(kk))),
                                                   t.sel(f, off(kk) + j) == z3.Select(M.ext_spec_arr[f](e(kk)), j)),
                               patterns=[z3.Select(M.ext_spec_arr[f](e(kk)), j)])))
        return out

    def frame(self, cx, ret):
        return []

    def frame_exc(self, cx):
        return []


def _mfc_apply(self, eng, st, this, args, n):
    """Call-site summary of MakeFromCollectionImpl<v>: may run Python, returns a new treespec; the dispatcher's contract records
    instance and arguments."""
    from ..cxx.calls import new_spec
    line = n.get('line')
    eng.may_call_python(st, 'user callbacks in MakeFromCollectionImpl', line)
    s_exc = st.clone()
    eng.throw(s_exc, 'pybind11::error_already_set', line, 'from a callback / a rejected collection')
    r = new_spec(st)
    nil = eng.template_env.get('NoneIsLeaf', z3.BoolVal(False))
    if 'impl_calls' in st.ghost:
        st.ghost['impl_calls'] = st.ghost['impl_calls'] + ((nil, args, r),)
    return [(st, r)]


MakeFromCollectionImpl.apply = _mfc_apply


@contract
class MakeFromCollection(Contract):
    name = 'optree::PyTreeSpec::MakeFromCollection'
    static = True
    this_is_spec = False
    props = ('C08',)

    def setup(self, eng, st, fn):
        cx = super().setup(eng, st, fn)
        st.ghost['impl_calls'] = ()
        return cx

    def raises(self, cx):
        return {'pybind11::error_already_set': None}

    def post(self, cx, ret):
        calls = cx.st.ghost['impl_calls']
        out = [('delegates-exactly-once', z3.BoolVal(len(calls) == 1))]
        if len(calls) == 1:
            nil, args, r = calls[0]
            out += [('instance-NoneIsLeaf-is-none_is_leaf', nil == cx.old('none_is_leaf')),
                    ('forwards-the-object', args[0].ref == cx.old('object').ref),
                    ('forwards-the-namespace', args[1] == cx.old('registry_namespace')),
                    ('returns-its-result', z3.BoolVal(ret.oid == r.oid))]
        return out

    def frame(self, cx, ret):
        return []

    def frame_exc(self, cx):
        return []
