"""Contracts: treespec constructors and entries (C08, C04): Entries, MakeLeaf, MakeNone."""
import z3

from ..cxx import model as M
from ..cxx.contract import Contract, Loop, contract, forall
from ..cxx.model import EMPTY, KIND, NULL, PYNONE, Bool, Int, Ref, Str, NodeVec, Opaque, Ptr, PyObj, fresh
from .inspect import seq_kind

K = KIND


@contract
class Entries(Contract):
    """entries(): a new list of arity items; the custom node_entries when present, else 0..arity-1 for sequence-like kinds,
    else a copy of the key list (Dict/OrderedDict: node_data, DefaultDict: node_data[1]); [] for leaf / None."""
    name = 'optree::PyTreeSpec::Entries'
    props = ('C04', 'C08', 'C14')

    def __init__(self):
        self.loops = {0: Loop(self.inv, decreases=lambda cx: self.root(cx)[1] - cx.var('i'))}

    def root(self, cx):
        v = self.views['this']
        r = v.v.len - 1
        return r, v.A(r), v.K(r), v.D(r), v.E(r)

    def inv(self, cx):
        r, A, k, D, E = self.root(cx)
        i = cx.var('i')
        lst = cx.var('entries').ref
        j = z3.Int('j!ent')
        items = cx.items(cx.var('entries'))
        out = [('i-range', z3.And(0 <= i, i <= A)),
               ('list-has-arity-slots', M.py_len(lst) == A)]
        if items is not None:
            out.append(('slots-below-i-hold-their-index',
                        forall([j], z3.Implies(z3.And(0 <= j, j < i), z3.Select(items, j) == M.py_int(j)),
                               patterns=[z3.Select(items, j)])))
        return out

    def post(self, cx, ret):
        r, A, k, D, E = self.root(cx)
        j = z3.Int('j!entp')
        rng = z3.And(0 <= j, j < A)
        src = z3.If(E != NULL, E, z3.If(k == K['DefaultDict'], M.py_item(D, 1), D))
        return [('result-is-a-new-object', z3.BoolVal(bool(ret.fresh))),
                ('sequence-like-without-custom-entries:length-is-arity',
                 z3.Implies(z3.And(E == NULL, seq_kind(k)), M.py_len(ret.ref) == A)),
                ('sequence-like-without-custom-entries:item-j-is-j',
                 z3.Implies(z3.And(E == NULL, seq_kind(k), rng), M.py_item(ret.ref, j) == M.py_int(j))),
                ('leaf-or-none-without-custom-entries:empty',
                 z3.Implies(z3.And(E == NULL, z3.Or(k == K['Leaf'], k == K['None'])), M.py_len(ret.ref) == 0)),
                ('otherwise:copy-of-the-stored-entries-or-keys',
                 z3.Implies(z3.Or(E != NULL, k == K['Dict'], k == K['OrderedDict'], k == K['DefaultDict']),
                            z3.And(M.py_len(ret.ref) == M.py_len(src),
                                   z3.Implies(z3.And(0 <= j, j < M.py_len(src)), M.py_item(ret.ref, j) == M.py_item(src, j)))))]

    def raises(self, cx):
        return {'pybind11::error_already_set': None}


class MakeAtom(Contract):
    """treespec_leaf / treespec_none: a one-node treespec with the given none_is_leaf and the global namespace."""
    this_is_spec = False
    static = True
    props = ('C08',)
    leaf = True

    def post(self, cx, ret):
        spec = cx.st.heap[ret.oid]
        t = cx.st.heap[spec.trav]
        nil = cx.old('none_is_leaf')
        as_leaf = z3.Or(z3.BoolVal(self.leaf), nil)
        return [('one-node', t.len == 1),
                ('kind', t.sel('kind', 0) == z3.If(as_leaf, K['Leaf'], K['None'])),
                ('arity-zero', t.sel('arity', 0) == 0),
                ('num_leaves', t.sel('num_leaves', 0) == z3.If(as_leaf, 1, 0)),
                ('num_nodes', t.sel('num_nodes', 0) == 1),
                ('no-payload', z3.And(t.sel('node_data', 0) == NULL, t.sel('node_entries', 0) == NULL,
                                      t.sel('custom', 0) == NULL, t.sel('original_keys', 0) == NULL)),
                ('records-none_is_leaf', spec.nil == nil),
                ('global-namespace', spec.ns == EMPTY)]

    def raises(self, cx):
        return {}

    def frame(self, cx, ret):
        return []


@contract
class MakeLeaf(MakeAtom):
    name = 'optree::PyTreeSpec::MakeLeaf'
    leaf = True
    inline = True          # MakeNone delegates to it: the body is re-executed at that call site


@contract
class MakeNone(MakeAtom):
    name = 'optree::PyTreeSpec::MakeNone'
    leaf = False
