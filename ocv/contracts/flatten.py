"""Contracts: the flatten family (C01, C02, C03, C13, C16): FlattenIntoImpl / FlattenInto / Flatten and the with-path twin."""
import z3

from ..cxx import model as M
from ..cxx.contract import Contract, Loop, contract, forall
from ..cxx.model import EMPTY, KIND, NULL, PYNONE, Bool, Int, Ref, Str, NodeVec, Opaque, Ptr, PyObj, ScalarVec, Tup, fresh
from ..cxx.symex import Unsupported, as_bool
from .dictorder import OmegaMixin

K = KIND
MAXD = M.MAX_RECURSION_DEPTH


def vec_prefix_same(a, b, upto, fields=None):
    j = z3.Int('j!fl')
    if isinstance(a, NodeVec):
        return forall([j], z3.Implies(z3.And(0 <= j, j < upto), z3.And(*[a.sel(f, j) == b.sel(f, j) for f in M.NODE_FIELDS])),
                      patterns=[a.sel(f, j) for f in M.NODE_FIELDS])
    return forall([j], z3.Implies(z3.And(0 <= j, j < upto), z3.Select(a.arr, j) == z3.Select(b.arr, j)),
                  patterns=[z3.Select(a.arr, j)])


class FlattenBase(Contract):
    """Recursive flatten of one object: appends the nodes of its subtree (root last) and its leaves."""
    wf_this = False
    const_this = False
    writes_this = True
    writes_args = (1,)
    template_instances = [{'NoneIsLeaf': a, 'DictShouldBeSorted': b} for a in (False, True) for b in (True, False)]
    extra_vectors = ()          # (param name, ...) further output vectors (paths)

    def other_param(self, eng, st, p):
        vec = ScalarVec.symbolic(p.name, Ref)
        st.facts.append(vec.len >= 0)
        return Ptr(st.alloc(vec))

    def setup(self, eng, st, fn):
        cx = super().setup(eng, st, fn)
        st.facts.append(cx.this_vec().len >= 0)
        self.sorted_calls = []
        return cx

    def pre(self, cx):
        out = [('depth-nonneg', cx.var('depth') >= 0)]
        if 'stack' in self.extra_vectors:
            out.append(('stack-holds-the-entries-of-the-ancestors', cx.obj(cx.var('stack')).len == cx.var('depth')))
        return out

    # classification of the current object (contract of GetKind, proved in registry.py)
    def call_hook(self, eng, st, name, args_n, n):
        if name == 'GetKind':
            line = n.get('line')
            (s1, handle), = eng.ev(args_n[0], st)
            pred = st.get('leaf_predicate') if st.scope.lookup('leaf_predicate') is not None else None
            if pred is not None:
                # C02: an is_leaf predicate is consulted before the registry (and stops the descent)
                asked = any(w.startswith('call of a Python callable') for w, _ in st.ghost['trace'])
                eng.oblige(st, 'IV', 'predicate-is-consulted-before-classification',
                           z3.Or(pred.ref == NULL, z3.BoolVal(asked)), line)
            eng.may_call_python(st, 'class predicates (GetKind)', line)
            k = fresh('kind', Int)
            c = fresh('custom', Ref)
            nil = eng.template_env.get('NoneIsLeaf', z3.BoolVal(False))
            st.pc.append(z3.And(k >= 0, k <= 10, (k == K['Custom']) == (c != NULL), z3.Implies(nil, k != K['None']),
                                z3.Implies(c != NULL, z3.And(M.reg_type(c) != NULL, M.reg_pet(c) != NULL))))
            s2, p = eng.place(args_n[1], st)
            eng.write_place(s2, p, c)
            s2.ghost['classified'] = (k, c)
            return [(s2, k)]
        return None

    def on_python_result(self, eng, st, f, args, r, n):
        if 'reg_flatten_func' in f.ref.sexpr():
            st.ghost['flatten_result'] = r.ref          # the result of the custom flatten function of THIS node

    def on_getattr(self, eng, st, obj, attr, res, n):
        if obj.ref.eq(st.get('handle').ref if isinstance(st.get('handle'), PyObj) else st.get('handle')):
            st.ghost['attr:' + attr] = res.ref            # an attribute of THIS object

    def on_dict_keys_result(self, eng, st, d, r, n):
        # the keys are read ONCE: the children visited, the recorded key list and the recorded original order all stem from
        # that one reading, whatever callbacks do to the source dict during the descent (C14)
        eng.oblige(st, 'III', 'exactly-one-key-list-is-made-per-dict-node', z3.BoolVal(st.ghost.get('dict_keys') is None), n.get('line'))
        st.ghost['dict_keys'] = r                          # the key list made for THIS dict node

    def on_sort(self, eng, st, o, n):
        # C13: dict keys are sorted exactly when DictShouldBeSorted and the node is not an OrderedDict
        node = st.get('node')
        dss = eng.template_env.get('DictShouldBeSorted', z3.BoolVal(True))
        eng.oblige(st, 'III', 'keys-sorted-only-if-DictShouldBeSorted-and-not-OrderedDict',
                   z3.And(dss, node.get('kind') != K['OrderedDict']), n.get('line'))
        st.ghost['sorted'] = True

    def on_pydict_keys(self, eng, st, d, n):
        node = st.get('node') if st.scope.lookup('node') is not None else None
        return node.get('kind') != K['OrderedDict'] if node is not None else z3.BoolVal(False)

    def idx_loop(self, var='i'):
        def inv(cx):
            node = cx.var('node')
            return [('i-range', z3.And(0 <= cx.var(var), cx.var(var) <= node.get('arity')))] + self.frame_inv(cx)
        return Loop(inv, decreases=lambda cx: cx.var('node').get('arity') - cx.var(var))

    def key_loop(self):
        def inv(cx):
            return [('key-idx-nonneg', 0 <= cx.var('key__idx'))] + self.frame_inv(cx)
        return Loop(inv, index='key__idx')

    def frame_inv(self, cx):
        """Nothing below the entry sizes of the output vectors is touched; they only grow."""
        t, t0 = cx.this_vec(), cx.this_vec(cx.entry)
        l, l0 = cx.obj(cx.var('leaves')), cx.obj(cx.old('leaves'), cx.entry)
        out = [('traversal-only-grows', t.len >= t0.len), ('traversal-prefix-untouched', vec_prefix_same(t, t0, t0.len)),
               ('leaves-only-grow', l.len >= l0.len), ('leaves-prefix-untouched', vec_prefix_same(l, l0, l0.len))]
        for nm in self.extra_vectors:
            v, v0 = cx.obj(cx.var(nm)), cx.obj(cx.old(nm), cx.entry)
            if nm == 'stack':
                out += [('stack-restored', v.len == v0.len), ('stack-prefix-untouched', vec_prefix_same(v, v0, v0.len))]
            else:
                out += [(f'{nm}-only-grow', v.len >= v0.len), (f'{nm}-prefix-untouched', vec_prefix_same(v, v0, v0.len)),
                        (f'one-{nm[:-1]}-per-leaf-so-far', v.len - v0.len == l.len - l0.len)]
        return out

    def post(self, cx, ret):
        t, t0 = cx.this_vec(), cx.this_vec(cx.entry)
        l, l0 = cx.obj(cx.var('leaves')), cx.obj(cx.old('leaves'), cx.entry)
        last = t.len - 1
        out = [('exactly-one-root-node-appended-last', t.len >= t0.len + 1),
               ('root-num_nodes-is-the-number-of-appended-nodes', t.sel('num_nodes', last) == t.len - t0.len),
               ('root-num_leaves-is-the-number-of-appended-leaves', t.sel('num_leaves', last) == l.len - l0.len),
               ('depth-within-limit', cx.old('depth') <= MAXD)] + self.frame_inv(cx)
        cl = cx.st.ghost.get('classified')
        asked = any(w.startswith('call of a Python callable') for w, _ in cx.st.ghost['trace'])
        out.append(('every-object-is-classified-by-the-registry-unless-the-predicate-stopped-the-descent',
                    z3.BoolVal(cl is not None or asked)))
        if cl is not None:
            # the node records the classification made for THIS object before any of its callbacks ran: kind and
            # registration are never re-read afterwards (a flatten function may change the registry meanwhile)
            out += [('root-kind-is-the-classification-of-the-object', t.sel('kind', last) == cl[0]),
                    ('root-registration-is-the-one-whose-flatten-function-was-called', t.sel('custom', last) == cl[1]),
                    # unflatten rebuilds dict / defaultdict in source key order and pickling requires the field (C01, C11)
                    ('exactly-dict-and-defaultdict-roots-record-their-original-key-order',
                     z3.Or(cl[0] == K['Dict'], cl[0] == K['DefaultDict']) == (t.sel('original_keys', last) != NULL))]
            # payload of the root node (what paths / accessors / unflatten later read)
            h = cx.old('handle').ref
            out.append(('namedtuple-or-structseq-root-records-the-class',
                        z3.Implies(z3.Or(cl[0] == K['NamedTuple'], cl[0] == K['StructSequence']),
                                   t.sel('node_data', last) == M.py_type(h))))
            nd = t.sel('node_data', last)
            g = cx.st.ghost
            is_k = lambda *names: z3.Or(*[cl[0] == K[nm] for nm in names])
            out.append(('tuple-list-none-and-leaf-roots-carry-no-metadata', z3.Implies(is_k('Tuple', 'List', 'None', 'Leaf'), nd == NULL)))
            keys = g.get('dict_keys')
            out.append(('dict-and-ordereddict-roots-record-the-key-list-that-was-traversed',
                        z3.Implies(is_k('Dict', 'OrderedDict'), nd == keys if keys is not None else z3.BoolVal(False))))
            df = g.get('attr:default_factory')
            out.append(('defaultdict-root-records-(default_factory, the key list that was traversed)',
                        z3.Implies(is_k('DefaultDict'),
                                   z3.And(M.py_len(nd) == 2, M.py_item(nd, 0) == df, M.py_item(nd, 1) == keys)
                                   if keys is not None and df is not None else z3.BoolVal(False))))
            ml = g.get('attr:maxlen')
            out.append(('deque-root-records-its-maxlen', z3.Implies(is_k('Deque'), nd == ml if ml is not None else z3.BoolVal(False))))
            fr = cx.st.ghost.get('flatten_result')
            if fr is not None:
                as_tuple = lambda x: z3.If(M.py_is_tuple(x), x, z3.Function('py_convert_tuple', Ref, Ref)(x))
                T = as_tuple(fr)
                ent = M.py_item(T, 2)
                has_entries = z3.And(M.py_len(T) == 3, ent != PYNONE)
                out += [('custom-root-records-the-metadata-of-its-flatten-result',
                         z3.Implies(cl[0] == K['Custom'], t.sel('node_data', last) == M.py_item(T, 1))),
                        ('custom-root-records-the-path-entries-of-its-flatten-result',
                         z3.Implies(cl[0] == K['Custom'], t.sel('node_entries', last) == z3.If(has_entries, as_tuple(ent), NULL)))]
            else:
                out.append(('non-custom-root-has-no-path-entries', t.sel('node_entries', last) == NULL))
        if 'paths' in self.extra_vectors:
            p, p0 = cx.obj(cx.var('paths')), cx.obj(cx.old('paths'), cx.entry)
            out.append(('one-path-per-leaf', p.len - p0.len == l.len - l0.len))
        return out

    def frame(self, cx, ret):
        return []

    def frame_exc(self, cx):
        return []

    def raises(self, cx):
        return {'pybind11::error_already_set': None, 'std::runtime_error': None, 'pybind11::cast_error': None}

    def apply(self, eng, st, this, args, n):
        """Recursive call (and the call from FlattenInto): precondition obligations, postcondition assumptions."""
        line = n.get('line')
        nv = len(self.extra_vectors)
        child, leaves_p = args[0], args[1]
        extra = list(args[2:2 + nv])
        depth = args[2 + nv]
        eng.oblige(st, 'II', 'stack-bound:recursion-depth-is-guarded', depth <= MAXD + 1, line)
        eng.oblige(st, 'III', 'call-pre:recursion:depth-nonneg', depth >= 0, line)
        if 'stack' in self.extra_vectors:
            stack_p = extra[self.extra_vectors.index('stack')]
            eng.oblige(st, 'III', 'call-pre:recursion:stack-holds-the-entries-of-the-ancestors',
                       st.heap[stack_p.oid].len == depth, line)
        fr = st.ghost.get('flatten_result')
        if fr is not None and eng.inline_depth >= 0 and st.scope.lookup('i') is not None and isinstance(child, PyObj):
            # custom node: the children are visited in the order the flatten function yielded them - from the tuple snapshot
            # taken when it returned, not from an object user code can still change while the descent runs (C02)
            as_tuple = lambda x: z3.If(M.py_is_tuple(x), x, z3.Function('py_convert_tuple', Ref, Ref)(x))
            snap = as_tuple(M.py_item(as_tuple(fr), 0))
            eng.oblige(st, 'III', 'custom-children-are-visited-in-the-order-of-the-snapshot-of-the-flatten-result',
                       child.ref == M.py_item(snap, st.get('i')), line)
        cl = st.ghost.get('classified')
        if cl is not None and st.scope.lookup('i') is not None and st.scope.lookup('handle') is not None and isinstance(child, PyObj):
            # sequences by position (C02): the i-th child visited is the i-th item of the object
            h = st.get('handle')
            positional = z3.Or(*[cl[0] == K[nm] for nm in ('Tuple', 'List', 'NamedTuple', 'StructSequence')])
            eng.oblige(st, 'III', 'positional-children-are-visited-by-position',
                       z3.Implies(positional, child.ref == M.py_item(h.ref if isinstance(h, PyObj) else h, st.get('i'))), line)
        eng.may_call_python(st, 'user callbacks during the flattening of a child (is_leaf, custom flatten, key methods)', line)
        s_exc = st.clone()
        eng.throw(s_exc, 'pybind11::error_already_set', line, 'RecursionError or an exception from a callback')
        spec = st.heap[(this or st.this).oid]
        t0 = st.heap[spec.trav]
        t1 = NodeVec.symbolic(f'trav!rec{next(M._counter)}')
        st.heap[spec.trav] = t1
        l0 = st.heap[leaves_p.oid]
        l1 = ScalarVec.symbolic(f'leaves!rec{next(M._counter)}', Ref)
        st.heap[leaves_p.oid] = l1
        st.facts += [t1.len >= t0.len + 1, vec_prefix_same(t1, t0, t0.len), l1.len >= l0.len, vec_prefix_same(l1, l0, l0.len),
                     t1.sel('num_nodes', t1.len - 1) == t1.len - t0.len, t1.sel('num_leaves', t1.len - 1) == l1.len - l0.len,
                     depth <= MAXD]
        for nm, ptr in zip(self.extra_vectors, extra):
            if nm == 'stack':
                continue
            v0 = st.heap[ptr.oid]
            v1 = ScalarVec.symbolic(f'{nm}!rec{next(M._counter)}', Ref)
            st.heap[ptr.oid] = v1
            st.facts += [v1.len >= v0.len, vec_prefix_same(v1, v0, v0.len), v1.len - v0.len == l1.len - l0.len]
        hook = getattr(eng.cur_contract, 'on_flatten_call', None)
        found = fresh('found_custom', Bool)
        if hook:
            hook(eng, st, dict(eng.template_env))
            st.ghost['flatten_found_custom'] = found
        return [(st, found)]


@contract
class FlattenIntoImpl(FlattenBase):
    name = 'optree::PyTreeSpec::FlattenIntoImpl'
    props = ('C01', 'C02', 'C03', 'C13', 'C16')

    def __init__(self):
        # loops in pre-order: tuple, list, dict keys (range-for), namedtuple/structseq, deque, custom children
        self.loops = {0: self.idx_loop(), 1: self.idx_loop(), 2: self.key_loop(), 3: self.idx_loop(), 4: self.idx_loop(),
                      5: self.idx_loop()}


@contract
class FlattenIntoWithPathImpl(FlattenBase):
    name = 'optree::PyTreeSpec::FlattenIntoWithPathImpl'
    props = ('C03', 'C04', 'C13', 'C16')
    extra_vectors = ('paths', 'stack')
    writes_args = (1, 2, 3)

    def __init__(self):
        d_loop = Loop(lambda cx: [('d-range', z3.And(0 <= cx.var('d'), cx.var('d') <= cx.old('depth')))] + self.frame_inv(cx),
                      decreases=lambda cx: cx.old('depth') - cx.var('d'))
        # pre-order: predicate-leaf path fill, leaf path fill, tuple, list, dict keys, namedtuple, deque, custom children
        self.loops = {0: d_loop, 1: d_loop, 2: self.idx_loop(), 3: self.idx_loop(), 4: self.key_loop(), 5: self.idx_loop(),
                      6: self.idx_loop(), 7: self.idx_loop()}


class FlattenDispatch(OmegaMixin, Contract):
    """FlattenInto / FlattenIntoWithPath: choose the template instance from none_is_leaf and the dict-order mode (C13)."""
    this_is_spec = True
    wf_this = False
    const_this = False

    def setup(self, eng, st, fn):
        self.this_is_spec = True
        cx = super().setup(eng, st, fn)
        self.calls = []
        return cx

    def on_flatten_call(self, eng, st, targs):
        self.calls.append(targs)
        st.ghost['flatten_targs'] = targs

    def post(self, cx, ret):
        om = self.om(cx.entry)
        ns = cx.old('registry_namespace')
        ordered = z3.Or(om.contains((ns,)), om.contains((EMPTY,)))
        targs = cx.st.ghost.get('flatten_targs')
        out = [('delegates-to-one-instance', z3.BoolVal(targs is not None))]
        if targs:
            out += [('instance-NoneIsLeaf-is-none_is_leaf', targs['NoneIsLeaf'] == cx.old('none_is_leaf')),
                    ('instance-DictShouldBeSorted-is-not-the-mode-predicate', targs['DictShouldBeSorted'] == z3.Not(ordered)),
                    ('namespace-recorded-iff-custom-found-or-mode-set-in-this-very-namespace',
                     ret == z3.Or(cx.st.ghost['flatten_found_custom'], om.contains((ns,))))]
        return out

    def frame(self, cx, ret):
        return []

    def frame_exc(self, cx):
        return []

    def raises(self, cx):
        return {'pybind11::error_already_set': None, 'std::runtime_error': None, 'pybind11::cast_error': None}


@contract
class FlattenInto(FlattenDispatch):
    name = 'optree::PyTreeSpec::FlattenInto'
    props = ('C13', 'C01')


@contract
class FlattenIntoWithPath(FlattenDispatch):
    name = 'optree::PyTreeSpec::FlattenIntoWithPath'
    props = ('C13', 'C03')


def _dispatch_apply(self, eng, st, this, args, n):
    """Call-site summary of FlattenInto / FlattenIntoWithPath (their proved contract composed with the Impl contract)."""
    line = n.get('line')
    with_path = self.name.endswith('WithPath')
    leaves_p = args[1]
    eng.may_call_python(st, 'user callbacks during flatten', line)
    s_exc = st.clone()
    eng.throw(s_exc, 'pybind11::error_already_set', line, 'RecursionError or an exception from a callback')
    spec = st.heap[this.oid]
    t0 = st.heap[spec.trav]
    t1 = NodeVec.symbolic(f'trav!flat{next(M._counter)}')
    st.heap[spec.trav] = t1
    l0 = st.heap[leaves_p.oid]
    l1 = ScalarVec.symbolic(f'leaves!flat{next(M._counter)}', Ref)
    st.heap[leaves_p.oid] = l1
    st.facts += [t1.len >= t0.len + 1, l1.len >= l0.len, vec_prefix_same(l1, l0, l0.len),
                 t1.sel('num_nodes', t1.len - 1) == t1.len - t0.len, t1.sel('num_leaves', t1.len - 1) == l1.len - l0.len]
    if with_path:
        p0 = st.heap[args[2].oid]
        p1 = ScalarVec.symbolic(f'paths!flat{next(M._counter)}', Ref)
        st.heap[args[2].oid] = p1
        st.facts += [p1.len >= p0.len, p1.len - p0.len == l1.len - l0.len]
    return [(st, fresh('namespace_is_recorded', Bool))]


FlattenInto.apply = _dispatch_apply
FlattenIntoWithPath.apply = _dispatch_apply


class FlattenTop(Contract):
    this_is_spec = False
    static = True

    def spec_of(self, cx, ret):
        return cx.obj(ret.items[-1])

    def post(self, cx, ret):
        spec = self.spec_of(cx, ret)
        t = cx.st.heap[spec.trav]
        leaves = cx.obj(ret.items[-2] if len(ret.items) == 3 else ret.items[0])
        ns = cx.old('registry_namespace')
        out = [('none_is_leaf-recorded', spec.nil == cx.old('none_is_leaf')),
               ('namespace-is-the-requested-one-or-empty', z3.Or(spec.ns == ns, spec.ns == EMPTY)),
               ('root-counts-cover-everything', z3.And(t.len >= 1, t.sel('num_nodes', t.len - 1) == t.len,
                                                       t.sel('num_leaves', t.len - 1) == leaves.len))]
        if len(ret.items) == 3:
            paths = cx.obj(ret.items[0])
            out.append(('one-path-per-leaf', paths.len == leaves.len))
        return out

    def frame(self, cx, ret):
        return []

    def frame_exc(self, cx):
        return []

    def raises(self, cx):
        return {'pybind11::error_already_set': None, 'std::runtime_error': None, 'pybind11::cast_error': None}


@contract
class Flatten(FlattenTop):
    name = 'optree::PyTreeSpec::Flatten'
    props = ('C01', 'C03')


@contract
class FlattenWithPath(FlattenTop):
    name = 'optree::PyTreeSpec::FlattenWithPath'
    props = ('C03', 'C04')


@contract
class NextImpl(Contract):
    """PyTreeIter::NextImpl: the explicit-agenda traversal (C03, C13, C16)."""
    name = 'optree::PyTreeIter::NextImpl'
    props = ('C03', 'C13', 'C16')
    this_is_spec = False
    template_instances = [{'NoneIsLeaf': False}, {'NoneIsLeaf': True}]

    def __init__(self):
        down = lambda: Loop(lambda cx: [('i-range', z3.And(-1 <= cx.var('i'), cx.var('i') < cx.var('arity')))] + self.agenda_inv(cx),
                            decreases=lambda cx: cx.var('i') + 1)
        keyloop = Loop(lambda cx: [('key-idx-nonneg', 0 <= cx.var('key__idx'))] + self.agenda_inv(cx), index='key__idx')
        main = Loop(lambda cx: self.agenda_inv(cx))
        # pre-order: while, tuple, list, dict keys, namedtuple, deque, custom
        self.loops = {0: main, 1: down(), 2: down(), 3: keyloop, 4: down(), 5: down(), 6: down()}

    def setup(self, eng, st, fn):
        from ..cxx.model import PairVec
        tag = 'agenda'
        self.agenda = st.alloc(PairVec(z3.Int(tag + '.len'), z3.Array(tag + '.obj', Int, Ref), z3.Array(tag + '.depth', Int, Int)))
        st.this = Ptr(st.alloc({'m_agenda': Ptr(self.agenda), 'm_leaf_predicate': PyObj(z3.Const('m_leaf_predicate', Ref)),
                                'm_namespace': z3.Const('m_namespace', Str),
                                'm_is_dict_insertion_ordered': z3.Bool('m_is_dict_insertion_ordered'),
                                'm_none_is_leaf': z3.Bool('m_none_is_leaf'), 'm_root': PyObj(z3.Const('m_root', Ref))}))
        cx = super().setup(eng, st, fn)
        ag = st.heap[self.agenda]
        j = z3.Int('j!ag')
        # invariant of the iterator object: every queued depth is non-negative
        st.facts += [ag.len >= 0, z3.ForAll([j], z3.Implies(z3.And(0 <= j, j < ag.len), z3.Select(ag.b, j) >= 0),
                                            patterns=[z3.Select(ag.b, j)])]
        return cx

    def agenda_inv(self, cx):
        ag = cx.st.heap[self.agenda]
        j = z3.Int('j!agi')
        return [('agenda-len-nonneg', ag.len >= 0),
                ('queued-depths-nonneg', forall([j], z3.Implies(z3.And(0 <= j, j < ag.len), z3.Select(ag.b, j) >= 0),
                                                patterns=[z3.Select(ag.b, j)]))]

    def on_vector_op(self, eng, st, op, old, new):
        from ..cxx.model import PairVec
        if op == 'pop_back' and isinstance(old, PairVec):
            st.ghost['agenda_pops'] = st.ghost.get('agenda_pops', 0) + 1

    def on_python_call(self, eng, st, what, line):
        # C17 (ownership of work items): the node that is being expanded has been taken off the shared agenda before any
        # Python code can run - another caller of next() (a second thread, or re-entrantly from a callback) can then never
        # be handed the same node, and an exception from the callback cannot leave it to be expanded twice
        eng.oblige(st, 'IV', 'L3:agenda-item-is-taken-off-the-agenda-before-python-code-can-run',
                   z3.BoolVal(st.ghost.get('agenda_pops', 0) >= 1), line)

    def call_hook(self, eng, st, name, args_n, n):
        if name == 'GetKind':
            line = n.get('line')
            depth = st.get('depth')
            # C16: the depth limit is tested before anything else is done with the object
            eng.oblige(st, 'III', 'classification-only-within-the-depth-limit', depth <= M.MAX_RECURSION_DEPTH, line)
            pred = st.heap[st.this.oid]['m_leaf_predicate']
            asked = any(w.startswith('call of a Python callable') for w, _ in st.ghost['trace'])
            eng.oblige(st, 'IV', 'predicate-is-consulted-before-classification', z3.Or(pred.ref == NULL, z3.BoolVal(asked)), line)
            eng.may_call_python(st, 'class predicates (GetKind)', line)
            k = fresh('kind', Int)
            c = fresh('custom', Ref)
            nil = eng.template_env.get('NoneIsLeaf', z3.BoolVal(False))
            st.pc.append(z3.And(k >= 0, k <= 10, (k == K['Custom']) == (c != NULL), z3.Implies(nil, k != K['None']),
                                z3.Implies(c != NULL, z3.And(M.reg_type(c) != NULL, M.reg_pet(c) != NULL))))
            s2, p = eng.place(args_n[1], st)
            eng.write_place(s2, p, c)
            return [(s2, k)]
        return None

    def on_sort(self, eng, st, o, n):
        kind = st.get('kind')
        mode = st.heap[st.this.oid]['m_is_dict_insertion_ordered']
        eng.oblige(st, 'III', 'keys-sorted-only-if-not-insertion-ordered-mode-and-not-OrderedDict',
                   z3.And(z3.Not(mode), kind != K['OrderedDict']), n.get('line'))

    def raises(self, cx):
        return {'pybind11::error_already_set': None, 'std::runtime_error': None, 'pybind11::cast_error': None,
                'pybind11::stop_iteration': None}

    def frame(self, cx, ret):
        return []

    def frame_exc(self, cx):
        return []


@contract
class FlattenUpTo(Contract):
    """PyTreeSpec::FlattenUpTo (C05, C07, C10, C16): reverse walk over the treespec with an agenda of subtrees.

    Ghost: pending(p) = number of subtrees still to be matched after p nodes have been visited from the right,
    pending(0) = 1, pending(p+1) = pending(p) - 1 + arity(node n-1-p).  The agenda holds exactly pending(p) objects: every
    non-leaf node pushes exactly its own arity children of the matched object (alignment), never more or fewer."""
    name = 'optree::PyTreeSpec::FlattenUpTo'
    props = ('C05', 'C07', 'C10', 'C16')
    pending = z3.Function('pending_subtrees', Int, Int)

    def __init__(self):
        ar = lambda cx: cx.eng.to_nodeval(cx.st, cx.var('node')).get('arity')
        inner = lambda: Loop(lambda cx: [('i-range', z3.And(0 <= cx.var('i'), cx.var('i') <= ar(cx)))]
                             + self.main_inv(cx, inner=cx.var('i')), decreases=lambda cx: ar(cx) - cx.var('i'))
        keyloop = Loop(lambda cx: [('key-idx-range', z3.And(0 <= cx.var('key__idx'),
                                                            cx.var('key__idx') <= M.py_len(cx.var('expected_keys').ref)))]
                       + self.main_inv(cx, inner=cx.var('key__idx')), index='key__idx')
        childloop = Loop(lambda cx: [('child-idx-nonneg', 0 <= cx.var('child__idx')),
                                     ('arity-counts-the-children-pushed', cx.var('arity') == cx.var('child__idx'))]
                         + self.main_inv(cx, inner=cx.var('child__idx')),
                         index='child__idx', seq_len=lambda eng, st, rng: M.iter_len(rng.ref))
        self.loops = {0: Loop(self.main_inv, hints=self.hints, body_post=self.matched), 1: inner(), 2: inner(), 3: keyloop,
                      4: inner(), 5: inner(), 6: inner(), 7: childloop}

    def setup(self, eng, st, fn):
        from .unflatten import pl_bounded_lemma
        cx = super().setup(eng, st, fn)
        st.facts += pl_bounded_lemma(eng, st, self.views['this'], 'this')
        st.facts.append(self.pending(z3.IntVal(0)) == 1)
        return cx

    def main_inv(self, cx, inner=None):
        v = self.views['this']
        n = v.v.len
        it = cx.var('it')
        pos = it.pos - (1 if inner is not None else 0)      # inside a node case the iterator has already been advanced
        leaf = cx.var('leaf')
        agenda = cx.obj(cx.var('agenda'))
        out = [('iterator-range', z3.And(0 <= it.pos, it.pos <= n)),
               ('agenda-len-nonneg', agenda.len >= 0),
               ('next-leaf-slot', leaf == v.PL(n - it.pos) - 1),
               ('num_leaves-is-total', cx.var('num_leaves') == v.PL(n))]
        if inner is None:
            out.append(('agenda-holds-exactly-the-pending-subtrees', agenda.len == self.pending(it.pos)))
        else:
            out.append(('agenda-holds-the-pending-subtrees-plus-the-children-pushed-so-far',
                        agenda.len == self.pending(pos) - 1 + inner))
        return out

    def hints(self, cx):
        v = self.views['this']
        n = v.v.len
        p = cx.var('it').pos
        k = n - 1 - p
        return [('PL-step', v.inst('PL-step', k), 'instance'),
                ('PL-range', v.inst('PL-range', k), 'instance'),
                # definition of the ghost function at the current position (conservative: pending is otherwise unconstrained)
                ('pending-step', z3.Implies(z3.And(0 <= p, p < n), self.pending(p + 1) == self.pending(p) - 1 + v.A(k)), 'instance'),
                ('total-leaves', v.NL(n - 1) == v.PL(n))]

    def on_python_result(self, eng, st, f, args, r, n):
        if 'reg_flatten_func' in f.ref.sexpr() and st.scope.lookup('it') is not None:
            # C14 / C07: a treespec keeps using the registration it recorded - not whatever the registry holds now
            v = self.views['this']
            k = v.v.len - st.get('it').pos           # inside a node case the iterator has already been advanced
            eng.oblige(st, 'III', 'custom-node-is-flattened-with-the-flatten-function-recorded-in-the-treespec',
                       f.ref == z3.Function('reg_flatten_func', Ref, Ref)(v.C(k)), n.get('line'))

    def matched(self, cx):
        """After a completed iteration: the object taken from the agenda was matched against the node by the test the
        property demands for its kind (exact type / same class / same registration, equal metadata)."""
        v = self.views['this']
        n = v.v.len
        pre = cx.pre
        ag = pre.heap[pre.get('agenda').oid]
        obj = z3.Select(ag.arr, ag.len - 1)
        k = n - 1 - pre.get('it').pos
        kind, D, C = v.K(k), v.D(k), v.C(k)
        ex = lambda nm: z3.Function('is_exact_' + nm, Ref, Bool)(obj)
        return [('tuple-node-matches-an-exact-tuple', z3.Implies(kind == K['Tuple'], ex('Tuple'))),
                ('list-node-matches-an-exact-list', z3.Implies(kind == K['List'], ex('List'))),
                ('dict-node-matches-a-standard-dict', z3.Implies(z3.Or(kind == K['Dict'], kind == K['OrderedDict'],
                                                                        kind == K['DefaultDict']), ex('StandardDict'))),
                ('deque-node-matches-an-exact-deque', z3.Implies(kind == K['Deque'], ex('Deque'))),
                ('namedtuple-node-matches-the-same-class',
                 z3.Implies(kind == K['NamedTuple'], z3.And(ex('NamedTuple'), M.py_eq(M.py_type(obj), D)))),
                ('structseq-node-matches-the-same-class',
                 z3.Implies(kind == K['StructSequence'], z3.And(ex('StructSequence'), M.py_eq(M.py_type(obj), D)))),
                ('none-node-matches-None', z3.Implies(kind == K['None'], obj == PYNONE))]

    def raises(self, cx):
        return {'pybind11::value_error': None, 'std::runtime_error': None, 'pybind11::error_already_set': None,
                'pybind11::cast_error': None}

    def post(self, cx, ret):
        v = self.views['this']
        n = v.v.len
        return [('returns-one-slot-per-leaf', M.py_len(ret.ref) == v.NL(n - 1))]

    def at_return(self, cx, ret):
        v = self.views['this']
        n = v.v.len
        return [('walked-the-whole-treespec', cx.var('it').pos == n), ('every-slot-filled', cx.var('leaf') == -1)]

    def frame_exc(self, cx):
        return self.default_frame(cx)
