"""C10 — transposition swaps outer and inner structure without losing or moving values (bounded monitor).

For an outer tree O (m >= 1 leaves) and an inner tree I (n >= 1 leaves) the input is the O-shaped tree whose i-th
leaf is a fresh I-shaped tree with leaves x[i][j].  The expected result is built by the reference model
(`_util_b.a_unflatten`, no optree call): the I-shaped tree whose j-th leaf is the O-shaped tree with leaves
x[0][j] .. x[m-1][j]; results are compared with `same_tree` (exact container types, dict key order, deque maxlen,
default factories, leaf identity).

Clauses (finding keys)
  C10.transpose_values           tree_transpose(outer, inner, tree) is the expected inner-of-outer tree
  C10.transpose_involution       transposing back returns the original tree
  C10.transpose_rejects          no leaves in outer / inner, different none_is_leaf, conflicting namespaces, wrong leaf count: raises
  C10.transpose_map              tree_transpose_map(f, t, *rests [, inner_treespec]) == tree_transpose(outer, inner, tree_map(f, t, *rests))
                                 == the reference result; inner structure from the first result or as given; results deeper than
                                 the inner structure are kept as subtrees
  C10.transpose_map_rejects      a result that does not match the inner structure / no leaves: ValueError
  C10.transpose_map_with_path / C10.transpose_map_with_accessor    same result, f receives the leaf's path / accessor first
  C10.unexpected_exception
"""
from __future__ import annotations

import itertools
import random

import optree

from ocv.bounded import _util_b as U
from ocv.bounded import scope as S
from ocv.result import BoundedReport

LEAF = U.LEAF


class Tag:
    """Opaque value produced by the mapped function: (source leaf(s), inner position)."""
    __slots__ = ('x', 'j')

    def __init__(self, x, j):
        self.x, self.j = x, j

    def __repr__(self):
        return f'Tag({self.x!r}, {self.j})'


def tag_eq(a, b):
    if isinstance(a, Tag) and isinstance(b, Tag):
        xa = a.x if isinstance(a.x, tuple) else (a.x,)
        xb = b.x if isinstance(b.x, tuple) else (b.x,)
        return a.j == b.j and len(xa) == len(xb) and all(p is q for p, q in zip(xa, xb))
    return a is b


def shape_of(d):
    return () if len(d) == 1 else tuple(shape_of(c) for c in d[1])


SCRIPT_LIB = '''\
def outcome(f):
    try:
        return ('ok', f())
    except (ValueError, TypeError) as e:
        return (type(e).__name__, str(e)[:120])
    except BaseException as e:
        return ('other:' + type(e).__name__, str(e)[:120])
class Tag:
    def __init__(self, x, j):
        self.x, self.j = x, j
    def __repr__(self):
        return f'Tag({self.x!r}, {self.j})'
def tag_eq(a, b):
    if isinstance(a, Tag) and isinstance(b, Tag):
        xa = a.x if isinstance(a.x, tuple) else (a.x,)
        xb = b.x if isinstance(b.x, tuple) else (b.x,)
        return a.j == b.j and len(xa) == len(xb) and all(p is q for p, q in zip(xa, xb))
    return a is b
'''


def setup_src(od, idd, o):
    """Script text building: o, O, I, outer/inner specs, the composed input T, x[i][j] and the expected result."""
    return (f'o = {U.opt_src(o)}\nOD = {od!r}\nID = {idd!r}\n' + SCRIPT_LIB +
            'import itertools\ncnt = itertools.count()\n'
            'O = U.build(OD, cnt); I = U.build(ID, cnt)\nprint("outer", O, "inner", I)\n'
            'oa, ia = U.absify(O, **o), U.absify(I, **o)\nm, n = U.a_num_leaves(oa), U.a_num_leaves(ia)\n'
            'outer = optree.tree_structure(O, **o); inner = optree.tree_structure(I, **o)\n'
            'inners = [U.build(ID, cnt) for _ in range(m)]\n'
            'x = [U.a_leaves(U.absify(t, **o)) for t in inners]\n'
            'T = U.a_unflatten(oa, inners)\n'
            'expected = U.a_unflatten(ia, [U.a_unflatten(oa, [x[i][j] for i in range(m)]) for j in range(n)])\n')


class Setup:
    def __init__(self, od, idd, o):
        self.od, self.idd, self.o = od, idd, o
        cnt = itertools.count()
        self.O, self.I = U.build(od, cnt), U.build(idd, cnt)
        self.oa, self.ia = U.absify(self.O, **o), U.absify(self.I, **o)
        self.m, self.n = U.a_num_leaves(self.oa), U.a_num_leaves(self.ia)
        self.cnt = cnt

    def specs(self):
        self.outer = optree.tree_structure(self.O, **self.o)
        self.inner = optree.tree_structure(self.I, **self.o)

    def compose(self):
        self.inners = [U.build(self.idd, self.cnt) for _ in range(self.m)]
        self.x = [U.a_leaves(U.absify(t, **self.o)) for t in self.inners]
        self.T = U.a_unflatten(self.oa, self.inners)
        self.expected = U.a_unflatten(self.ia, [U.a_unflatten(self.oa, [self.x[i][j] for i in range(self.m)]) for j in range(self.n)])

    def label(self):
        return f'outer {U.show(self.od)}, inner {U.show(self.idd)} [{S.opt_repr(self.o)}]'

    def src(self):
        return setup_src(self.od, self.idd, self.o)


def raises(st, r):
    return st == 'exc' and isinstance(r, (ValueError, TypeError))


def check_transpose(od, idd, o, bag, stats, with_errors):
    s = Setup(od, idd, o)
    try:
        s.specs()
    except Exception as e:   # noqa: BLE001
        bag.add('C10.unexpected_exception', f'{s.label()}: tree_structure raised {U.exc_name(e)}', s.src() + 'sys.exit(0)\n')
        return None
    pred = o['is_leaf']
    if s.m == 0 or s.n == 0:
        stats['empty'] += 1
        bag.ev()
        T = s.O if s.m == 0 else U.a_unflatten(s.oa, [s.I for _ in range(s.m)])
        st, r = U.guard(optree.tree_transpose, s.outer, s.inner, T, is_leaf=pred)
        if not raises(st, r):
            bag.add('C10.transpose_rejects', f'{s.label()}: a structure without leaves must be rejected, tree_transpose '
                                             f'{"raised " + U.exc_name(r) if st == "exc" else "returned " + repr(r)}',
                    f'o = {U.opt_src(o)}\nO = {U.src(od)}\nI = {U.src(idd)}\n' + SCRIPT_LIB +
                    'outer = optree.tree_structure(O, **o); inner = optree.tree_structure(I, **o)\n'
                    'oa = U.absify(O, **o)\nT = O if outer.num_leaves == 0 else U.a_unflatten(oa, [I] * outer.num_leaves)\n'
                    'r = outcome(lambda: optree.tree_transpose(outer, inner, T, is_leaf=o["is_leaf"]))\nprint(r)\n'
                    "sys.exit(1 if r[0] not in ('ValueError', 'TypeError') else 0)\n")
        return None
    s.compose()
    stats['pairs'] += 1
    bag.ev()
    st, r = U.guard(optree.tree_transpose, s.outer, s.inner, s.T, is_leaf=pred)
    if st == 'exc':
        bag.add('C10.transpose_values', f'{s.label()}: tree_transpose raised {U.exc_name(r)} on the composed tree {s.T!r}',
                s.src() + 'r = outcome(lambda: optree.tree_transpose(outer, inner, T, is_leaf=o["is_leaf"]))\nprint(r)\nsys.exit(1 if r[0] != "ok" else 0)\n')
        return s
    if not U.same_tree(r, s.expected):
        bag.add('C10.transpose_values', f'{s.label()}: tree_transpose({s.T!r}) = {r!r}, expected {s.expected!r} '
                                        f'(value at (inner j, outer i) must be the input value at (outer i, inner j))',
                s.src() + 'r = optree.tree_transpose(outer, inner, T, is_leaf=o["is_leaf"])\nprint(r)\nprint(expected)\n'
                'sys.exit(1 if not U.same_tree(r, expected) else 0)\n')
    else:
        bag.ev()
        st2, back = U.guard(optree.tree_transpose, s.inner, s.outer, r, is_leaf=pred)
        if st2 == 'exc' or not U.same_tree(back, s.T):
            bag.add('C10.transpose_involution', f'{s.label()}: transposing {r!r} back gives {U.exc_name(back) if st2 == "exc" else repr(back)}, the original is {s.T!r}',
                    s.src() + 'r = optree.tree_transpose(outer, inner, T, is_leaf=o["is_leaf"])\n'
                    'back = outcome(lambda: optree.tree_transpose(inner, outer, r, is_leaf=o["is_leaf"]))\nprint(back)\n'
                    'sys.exit(1 if back[0] != "ok" or not U.same_tree(back[1], T) else 0)\n')
    if with_errors:
        # wrong leaf count: one leaf more / the bare outer tree when n > 1
        wrong = [('(T, S.L(-1))', (s.T, S.L(-1)))]
        if s.n > 1:
            wrong.append(('O', s.O))
        if s.m > 1:
            wrong.append(('inners[0]', s.inners[0]))
        for text, tree in wrong:
            bag.ev()
            nl = len(U.a_leaves(U.absify(tree, **o)))
            if nl == s.m * s.n:
                continue
            st3, r3 = U.guard(optree.tree_transpose, s.outer, s.inner, tree, is_leaf=pred)
            if not raises(st3, r3):
                bag.add('C10.transpose_rejects', f'{s.label()}: tree {tree!r} has {nl} leaves instead of {s.m}*{s.n}; tree_transpose '
                                                 f'{"raised " + U.exc_name(r3) if st3 == "exc" else "returned " + repr(r3)}',
                        s.src() + f'r = outcome(lambda: optree.tree_transpose(outer, inner, {text}, is_leaf=o["is_leaf"]))\nprint(r)\n'
                        "sys.exit(1 if r[0] not in ('ValueError', 'TypeError') else 0)\n")
        # different none_is_leaf
        o2 = dict(o, none_is_leaf=not o['none_is_leaf'])
        bag.ev()
        inner2 = optree.tree_structure(s.I, **o2)
        st4, r4 = U.guard(optree.tree_transpose, s.outer, inner2, s.T, is_leaf=pred)
        if not raises(st4, r4):
            bag.add('C10.transpose_rejects', f'{s.label()}: inner treespec with none_is_leaf={o2["none_is_leaf"]} vs outer {o["none_is_leaf"]}; tree_transpose '
                                             f'{"raised " + U.exc_name(r4) if st4 == "exc" else "returned " + repr(r4)}',
                    s.src() + 'inner2 = optree.tree_structure(I, **dict(o, none_is_leaf=not o["none_is_leaf"]))\n'
                    'r = outcome(lambda: optree.tree_transpose(outer, inner2, T, is_leaf=o["is_leaf"]))\nprint(r)\n'
                    "sys.exit(1 if r[0] not in ('ValueError', 'TypeError') else 0)\n")
    return s


def check_map(s, bag, stats, rng):
    """tree_transpose_map and variants on the O-shaped tree with leaves L_i."""
    o = s.o
    t = s.O
    t_leaves = U.a_leaves(s.oa)
    t_paths = U.a_paths(s.oa)
    stats['map'] += 1
    head = s.src() + 't = O\ndef f(x, *ys):\n    return U.a_unflatten(ia, [Tag((x,) + ys if ys else x, j) for j in range(n)])\n'

    def expected_for(values):      # values[i][j]
        return U.a_unflatten(s.ia, [U.a_unflatten(s.oa, [values[i][j] for i in range(s.m)]) for j in range(s.n)])

    def f(x, *ys):
        return U.a_unflatten(s.ia, [Tag((x,) + ys if ys else x, j) for j in range(s.n)])

    want = expected_for([[Tag(x, j) for j in range(s.n)] for x in t_leaves])
    # the property: == transposing tree_map(f, t)
    for text, kw in (('', {}), (', inner_treespec=inner', {'inner_treespec': s.inner})):
        bag.ev()
        st, r = U.guard(optree.tree_transpose_map, f, t, **kw, **o)
        if st == 'exc' or not U.same_tree(r, want, tag_eq):
            bag.add('C10.transpose_map', f'{s.label()}: tree_transpose_map(f, {t!r}{text}) {"raised " + U.exc_name(r) if st == "exc" else "= " + repr(r)}, expected {want!r}',
                    head + f'r = outcome(lambda: optree.tree_transpose_map(f, t{text}, **o))\nprint(r)\n'
                    'want = U.a_unflatten(ia, [U.a_unflatten(oa, [Tag(x, j) for x in U.a_leaves(oa)]) for j in range(n)])\n'
                    'sys.exit(1 if r[0] != "ok" or not U.same_tree(r[1], want, tag_eq) else 0)\n')
        elif not text:
            bag.ev()
            st2, r2 = U.guard(lambda: optree.tree_transpose(s.outer, s.inner, optree.tree_map(f, t, **o), is_leaf=o['is_leaf']))
            if st2 == 'exc' or not U.same_tree(r2, r, tag_eq):
                bag.add('C10.transpose_map', f'{s.label()}: tree_transpose_map(f, t) = {r!r} but tree_transpose(outer, inner, tree_map(f, t)) '
                                             f'{"raised " + U.exc_name(r2) if st2 == "exc" else "= " + repr(r2)}',
                        head + 'r = optree.tree_transpose_map(f, t, **o)\nr2 = outcome(lambda: optree.tree_transpose(outer, inner, optree.tree_map(f, t, **o), is_leaf=o["is_leaf"]))\n'
                        'print(r, r2)\nsys.exit(1 if r2[0] != "ok" or not U.same_tree(r2[1], r, tag_eq) else 0)\n')
    # with a rest: a suffix of t (every leaf replaced by a pair), f receives the subtree
    rest_sub = [(S.L(('r', i)), S.L(('s', i))) for i in range(s.m)]
    rest = U.a_unflatten(s.oa, rest_sub)
    if o['is_leaf'] is None:       # (under an is_leaf predicate the replaced leaf may have been a container the predicate looks for)
        bag.ev()
        want_r = expected_for([[Tag((x, y), j) for j in range(s.n)] for x, y in zip(t_leaves, rest_sub)])
        st, r = U.guard(optree.tree_transpose_map, f, t, rest, **o)
        if st == 'exc' or not U.same_tree(r, want_r, tag_eq):
            bag.add('C10.transpose_map', f'{s.label()}: tree_transpose_map(f, {t!r}, {rest!r}) {"raised " + U.exc_name(r) if st == "exc" else "= " + repr(r)}, expected {want_r!r}',
                    head + 'subs = [(S.L(("r", i)), S.L(("s", i))) for i in range(m)]\nrest = U.a_unflatten(oa, subs)\n'
                    'r = outcome(lambda: optree.tree_transpose_map(f, t, rest, **o))\nprint(r)\n'
                    'want = U.a_unflatten(ia, [U.a_unflatten(oa, [Tag((x, y), j) for x, y in zip(U.a_leaves(oa), subs)]) for j in range(n)])\n'
                    'sys.exit(1 if r[0] != "ok" or not U.same_tree(r[1], want, tag_eq) else 0)\n')
    # with_path / with_accessor
    for k, (name, fn) in enumerate((('tree_transpose_map_with_path', optree.tree_transpose_map_with_path),
                                    ('tree_transpose_map_with_accessor', optree.tree_transpose_map_with_accessor))):
        got = []

        def g(p, x, got=got):
            got.append(p)
            return f(x)
        bag.ev()
        st, r = U.guard(fn, g, t, **o)
        firsts = got if k == 0 else [getattr(a, 'path', None) for a in got]
        if st == 'exc' or not U.same_tree(r, want, tag_eq) or firsts != t_paths:
            bag.add('C10.transpose_map_with_path' if k == 0 else 'C10.transpose_map_with_accessor',
                    f'{s.label()}: {name}(g, {t!r}) {"raised " + U.exc_name(r) if st == "exc" else "= " + repr(r)}, first arguments {got!r}; '
                    f'expected {want!r} and the leaf paths {t_paths!r}',
                    head + 'got = []\ndef g(p, x):\n    got.append(p)\n    return f(x)\n'
                    f'r = outcome(lambda: optree.{name}(g, t, **o))\nprint(r, got)\n'
                    'want = U.a_unflatten(ia, [U.a_unflatten(oa, [Tag(x, j) for x in U.a_leaves(oa)]) for j in range(n)])\n'
                    + ('firsts = got\n' if k == 0 else 'firsts = [a.path for a in got]\n') +
                    'sys.exit(1 if r[0] != "ok" or not U.same_tree(r[1], want, tag_eq) or firsts != U.a_paths(oa) else 0)\n')
    # varying inner shape: later results deeper than the first are kept as subtrees; a first result deeper than a later one is rejected
    if s.m >= 2 and o['is_leaf'] is None:
        def make_deep(first_flat):
            calls = itertools.count()       # f is applied to the leaves in leaf order: the first call is for leaf 0

            def fn(x):
                flat = (next(calls) == 0) == first_flat
                if flat:
                    return U.a_unflatten(s.ia, [Tag(x, j) for j in range(s.n)])
                return U.a_unflatten(s.ia, [[Tag(x, j), Tag(x, -j - 1)] for j in range(s.n)])
            return fn
        dhead = head + 'tl = U.a_leaves(oa)\ndef make_deep(first_flat):\n    calls = itertools.count()\n    def fn(x):\n' \
                       '        flat = (next(calls) == 0) == first_flat\n' \
                       '        return U.a_unflatten(ia, [Tag(x, j) if flat else [Tag(x, j), Tag(x, -j - 1)] for j in range(n)])\n    return fn\n'
        bag.ev()
        st, r = U.guard(optree.tree_transpose_map, make_deep(True), t, **o)
        # expected: inner structure from the first (flat) result; the other results' lists stay as subtrees
        want_deep = expected_for([[Tag(x, j) if i == 0 else [Tag(x, j), Tag(x, -j - 1)] for j in range(s.n)] for i, x in enumerate(t_leaves)])
        if st == 'exc' or not U.same_tree(r, want_deep, tag_eq):
            bag.add('C10.transpose_map', f'{s.label()}: f returns the inner shape for the first leaf and a deeper tree (2-lists at the leaves) for the others; '
                                         f'tree_transpose_map {"raised " + U.exc_name(r) if st == "exc" else "= " + repr(r)}; expected the lists kept as subtrees',
                    dhead + 'r = outcome(lambda: optree.tree_transpose_map(make_deep(True), t, **o))\nprint(r)\n'
                    'want = U.a_unflatten(ia, [U.a_unflatten(oa, [Tag(x, j) if i == 0 else [Tag(x, j), Tag(x, -j - 1)] for i, x in enumerate(tl)]) for j in range(n)])\n'
                    'sys.exit(1 if r[0] != "ok" or not U.same_tree(r[1], want, tag_eq) else 0)\n')
        bag.ev()
        st, r = U.guard(optree.tree_transpose_map, make_deep(False), t, **o)
        if not (st == 'exc' and isinstance(r, ValueError)):
            bag.add('C10.transpose_map_rejects', f'{s.label()}: the first result is deeper than the later ones (they do not match the inner structure); tree_transpose_map '
                                                 f'{"raised " + U.exc_name(r) if st == "exc" else "returned " + repr(r)}, ValueError expected',
                    dhead + 'r = outcome(lambda: optree.tree_transpose_map(make_deep(False), t, **o))\nprint(r)\nsys.exit(1 if r[0] != "ValueError" else 0)\n')
    # results without leaves
    bag.ev()
    st, r = U.guard(optree.tree_transpose_map, lambda x: (), t, **o)
    if not (st == 'exc' and isinstance(r, ValueError)):
        bag.add('C10.transpose_map_rejects', f'{s.label()}: f returns () (no leaves); tree_transpose_map {"raised " + U.exc_name(r) if st == "exc" else "returned " + repr(r)}, ValueError expected',
                head + 'r = outcome(lambda: optree.tree_transpose_map(lambda x: (), t, **o))\nprint(r)\nsys.exit(1 if r[0] != "ValueError" else 0)\n')


def run(tier: str, seed: int) -> BoundedReport:
    U.ensure_registered()
    quick = tier == 'quick'
    rng = random.Random(seed)
    bag = U.Bag('c10_transpose')
    stats = {'pairs': 0, 'empty': 0, 'map': 0}
    opts6 = U.options(namespaces=('', U.NS, U.NS_OTHER))
    o_def, o_ns, o_nil, o_nil_ns = opts6[0], opts6[1], opts6[3], opts6[4]
    opts_pred = U.options(namespaces=('',), predicates=S.PREDICATES[1:], nils=(False,))
    kinds = U.CORE_KINDS + ['customN', 'dequeM', 'structseq']

    def one(od, idd, o, errors=False, maps=False):
        try:
            s = check_transpose(od, idd, o, bag, stats, errors)
            if s is not None and maps:
                check_map(s, bag, stats, rng)
        except Exception as e:   # noqa: BLE001
            import traceback
            tb = traceback.format_exc().strip().splitlines()
            bag.add('C10.unexpected_exception', f'outer {U.show(od)}, inner {U.show(idd)} [{S.opt_repr(o)}]: {U.exc_name(e)} ({tb[-2].strip() if len(tb) > 1 else ""})',
                    setup_src(od, idd, o) + 'optree.tree_transpose(outer, inner, T, is_leaf=o["is_leaf"])\nsys.exit(0)\n')
        bag.seen((U.freeze(od), U.freeze(idd), U.opt_key(o)))

    # 1. all pairs of trees with <= 3 nodes (incl. leafless ones: rejected)
    small = list(U.descriptions(3, U.CORE_KINDS, U.CORE_ATOMS))
    a_side = small
    b_side = small
    k = 0
    for od in a_side:
        for idd in b_side:
            k += 1
            one(od, idd, o_def if k % 4 else o_nil, errors=(k % 7 == 0), maps=(k % (5 if quick else 9) == 0))
    bag.sample(f'all pairs <= 3 nodes: {len(a_side)} x {len(b_side)}, e.g. outer {U.show(a_side[len(a_side) // 2])}, inner {U.show(b_side[len(b_side) // 3])}')

    # 2. every pair of shapes with <= 4 nodes: sampled kind assignments with at least one leaf each
    by_shape = {}
    for d in U.descriptions(4, kinds, ['leaf', 'none', 'e_tuple']):
        if U.n_leaf_atoms(d) >= 1:
            by_shape.setdefault(shape_of(d), []).append(d)
    shapes = sorted(by_shape, key=repr)
    per = 60 if quick else 2500
    for so in shapes:
        for si in shapes:
            for _ in range(per):
                od, idd = rng.choice(by_shape[so]), rng.choice(by_shape[si])
                r = rng.random()
                o = o_def if r < 0.4 else o_ns if r < 0.7 else o_nil_ns if r < 0.85 else o_nil
                one(od, idd, o, errors=rng.random() < 0.15, maps=rng.random() < (0.25 if quick else 0.15))
    bag.sample(f'{len(shapes)} x {len(shapes)} shape pairs (<= 4 nodes, >= 1 leaf) x {per} kind assignments over {len(kinds)} kinds')

    if not quick:
        big = [d for d in U.descriptions(4, U.CORE_KINDS, ['leaf', 'none'], min_nodes=4) if U.n_leaf_atoms(d) >= 1]
        for od in U.thin(big, 500, rng):
            for idd in U.thin(big, 500, rng):
                k += 1
                one(od, idd, o_def if k % 4 else o_nil_ns, errors=(k % 11 == 0), maps=(k % 9 == 0))

    # 3. is_leaf predicates
    for _ in range(300 if quick else 6000):
        od, idd = rng.choice(by_shape[rng.choice(shapes)]), rng.choice(by_shape[rng.choice(shapes)])
        one(od, idd, rng.choice(opts_pred), errors=False, maps=rng.random() < 0.3)

    bag.sample(f'is_leaf predicates: {[p.__name__ for p in S.PREDICATES[1:]]} on sampled shape pairs; map variants: inner from first result, inner_treespec given, '
               f'one rest, with_path, with_accessor, deeper later results, deeper first result (rejected), leafless results (rejected)')
    bag.sample(f'rejected inputs: leafless outer/inner, {{(T, extra leaf), bare outer, one inner}} as wrong leaf counts, none_is_leaf mismatch, namespaces {U.NS!r} vs {U.NS2!r}')

    # 4. conflicting namespaces: outer recorded in NS (customN node), inner recorded in NS2 (customM node)
    nsc = 0
    for od in [('customN', [LEAF]), ('tuple', [('customN', [LEAF, LEAF]), LEAF])]:
        for idd in [('customM', [LEAF]), ('list', [('customM', [LEAF]), LEAF])]:
            for nil in (False, True):
                O, I = U.build(od), U.build(idd)
                oo = {'none_is_leaf': nil, 'namespace': U.NS, 'is_leaf': None}
                oi = {'none_is_leaf': nil, 'namespace': U.NS2, 'is_leaf': None}
                outer, inner = optree.tree_structure(O, **oo), optree.tree_structure(I, **oi)
                T = U.a_unflatten(U.absify(O, **oo), [U.build(idd) for _ in range(outer.num_leaves)])
                bag.ev()
                nsc += 1
                st, r = U.guard(optree.tree_transpose, outer, inner, T)
                if not raises(st, r):
                    bag.add('C10.transpose_rejects', f'outer {outer!r}, inner {inner!r} (conflicting namespaces): tree_transpose '
                                                     f'{"raised " + U.exc_name(r) if st == "exc" else "returned " + repr(r)}',
                            f'O = {U.src(od)}\nI = {U.src(idd)}\nouter = optree.tree_structure(O, none_is_leaf={nil}, namespace={U.NS!r})\n'
                            f'inner = optree.tree_structure(I, none_is_leaf={nil}, namespace={U.NS2!r})\n'
                            f'T = U.a_unflatten(U.absify(O, none_is_leaf={nil}, namespace={U.NS!r}), [{U.src(idd)} for _ in range(outer.num_leaves)])\n'
                            'try:\n    optree.tree_transpose(outer, inner, T)\nexcept (ValueError, TypeError):\n    sys.exit(0)\nsys.exit(1)\n')
    return bag.report(
        rule=f'distinct = (outer description, inner description, options); non-trivial = both have >= 1 leaf and not both are bare leaves; '
             f'{stats["pairs"]} transposed pairs, {stats["empty"]} pairs with a leafless structure (must be rejected), {stats["map"]} pairs also through the map variants',
        scope=f'{tier}: all pairs of {len(a_side)} x {len(b_side)} trees with <= 3 nodes ({len(U.CORE_KINDS)} kinds, {len(U.CORE_ATOMS)} atoms); every pair of the '
              f'{len(shapes)} shapes with <= 4 nodes x {per} kind assignments ({len(kinds)} kinds); is_leaf predicates; none_is_leaf x namespace; '
              f'{nsc} conflicting-namespace cases; wrong leaf counts / none_is_leaf mismatch on a 1/7 sample',
        exhaustive=False,
        notes='which exception class is raised for rejected inputs is not fixed by the property: ValueError and TypeError are accepted',
    )
