"""C03 bounded monitor, part 2: (a) all entry points record the same treespec *namespace / repr*, not only an equal treespec,
for every combination of (namespace argument, where insertion-ordered mode is switched on, custom node present);
(b) custom nodes whose flatten function returns its children / its path entries as one-shot iterables (generator, iter(),
map(), range, list, tuple): tree_iter, tree_leaves, tree_flatten, tree_flatten_with_path and tree_flatten_with_accessor must
agree on leaves and on the exception type.  Exhaustive over the listed grid."""
from ocv.bounded._extra import run_core

CORE = r'''
import itertools
import optree

NS = 'c03x'

class Node2:
    def __init__(self, *c): self.c = list(c)
    def __repr__(self): return f'Node2{tuple(self.c)!r}'
def _flat(n): return (tuple(n.c), None, None)
try:
    optree.register_pytree_node(Node2, _flat, lambda m, c: Node2(*c), namespace=NS)
except ValueError:
    pass

MAKERS = {'tuple': tuple, 'list': list, 'gen': lambda xs: (x for x in xs), 'iter': lambda xs: iter(list(xs)),
          'map': lambda xs: map(lambda x: x, list(xs)), 'range': lambda xs: range(len(xs)), 'none': lambda xs: None,
          'short': lambda xs: tuple(xs)[:-1] if xs else (0,), 'dictkeys': lambda xs: {i: 0 for i in range(len(xs))}.keys()}

class Shape:
    """custom node whose flatten result uses the iterable kinds given at registration"""
registered = {}
def shape_class(children_kind, entries_kind):
    key = (children_kind, entries_kind)
    if key not in registered:
        cls = type(f'Shape_{children_kind}_{entries_kind}', (), {'__init__': lambda self, *c: setattr(self, 'c', list(c))})
        def fl(n, ck=children_kind, ek=entries_kind):
            return (MAKERS[ck](n.c), 'meta', MAKERS[ek](n.c))
        optree.register_pytree_node(cls, fl, lambda m, c, cls=cls: cls(*c), namespace=NS)
        registered[key] = cls
    return registered[key]

def cases(tier):
    # (a) namespace recorded
    for ns_arg in ('', NS, 'other_ns'):
        for mode_at in (None, 'global', NS, 'other_ns'):
            for has_custom in (False, True):
                for nil in (False, True):
                    yield ('ns', ns_arg, mode_at, has_custom, nil)
    # (c) all_leaves / tree_is_leaf with value-based predicates over sequences of same-typed elements
    for seq in itertools.product(range(5), repeat=3):
        for pred in ('len1', 'first_is_0', 'none'):
            yield ('all_leaves', seq, pred)
    # (b) iterable kinds
    for ck in ('tuple', 'list', 'gen', 'iter', 'map'):
        for ek in MAKERS:
            for n in (0, 1, 3):
                yield ('iter', ck, ek, n)

def outcome(f):
    try:
        return ('ok', f())
    except Exception as e:
        return ('exc', type(e).__name__)

ELEMS = [lambda: (1,), lambda: (2, 3), lambda: [0], lambda: [0, 1], lambda: 7]
PREDS = {'len1': lambda x: isinstance(x, (tuple, list)) and len(x) == 1,
         'first_is_0': lambda x: isinstance(x, (tuple, list)) and len(x) > 0 and x[0] == 0,
         'none': None}

def check(spec):
    bad = []
    if spec[0] == 'all_leaves':
        _, seq, pname = spec
        xs = [ELEMS[i]() for i in seq]
        pred = PREDS[pname]
        each = [optree.tree_is_leaf(x, is_leaf=pred) for x in xs]
        flat = [optree.tree_leaves(x, is_leaf=pred) == [x] and optree.tree_structure(x, is_leaf=pred).is_leaf() for x in xs]
        got = optree.all_leaves(xs, is_leaf=pred)
        if each != flat:
            bad.append(('C03.is_leaf_agrees_with_flatten', f'tree_is_leaf gives {each!r}, flatten-based leafness {flat!r} for {xs!r} with predicate {pname}'))
        if got != all(each):
            bad.append(('C03.all_leaves_is_the_conjunction_of_is_leaf', f'all_leaves({xs!r}, is_leaf={pname}) = {got}, element-wise tree_is_leaf = {each!r}'))
        return bad
    if spec[0] == 'ns':
        _, ns_arg, mode_at, has_custom, nil = spec
        tree = {'b': 1, 'a': (2, None, Node2(3, 4) if has_custom else [3, 4])}
        kw = dict(none_is_leaf=nil, namespace=ns_arg)
        def go():
            specs = {
                'tree_flatten': optree.tree_flatten(tree, **kw)[1],
                'tree_structure': optree.tree_structure(tree, **kw),
                'tree_flatten_with_path': optree.tree_flatten_with_path(tree, **kw)[2],
                'tree_flatten_with_accessor': optree.tree_flatten_with_accessor(tree, **kw)[2],
            }
            ref_name, ref = 'tree_flatten', specs['tree_flatten']
            for nm, s in specs.items():
                if not (s == ref and hash(s) == hash(ref)):
                    bad.append(('C03.entry_points_equal_treespec', f'{nm} gives {s!r}, {ref_name} gives {ref!r} for {tree!r} under {kw!r}, mode switched on at {mode_at!r}'))
                if s.namespace != ref.namespace or repr(s) != repr(ref) or s.none_is_leaf != ref.none_is_leaf:
                    bad.append(('C03.entry_points_same_namespace_and_repr', f'{nm} gives {s!r} (namespace {s.namespace!r}), {ref_name} gives {ref!r} (namespace {ref.namespace!r}) for {tree!r} under {kw!r}, insertion-ordered mode switched on at {mode_at!r}'))
        if mode_at is None:
            go()
        else:
            with optree.dict_insertion_ordered(True, namespace=(optree.registry.__dict__.get('__GLOBAL_NAMESPACE') or next(v for k, v in optree.registry.__dict__.items() if k.endswith('GLOBAL_NAMESPACE'))) if mode_at == 'global' else mode_at):
                go()
        return bad
    _, ck, ek, n = spec
    cls = shape_class(ck, ek)
    tree = [cls(*range(10, 10 + n)), 99]
    kw = dict(namespace=NS)
    res = {
        'tree_leaves': outcome(lambda: optree.tree_leaves(tree, **kw)),
        'tree_flatten': outcome(lambda: optree.tree_flatten(tree, **kw)[0]),
        'tree_iter': outcome(lambda: list(optree.tree_iter(tree, **kw))),
        'tree_flatten_with_path': outcome(lambda: optree.tree_flatten_with_path(tree, **kw)[1]),
        'tree_flatten_with_accessor': outcome(lambda: optree.tree_flatten_with_accessor(tree, **kw)[1]),
    }
    ref = res['tree_leaves']
    for nm, r in res.items():
        if r != ref:
            bad.append(('C03.entry_points_agree_on_iterable_kinds', f'children as {ck}, entries as {ek}, {n} children: {nm} -> {r!r} but tree_leaves -> {ref!r}'))
    return bad
'''


def run(tier, seed):
    return run_core('c03_extra', CORE, tier,
                    scope='3 namespace arguments x 4 places of the insertion-ordered switch x custom present x none_is_leaf; '
                          '5 children-iterable kinds x 9 entries-iterable kinds x 3 arities',
                    rule='one evaluation = all entry points run on one tree and compared pairwise with tree_flatten / tree_leaves')
