"""C18 bounded monitor, part 2: struct-sequence classes whose counters were rebound before the first classification.
(os.stat_result is left out: rebinding its counters crashes CPython's own import machinery.)  The struct-sequence types of the os / time / resource modules are mutable heap types on CPython 3.12, so `n_fields`,
`n_sequence_fields`, `n_unnamed_fields` can be rebound to a bool, an int subclass instance, a float, None or a str; engine and
Python twin must still agree on recognition (is_structseq_class / is_structseq / is_structseq_instance) and on the outcome of
structseq_fields (fields, or the exception type), and the engine must not read past the member table when
n_sequence_fields is rebound to an exact int larger than the table or negative (a dying child is a C16 failure).  Part 3: genuine heap struct-sequence types (PyStructSequence_NewType through
ctypes, the call extension modules use) are classified and freed; ordinary classes that are then allocated at their addresses
must get the answer of the Python twin (history independence of the engine cache).  Every case runs in its own child interpreter, the rebinding is done before
optree sees the class (no cache history involved).  Exhaustive over the listed grid."""
from ocv.bounded._extra import run_core

CORE = r'''
import subprocess, sys
CHILD = """
import os, sys, time, resource
cls = {'sched_param': os.sched_param, 'terminal_size': os.terminal_size, 'struct_time': time.struct_time,
       'struct_rusage': resource.struct_rusage, 'stat_result': os.stat_result}[sys.argv[1]]
class I(int): pass
val = {'True': True, 'False': False, 'intsub': I(2), 'float': 2.0, 'None': None, 'str': '2', 'same': getattr(cls, sys.argv[2]),
       'int0': 0, 'int1': 1, 'int1000': 1000, 'intneg1': -1, 'intneg100': -100}[sys.argv[3]]
inst = {'sched_param': lambda: os.sched_param(1), 'terminal_size': lambda: os.terminal_size((1, 2)), 'struct_time': lambda: time.gmtime(0),
        'struct_rusage': lambda: resource.getrusage(resource.RUSAGE_SELF), 'stat_result': lambda: os.stat('/')}[sys.argv[1]]()
setattr(cls, sys.argv[2], val)
import optree
from optree import typing as T
def outcome(f, x):
    try:
        return ('value', f(x))
    except Exception as e:
        return ('raises', type(e).__name__)
for name, arg in (('is_structseq_class', cls), ('is_structseq', cls), ('is_structseq', inst), ('is_structseq_instance', inst),
                  ('structseq_fields', cls), ('structseq_fields', inst)):
    f = getattr(T, name)
    a, b = outcome(f, arg), outcome(f.__python_implementation__, arg)
    if a != b:
        print('DISAGREE', name, 'class' if arg is cls else 'instance', 'engine', a, 'python', b)
print('DONE')
"""

REUSE = """
import collections, ctypes, gc, sys
import optree
from optree import typing as T
cxx = T.is_structseq_class.__cxx_implementation__
twin = T.is_structseq_class.__python_implementation__
class _Field(ctypes.Structure):
    _fields_ = [('name', ctypes.c_char_p), ('doc', ctypes.c_char_p)]
class _Desc(ctypes.Structure):
    _fields_ = [('name', ctypes.c_char_p), ('doc', ctypes.c_char_p), ('fields', ctypes.POINTER(_Field)), ('n_in_sequence', ctypes.c_int)]
_new = ctypes.pythonapi.PyStructSequence_NewType
_new.restype = ctypes.py_object
_new.argtypes = [ctypes.POINTER(_Desc)]
KEEP = []
def new_ss(name, names):
    fields = (_Field * (len(names) + 1))()
    for i, n in enumerate(names):
        fields[i].name = n.encode(); fields[i].doc = None
    desc = _Desc(name.encode(), None, fields, len(names))
    KEEP.append((fields, desc))
    return _new(ctypes.byref(desc))
def plain(k):
    if k % 3 == 0:
        return type('Plain%d' % k, (), {'__slots__': ('a', 'b')})
    if k % 3 == 1:
        return type('PlainTuple%d' % k, (tuple,), {})
    return collections.namedtuple('PlainNT%d' % k, ('a', 'b'))
shift = int(sys.argv[1])
dead, reused, k = set(), 0, shift
for rnd in range(12):
    batch = [new_ss('m.Pair%d_%d' % (rnd, i), ('first', 'second')) for i in range(8)]
    for c in batch:
        if cxx(c) is not True or twin(c) is not True:
            print('DISAGREE live heap struct sequence type', c, 'engine', cxx(c), 'python', twin(c))
        dead.add(id(c))
    del batch, c
    gc.collect()
    pinned = []
    for _ in range(40):
        fresh = []
        for _ in range(64):
            c = plain(k); k += 1
            if id(c) in dead:
                reused += 1
                a, b = cxx(c), twin(c)
                if a != b:
                    print('DISAGREE class', c.__name__, 'allocated at the address of a freed struct sequence type: engine', a, 'python', b)
                dead.discard(id(c))
            fresh.append(c)
        pinned = fresh
print('REUSED', reused)
print('DONE')
"""

def cases(tier):
    for shift in range(3 if tier == 'quick' else 12):
        yield ('reuse', shift)
    for c in ('sched_param', 'terminal_size', 'struct_time', 'struct_rusage'):
        for attr in ('n_fields', 'n_sequence_fields', 'n_unnamed_fields'):
            for v in ('True', 'False', 'intsub', 'float', 'None', 'str', 'same'):
                yield (c, attr, v)
        # exact ints that are not the real counter: the engine reads tp_members[i] for i below the *attribute* (C16)
        for v in ('int0', 'int1', 'int1000', 'intneg1', 'intneg100'):
            yield (c, 'n_sequence_fields', v)

def check(spec):
    if spec[0] == 'reuse':
        p = subprocess.run([sys.executable, '-c', REUSE, str(spec[1])], capture_output=True, text=True, timeout=300)
        bad = []
        if p.returncode != 0 or 'DONE' not in p.stdout:
            bad.append(('C18.unexpected_exception', f'address-reuse child {spec!r} exited {p.returncode}: {p.stderr[-400:]}'))
        for line in p.stdout.splitlines():
            if line.startswith('DISAGREE'):
                bad.append(('C18.answers_independent_of_history', line[9:]))
        return bad
    c, attr, v = spec
    p = subprocess.run([sys.executable, '-c', CHILD, c, attr, v], capture_output=True, text=True, timeout=120)
    bad = []
    if p.returncode < 0 or p.returncode in (134, 139):
        bad.append(('C16.no_crash_with_rebound_structseq_counter', f'{c}.{attr} rebound to {v}: the interpreter died with status {p.returncode}: {p.stderr[-300:]}'))
        bad.append(('C18.structseq_fields_twin_agrees', f'{c}.{attr} rebound to {v}: the engine twin killed the interpreter (status {p.returncode}), the Python twin answers'))
    elif p.returncode != 0 or 'DONE' not in p.stdout:
        bad.append(('C18.unexpected_exception', f'child for {spec!r} exited {p.returncode}: {p.stderr[-400:]}'))
    for line in p.stdout.splitlines():
        if line.startswith('DISAGREE'):
            key = 'C18.structseq_fields_twin_agrees' if 'structseq_fields' in line else 'C18.is_structseq_class_twin_agrees'
            bad.append((key, f'{c}.{attr} rebound to {v} before the first classification: {line[9:]}'))
    return bad
'''


def run(tier, seed):
    return run_core('c18_extra', CORE, tier,
                    scope='4 mutable struct-sequence types x 3 counters x 7 rebound values (bool, int subclass, float, None, str, unchanged) + n_sequence_fields rebound to 0 / 1 / 1000 / -1 / -100, '
                          '6 twin calls each, one child interpreter per case; 3 (quick) / 12 (thorough) address-reuse histories: 96 heap struct-sequence '
                          'types made with PyStructSequence_NewType (ctypes), classified, freed, then ordinary classes allocated until they '
                          'land on the freed addresses',
                    rule='one evaluation = one rebinding in a fresh interpreter, all six twin pairs compared')
