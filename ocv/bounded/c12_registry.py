"""C12 - registry changes are namespace-isolated, atomic and reversible (bounded contract monitor).

Every history (sequence of register / register_class / unregister / dataclass-register calls, with argument
faults, with and without warnings-as-errors) is executed on FRESH types; after EVERY call the behaviour of the
engine (`tree_flatten` + treespec inspection + `tree_unflatten`, both `none_is_leaf` settings) and of the
Python-visible registry (`register_pytree_node.get(cls, namespace=)`, `register_pytree_node.get(namespace=)`,
`tree_flatten_one_level`) is observed in every namespace {'', 'a', 'b'} and compared with an independent
reference model of the registry (a dict keyed by (namespace, type); a namespace entry shadows the global one;
built-ins immutable; duplicates / absent unregistrations fail; a call that raises changes nothing).

The part between the `# >>> core` / `# <<< core` markers is self-contained (optree + stdlib only) and is copied
verbatim into the replay scripts, so a replay executes exactly the code of the monitor.
"""
from __future__ import annotations

import itertools
import random

from ocv.bounded import _util_c as U
from ocv.result import BoundedReport

# >>> core
import collections
import dataclasses
import gc
import operator
import os
import sys
import warnings

import optree
import optree.registry as _registry

GLOBAL = next(v for k, v in vars(_registry).items() if k.endswith('__GLOBAL_NAMESPACE'))
OBS_NAMESPACES = ('', 'a', 'b')
BUILTIN_SLOTS = {'list': list, 'dict': dict, 'tuple': tuple, 'NoneType': type(None), 'deque': collections.deque,
                 'OrderedDict': collections.OrderedDict, 'defaultdict': collections.defaultdict}
FRESH_SLOTS = ('P', 'S', 'NT', 'SS')
NS_ARG = {'G': GLOBAL, 'a': 'a', 'b': 'b', '': '', 'int': 1, 'None': None}   # op namespace symbol -> argument
NS_KEY = {'G': '', 'a': 'a', 'b': 'b'}                                        # op namespace symbol -> model namespace
ALLOWED_EXC = (TypeError, ValueError, AttributeError, Warning)
KIND_NAME = {k: k.name for k in optree.PyTreeKind.__members__.values()}


class Tag:
    """Child produced by a registered flatten function: identifies the registration that was used."""
    __slots__ = ('rid',)

    def __init__(self, rid):
        self.rid = rid


class Rebuilt:
    """Result of a registered unflatten function: identifies the registration that was used."""
    __slots__ = ('rid', 'children')

    def __init__(self, rid, children):
        self.rid = rid
        self.children = list(children)


class MyEntry(optree.PyTreeEntry):
    pass


class Universe:
    """Fresh types of one history + one instance of each."""

    def __init__(self):
        class P:
            v: object = None

            def tree_flatten(self):
                return [Tag('cls:' + type(self).__name__)], 'clsmeta', None

            @classmethod
            def tree_unflatten(cls, metadata, children):
                return Rebuilt('cls:' + cls.__name__, children)

        class S(P):
            w: object = None

        class NT(collections.namedtuple('NTBase', ['x', 'y'])):
            __slots__ = ()

            def tree_flatten(self):
                return [Tag('cls:NT')], 'clsmeta', None

            @classmethod
            def tree_unflatten(cls, metadata, children):
                return Rebuilt('cls:NT', children)

        self.types = {'P': P, 'S': S, 'NT': NT, 'SS': os.terminal_size}
        self.types.update(BUILTIN_SLOTS)
        self.slot_of = {t: s for s, t in self.types.items()}
        p = P()
        p.v = 'pv'
        s = S()
        s.v, s.w = 'sv', 'sw'
        self.inst = {'P': p, 'S': s, 'NT': NT('ntx', 'nty'), 'SS': os.terminal_size(('ssc', 'ssr'))}
        self.funcs = {}          # id(function) -> name in views
        self.ecache = {}         # id(registry entry) -> (entry, view)
        self.keep = []           # keep registered closures alive so ids stay unique
        self.next_rid = 0

    def new_functions(self):
        rid = self.next_rid
        self.next_rid += 1

        def flatten(obj, rid=rid):
            return [Tag(rid)], ('m', rid), ('k%d' % rid,)

        def unflatten(metadata, children, rid=rid):
            return Rebuilt(rid, children)

        self.funcs[id(flatten)] = 'f:%d' % rid
        self.funcs[id(unflatten)] = 'u:%d' % rid
        self.keep += [flatten, unflatten]
        return rid, flatten, unflatten

    # -- views (JSON-able canonical descriptions) -------------------------------------------------
    def tname(self, t):
        try:
            return self.slot_of.get(t) or getattr(t, '__name__', None) or repr(t)
        except TypeError:
            return repr(t)

    def fname(self, f):
        if id(f) in self.funcs:
            return self.funcs[id(f)]
        if isinstance(f, operator.methodcaller):
            return 'methodcaller'
        if getattr(f, '__self__', None) is not None:
            return 'bound:%s.%s' % (self.tname(f.__self__), f.__name__)
        q = getattr(f, '__qualname__', repr(f))
        return '?' if '<locals>' in q else q

    def vleaf(self, x):
        if isinstance(x, Tag):
            return 'tag:%s' % (x.rid,)
        if isinstance(x, str):
            return x
        if x is None:
            return 'None'
        for s in FRESH_SLOTS:
            if x is self.inst[s]:
                return 'inst:' + s
        return 'other:' + type(x).__name__

    def vobj(self, x):
        """View of an element of an unflatten result."""
        if isinstance(x, Rebuilt):
            return 'rebuilt:%s%s' % (x.rid, [self.vleaf(c) for c in x.children])
        for s in FRESH_SLOTS:
            if x is self.inst[s]:
                return 'inst:' + s
        t = type(x)
        if dataclasses.is_dataclass(t) and t in self.slot_of:
            return 'new:%s(%s)' % (self.slot_of[t], ','.join(str(getattr(x, f.name)) for f in dataclasses.fields(t)))
        if t in self.slot_of and isinstance(x, tuple):
            return 'new:%s(%s)' % (self.slot_of[t], ','.join(map(str, x)))
        if isinstance(x, list):
            return [self.vleaf(c) for c in x]
        return self.vleaf(x)

    def ventry(self, e):
        if e is None:
            return 'none'
        hit = self.ecache.get(id(e))
        if hit is not None and hit[0] is e:
            return hit[1]
        ff = self.fname(e.flatten_func)
        uf = self.fname(e.unflatten_func)
        v = 'kind=%s|ns=%r|type=%s|pet=%s|ff=%s|uf=%s' % (e.kind.name, e.namespace, self.tname(e.type),
                                                           e.path_entry_type.__name__, ff, uf)
        self.ecache[id(e)] = (e, v)
        return v


class Reg:
    def __init__(self, how, rid, ns, pet='AutoEntry'):
        self.how, self.rid, self.ns, self.pet = how, rid, ns, pet   # how: fn | cls | dc | broken


class Model:
    """Reference model of the registry: (namespace, slot) -> Reg; '' is the global namespace."""

    def __init__(self):
        self.R = {}
        self.dc_done = set()

    def lookup(self, ns, slot):
        if ns != '' and (ns, slot) in self.R:
            return self.R[(ns, slot)]
        return self.R.get(('', slot))


# ---- observers ----------------------------------------------------------------------------------

def _guard(fn):
    try:
        return fn()
    except Exception as e:   # noqa: BLE001 - an exception here is itself an observation
        return 'EXC:%s:%s' % (type(e).__name__, str(e)[:160])


def observe_engine(u, ns, nil):
    """What the engine does: leaves, per-child (kind, type, entries), and the unflattened result."""
    tree = (u.inst['P'], u.inst['S'], u.inst['NT'], u.inst['SS'], ['l0'], None)

    def go():
        leaves, spec = optree.tree_flatten(tree, none_is_leaf=nil, namespace=ns)
        kinds = []
        for c in spec.children():
            k, t = KIND_NAME[c.kind], c.type
            kinds.append('%s/%s/%s' % (k, u.slot_of.get(t, t) if t is not None else '-',
                                       c.entries() if k == 'CUSTOM' else c.num_children))
        back = optree.tree_unflatten(spec, leaves)
        return {'leaves': [u.vleaf(x) for x in leaves], 'kinds': kinds, 'back': [u.vobj(x) for x in back]}
    return _guard(go)


def expect_engine(m, u, ns, nil):
    leaves, kinds, back = [], [], []
    for slot in FRESH_SLOTS:
        r = m.lookup(ns, slot)
        x = u.inst[slot]
        if r is None:
            if slot in ('P', 'S'):
                leaves.append('inst:' + slot)
                kinds.append('LEAF/-/0')
                back.append('inst:' + slot)
            else:
                leaves += [str(c) for c in x]
                kinds.append('%s/%s/2' % ('NAMEDTUPLE' if slot == 'NT' else 'STRUCTSEQUENCE', slot))
                back.append('new:%s(%s)' % (slot, ','.join(map(str, x))))
        elif r.how == 'fn':
            leaves.append('tag:%d' % r.rid)
            kinds.append('CUSTOM/%s/%s' % (slot, ['k%d' % r.rid]))
            back.append('rebuilt:%d%s' % (r.rid, ['tag:%d' % r.rid]))
        elif r.how == 'cls':
            leaves.append('tag:cls:' + slot)
            kinds.append('CUSTOM/%s/%s' % (slot, [0]))
            back.append('rebuilt:cls:%s%s' % (slot, ['tag:cls:' + slot]))
        elif r.how == 'dc':
            names = [f.name for f in dataclasses.fields(u.types[slot])]
            vals = [str(getattr(x, n)) for n in names]
            leaves += vals
            kinds.append('CUSTOM/%s/%s' % (slot, names))
            back.append('new:%s(%s)' % (slot, ','.join(vals)))
    leaves.append('l0')
    kinds.append('LIST/list/1')
    back.append(['l0'])
    if nil:
        leaves.append('None')
        kinds.append('LEAF/-/0')
    else:
        kinds.append('NONE/NoneType/0')
    back.append('None')
    return {'leaves': leaves, 'kinds': kinds, 'back': back}


GET_SLOTS = FRESH_SLOTS + ('list', 'NoneType', 'dict')


def observe_get(u, ns):
    return {s: _guard(lambda s=s: u.ventry(optree.register_pytree_node.get(u.types[s], namespace=ns))) for s in GET_SLOTS}


def _expect_entry(r, slot):
    if r.how == 'fn':
        return 'kind=CUSTOM|ns=%r|type=%s|pet=%s|ff=f:%d|uf=u:%d' % (r.ns, slot, r.pet, r.rid, r.rid)
    if r.how == 'cls':
        return 'kind=CUSTOM|ns=%r|type=%s|pet=%s|ff=methodcaller|uf=bound:%s.tree_unflatten' % (r.ns, slot, r.pet, slot)
    return 'kind=CUSTOM|ns=%r|type=%s|pet=DataclassEntry|ff=?|uf=?' % (r.ns, slot)


def expect_get(m, u, ns, base):
    out = {}
    for s in GET_SLOTS:
        r = m.lookup(ns, s)
        out[s] = base['get'][ns][s] if r is None else _expect_entry(r, s)
    return out


def observe_get_all(u, ns):
    def go():
        d = optree.register_pytree_node.get(namespace=ns)
        return {u.tname(k): u.ventry(e) for k, e in d.items()}
    return _guard(go)


def expect_get_all(m, u, ns, base):
    out = dict(base['get_all'][ns])
    for s in FRESH_SLOTS:
        r = m.lookup(ns, s)
        if r is not None:
            out[s] = _expect_entry(r, s)
    return out


def observe_one_level(u, ns, nil):
    out = {}
    for s in (FRESH_SLOTS if not nil else ('P',)):
        def go(s=s):
            try:
                o = optree.tree_flatten_one_level(u.inst[s], none_is_leaf=nil, namespace=ns)
            except ValueError as e:
                if 'Cannot flatten leaf-type' in str(e):
                    return 'leaf'
                raise
            back = o.unflatten_func(o.metadata, o.children)
            return 'children=%s|entries=%s|type=%s|pet=%s|kind=%s|uf=%s|back=%s' % (
                [u.vleaf(c) for c in o.children], list(o.entries), u.tname(o.type), o.path_entry_type.__name__,
                o.kind.name, u.fname(o.unflatten_func), u.vobj(back))
        out[s] = _guard(go)
    return out


def expect_one_level(m, u, ns, nil):
    out = {}
    for s in (FRESH_SLOTS if not nil else ('P',)):
        r = m.lookup(ns, s)
        x = u.inst[s]
        if r is None:
            if s in ('P', 'S'):
                out[s] = 'leaf'
            else:
                vals = [str(c) for c in x]
                out[s] = 'children=%s|entries=%s|type=%s|pet=%s|kind=%s|uf=%s|back=%s' % (
                    vals, [0, 1], s, 'NamedTupleEntry' if s == 'NT' else 'StructSequenceEntry',
                    'NAMEDTUPLE' if s == 'NT' else 'STRUCTSEQUENCE',
                    '_namedtuple_unflatten' if s == 'NT' else '_structseq_unflatten', 'new:%s(%s)' % (s, ','.join(vals)))
        elif r.how == 'fn':
            out[s] = 'children=%s|entries=%s|type=%s|pet=%s|kind=CUSTOM|uf=u:%d|back=%s' % (
                ['tag:%d' % r.rid], ['k%d' % r.rid], s, r.pet, r.rid, 'rebuilt:%d%s' % (r.rid, ['tag:%d' % r.rid]))
        elif r.how == 'cls':
            out[s] = 'children=%s|entries=%s|type=%s|pet=%s|kind=CUSTOM|uf=bound:%s.tree_unflatten|back=%s' % (
                ['tag:cls:' + s], [0], s, r.pet, s, 'rebuilt:cls:%s%s' % (s, ['tag:cls:' + s]))
        else:
            names = [f.name for f in dataclasses.fields(u.types[s])]
            vals = [str(getattr(x, n)) for n in names]
            out[s] = 'children=%s|entries=%s|type=%s|pet=DataclassEntry|kind=CUSTOM|uf=?|back=%s' % (
                vals, names, s, 'new:%s(%s)' % (s, ','.join(vals)))
    return out


def baseline():
    """The initial (pristine) Python-visible registry, per namespace, for never-registered types."""
    u = Universe()
    return {'get': {ns: observe_get(u, ns) for ns in OBS_NAMESPACES},
            'get_all': {ns: observe_get_all(u, ns) for ns in OBS_NAMESPACES}}


def compare(m, u, base, full=True):
    """Return the list of (clause, namespace, none_is_leaf, observed, expected) mismatches (first per observer)."""
    bad = []
    for ns in OBS_NAMESPACES:
        for nil in (False, True):
            o, e = observe_engine(u, ns, nil), expect_engine(m, u, ns, nil)
            if o != e:
                bad.append(('flatten', ns, nil, o, e))
    for ns in OBS_NAMESPACES:
        o, e = observe_get(u, ns), expect_get(m, u, ns, base)
        if o != e:
            bad.append(('get_cls', ns, None, o, e))
        o, e = observe_get_all(u, ns), expect_get_all(m, u, ns, base)
        if o != e:
            bad.append(('get_all', ns, None, o, e))
        for nil in (False, True):
            o, e = observe_one_level(u, ns, nil), expect_one_level(m, u, ns, nil)
            if o != e:
                bad.append(('one_level', ns, nil, o, e))
    return bad


N_OBSERVATIONS = 3 * 2 + 3 * (1 + 1 + 2)   # comparisons per compare()


# ---- operations ---------------------------------------------------------------------------------

def classify(m, op, werror):
    """-> (must_raise: True | False | None (not decided by the property), reason, model-key or None)"""
    kind, slot, ns, var = op
    if slot == 'nonclass' or ns in ('', 'int', 'None') or var == 'badpet':
        return True, 'argument_fault', None
    if slot in BUILTIN_SLOTS:
        return True, 'builtin', None
    key = (NS_KEY[ns], slot)
    if kind == 'unreg':
        return (False, 'ok', key) if key in m.R else (True, 'absent', key)
    if key in m.R:
        return True, 'duplicate', key
    if var == 'noncallable':
        return None, 'noncallable', key
    if kind == 'regc' and slot == 'SS':
        return None, 'class_without_methods', key
    if kind == 'dcreg' and slot in m.dc_done:
        return None, 'decorated_twice', key
    if werror and slot in ('NT', 'SS'):
        return None, 'warning_as_error', key
    return False, 'ok', key


def execute(u, op):
    """Perform the real call. Returns (exception or None, Reg to commit on success or None)."""
    kind, slot, ns, var = op
    cls = 42 if slot == 'nonclass' else u.types[slot]
    nsarg = NS_ARG[ns]
    mns = NS_KEY.get(ns, '?')
    reg = None
    try:
        if kind == 'reg':
            rid, ff, uf = u.new_functions()
            kw = {}
            pet = 'AutoEntry'
            if var == 'badpet':
                kw['path_entry_type'] = int
            elif var == 'pet':
                kw['path_entry_type'] = MyEntry
                pet = 'MyEntry'
            if var == 'noncallable':
                ff, uf = 42, 43
            reg = Reg('broken' if var == 'noncallable' else 'fn', rid, mns, pet)
            optree.register_pytree_node(cls, ff, uf, namespace=nsarg, **kw)
        elif kind == 'regc':
            reg = Reg('cls', None, mns)
            if var == 'deco':
                optree.register_pytree_node_class(namespace=nsarg)(cls)
            elif var == 'deco_str':
                optree.register_pytree_node_class(nsarg)(cls)
            elif var == 'badpet':
                optree.register_pytree_node_class(cls, path_entry_type=int, namespace=nsarg)
            else:
                optree.register_pytree_node_class(cls, namespace=nsarg)
        elif kind == 'dcreg':
            reg = Reg('dc', None, mns)
            if var == 'deco':
                optree.dataclasses.dataclass(namespace=nsarg)(cls)
            else:
                optree.dataclasses.dataclass(cls, namespace=nsarg)
        elif kind == 'unreg':
            optree.unregister_pytree_node(cls, namespace=nsarg)
        else:
            raise AssertionError(kind)
    except Exception as e:   # noqa: BLE001 - whether raising is right is decided by the caller
        return e, None
    return None, reg


def force_cleanup(u, ops):
    """Bring engine and mirror back to the pristine state whatever happened (not part of the oracle)."""
    import optree._C as _C
    mirror = _registry._NODETYPE_REGISTRY
    for slot in sorted({op[1] for op in ops if op[1] in FRESH_SLOTS}):
        t = u.types[slot]
        for ns in OBS_NAMESPACES:
            try:
                _C.unregister_node(t, ns)
            except Exception:   # noqa: BLE001
                pass
            mirror.pop(t if ns == '' else (ns, t), None)


def show_op(op):
    kind, slot, ns, var = op
    return '%s(%s, ns=%s%s)' % (kind, slot, {'G': 'GLOBAL'}.get(ns, repr(NS_ARG[ns])), (', ' + var) if var else '')


def run_history(ops, werror, base, observe='all'):
    """Execute one history on fresh types. Returns (violations, n_evaluations, n_successful_mutations).

    observe='all': the observers run after every call. observe='last': they run after the last call of `ops`
    and after the closing unregistrations only - used by the exhaustive enumerations, where every proper prefix
    of `ops` is itself an enumerated history (so the state after each earlier call is observed there).

    A violation is (key, step index, description). The history stops at the first violating step (the model
    is no longer in sync afterwards); the closing unregistrations (reversibility) are part of the history.
    """
    u = Universe()
    m = Model()
    out = []
    evals = 0
    succ = 0
    steps = [(op, False) for op in ops]
    i = 0
    with warnings.catch_warnings():
        warnings.simplefilter('error' if werror else 'ignore')
        try:
            while i < len(steps):
                op, closing = steps[i]
                must, why, key = classify(m, op, werror)
                exc, reg = execute(u, op)
                evals += 1
                label = 'step %d %s%s' % (i, show_op(op), ' [closing unregister]' if closing else '')
                if exc is not None and not isinstance(exc, ALLOWED_EXC):
                    out.append(('C12.unexpected_exception', i, '%s raised %s: %s (documented: TypeError / ValueError)'
                                % (label, type(exc).__name__, str(exc)[:200])))
                if must is True and exc is None:
                    k = {'builtin': 'C12.builtin_immutable', 'duplicate': 'C12.duplicate_registration_rejected',
                         'absent': 'C12.unregister_absent_fails', 'argument_fault': 'C12.argument_fault_rejected'}[why]
                    out.append((k, i, '%s returned normally, expected it to be rejected (%s)' % (label, why)))
                    break
                if must is False and exc is not None and isinstance(exc, ALLOWED_EXC):
                    out.append(('C12.unexpected_exception', i, '%s is a valid call on a free key but raised %s: %s'
                                % (label, type(exc).__name__, str(exc)[:200])))
                if op[0] == 'dcreg' and why not in ('argument_fault', 'builtin'):
                    m.dc_done.add(op[1])
                if exc is None:
                    succ += 1
                    if op[0] == 'unreg':
                        del m.R[key]
                    else:
                        m.R[key] = reg
                if observe == 'all' or i == len(ops) - 1 or i == len(steps) - 1:
                    bad = compare(m, u, base)
                    evals += N_OBSERVATIONS
                else:
                    bad = []
                if bad:
                    obs, ns, nil, o, e = bad[0]
                    if isinstance(o, dict):
                        diff = {k: (o.get(k), e.get(k)) for k in sorted(set(o) | set(e)) if o.get(k) != e.get(k)}
                    else:
                        diff = {'*': (o, e)}
                    if any(isinstance(v[0], str) and v[0].startswith('EXC:') for v in diff.values()) or \
                            (isinstance(o, str) and o.startswith('EXC:')):
                        k = 'C12.unexpected_exception'
                    elif exc is not None:
                        k = 'C12.failed_call_leaves_registry_unchanged'
                    elif obs == 'flatten':
                        own = NS_KEY.get(op[2])
                        k = 'C12.namespace_isolation' if (own not in ('', None) and ns != own) else 'C12.flatten_follows_registry'
                    else:
                        k = {'get_cls': 'C12.get_cls_matches_flatten', 'get_all': 'C12.get_all_matches_flatten',
                             'one_level': 'C12.one_level_matches_flatten'}[obs]
                    desc = ('after %s (%s): %s in namespace %r%s: (observed, expected by the registry model) = %s; all '
                            'disagreeing observers: %s'
                            % (label, 'raised %s' % type(exc).__name__ if exc is not None else 'succeeded', obs, ns,
                               '' if nil is None else ' none_is_leaf=%s' % nil, diff,
                               sorted({'%s@%r' % (b[0], b[1]) for b in bad})))
                    out.append((k, i, desc))
                    break
                i += 1
                if i == len(steps) and not any(c for _, c in steps):
                    # reversibility: unregister everything that is registered, then everything is pristine again
                    inv = {'': 'G', 'a': 'a', 'b': 'b'}
                    steps += [(('unreg', slot, inv[ns], ''), True) for (ns, slot) in sorted(m.R)]
                    if len(steps) == len(ops):
                        break
        finally:
            force_cleanup(u, ops)
    return out, evals, succ
# <<< core


# ------------------------------------------------------------------------------------------------
# alphabets

def _alphabets():
    core24 = [(k, s, n, '') for k in ('reg', 'unreg') for s in FRESH_SLOTS for n in ('G', 'a', 'b')]
    extra12 = [
        ('regc', 'P', 'a', ''), ('regc', 'NT', 'G', ''),
        ('dcreg', 'P', 'a', ''), ('dcreg', 'S', 'G', ''),
        ('reg', 'list', 'a', ''), ('unreg', 'dict', 'G', ''),
        ('reg', 'P', '', ''), ('unreg', 'NT', '', ''),
        ('reg', 'nonclass', 'a', ''), ('reg', 'P', 'a', 'badpet'),
        ('reg', 'P', 'int', ''), ('reg', 'NT', 'a', 'noncallable'),
    ]
    core36 = core24 + extra12
    full = list(core36)
    full += [('regc', s, n, '') for s in FRESH_SLOTS for n in ('G', 'a', 'b')]
    full += [('dcreg', s, n, '') for s in ('P', 'S') for n in ('G', 'a', 'b')]
    full += [(k, s, n, '') for k in ('reg', 'unreg') for s in BUILTIN_SLOTS for n in ('G', 'a')]
    full += [('regc', 'list', 'a', ''), ('dcreg', 'list', 'a', ''), ('regc', 'NoneType', 'G', '')]
    full += [(k, 'P', '', '') for k in ('regc', 'unreg', 'dcreg')] + [('regc', 'P', '', 'deco_str')]
    full += [(k, 'nonclass', 'a', '') for k in ('regc', 'unreg', 'dcreg')]
    full += [(k, 'P', n, '') for k in ('reg', 'regc', 'unreg', 'dcreg') for n in ('int', 'None')]
    full += [('reg', 'P', 'a', 'pet'), ('reg', 'S', 'G', 'pet'), ('regc', 'P', 'a', 'deco'), ('regc', 'S', 'b', 'deco_str'),
             ('dcreg', 'P', 'b', 'deco'), ('regc', 'P', 'a', 'badpet'), ('reg', 'P', 'G', 'noncallable')]
    seen, out = set(), []
    for op in full:
        if op not in seen:
            seen.add(op)
            out.append(op)
    return core24, core36, out


def _core_source() -> str:
    src = open(__file__).read()
    return src[src.index('\n# >>> core\n') + 1:src.index('\n# <<< core\n') + 1]


def _script(ops, werror, key) -> str:
    return (_core_source() + '\n\n'
            f'OPS = {list(ops)!r}\nWERROR = {werror!r}\nKEY = {key!r}\n'
            'try:\n'
            '    found, _, _ = run_history(OPS, WERROR, baseline())\n'
            'except Exception:\n'
            '    import traceback\n'
            '    traceback.print_exc()\n'
            '    sys.exit(2)   # the replay itself is broken - not a reproduction\n'
            'for k, i, d in found:\n'
            '    print(k, d)\n'
            'sys.exit(1 if any(k == KEY for k, _, _ in found) else 0)\n')


def _may_warn(ops) -> bool:
    """Registering a namedtuple / struct-sequence class is the documented source of warnings."""
    return any(o[0] in ('reg', 'regc', 'dcreg') and o[1] in ('NT', 'SS') for o in ops)


def _canonical_ab(ops) -> bool:
    """Representative of the orbit under renaming the namespaces a <-> b: the first named namespace is 'a'."""
    for o in ops:
        if o[2] in ('a', 'b'):
            return o[2] == 'a'
    return True


def _run(ctx: U.Ctx, tier: str, seed: int) -> BoundedReport:
    core24, core36, full = _alphabets()
    extra12 = core36[24:]
    base = baseline()
    rng = random.Random(seed)
    n_hist = 0
    n_skipped = 0
    bad_prefixes: set = set()

    def one(ops, werror, observe):
        nonlocal n_hist, n_skipped
        if any((ops[:k], werror) in bad_prefixes for k in range(1, len(ops))):
            n_skipped += 1      # extension of a history that already violated the contract (reported there)
            return
        n_hist += 1
        if n_hist % 32 == 0:
            ctx.progress(f'werror={werror} ops={ops!r}')
        found, evals, succ = run_history(ops, werror, base, observe)
        ctx.count(evals)
        if succ:
            ctx.mark_nontrivial((ops, werror))
        for key, i, desc in found:
            if i < len(ops):
                bad_prefixes.add((ops, werror))
            hist = '; '.join(show_op(o) for o in ops)
            ctx.fail(key, f'history [{hist}] with warnings-as-errors={"on" if werror else "off"}: {desc}',
                     lambda: _script(ops, werror, key), {'ops': [list(o) for o in ops], 'werror': werror, 'step': i})

    def enum(seqs, both_modes):
        for k, ops in enumerate(seqs):
            one(ops, False, 'last')
            if both_modes or _may_warn(ops):
                one(ops, True, 'last')
            if k % 256 == 0 and ctx.out_of_time():
                return False
        return True

    parts = []
    complete = True
    complete &= enum((ops for n in (1, 2) for ops in itertools.product(full, repeat=n)), True)
    parts.append(f'all histories of length<=2 over the full alphabet of {len(full)} calls (4 kinds of call x fresh types / '
                 f'built-ins x namespaces GLOBAL,a,b,\'\' x argument faults), warnings-as-errors off and on')
    if tier == 'quick':
        complete &= enum((ops for ops in itertools.product(core24, repeat=3) if _canonical_ab(ops)), False)
        parts.append('all histories of length 3 over register/unregister x {P,S,NT,SS} x {GLOBAL,a,b} (24 calls) up to '
                     'renaming a<->b')
        small = [o for o in core24 if o[1] in ('P', 'NT') and o[2] in ('G', 'a')]
        seqs = []
        for pos in range(3):
            for x in extra12:
                for y in itertools.product(small, repeat=2):
                    ops = list(y)
                    ops.insert(pos, x)
                    seqs.append(tuple(ops))
        complete &= enum(seqs, False)
        parts.append('all histories of length 3 made of one of 12 extra calls (register_class, dataclass, built-in, argument '
                     'faults) at any position among two register/unregister calls on {P,NT} x {GLOBAL,a}')
        n_samp, l_samp = 400, 6
    else:
        mid = core36 + [o for o in full if o not in core36 and o[0] in ('regc', 'dcreg') and o[2] in ('G', 'a') and not o[3]
                        and o[1] in FRESH_SLOTS]
        complete &= enum(itertools.product(mid, repeat=3), False)
        parts.append(f'all histories of length 3 over a middle alphabet of {len(mid)} calls')
        complete &= enum((ops for ops in itertools.product(core24, repeat=4) if _canonical_ab(ops)), False)
        parts.append('all histories of length 4 over register/unregister x {P,S,NT,SS} x {GLOBAL,a,b} (24 calls) up to '
                     'renaming a<->b')
        n_samp, l_samp = 3000, 8
    n_done = 0
    for _ in range(n_samp):
        if ctx.out_of_time():
            break
        ops = tuple(rng.choice(full) for _ in range(l_samp))
        one(ops, rng.random() < 0.5, 'all')
        n_done += 1
    parts.append(f'{n_done} seeded random histories of length {l_samp} over the full alphabet (observed after every call)')

    for ops, w in [((('reg', 'NT', 'a', ''), ('unreg', 'NT', 'a', '')), True),
                   ((('reg', 'P', 'a', ''), ('reg', 'P', 'G', ''), ('unreg', 'P', 'a', '')), False),
                   ((('dcreg', 'P', 'a', ''), ('dcreg', 'S', 'G', ''), ('reg', 'list', 'a', '')), False),
                   ((('reg', 'SS', 'G', ''), ('reg', 'P', '', ''), ('unreg', 'SS', 'b', '')), True)]:
        ctx.sample('warnings-as-errors=%s: %s' % (w, '; '.join(show_op(o) for o in ops)))
    ctx.notes.append('in the exhaustive parts the observers run after the last call of each history and after its closing '
                     'unregistrations (every proper prefix is itself an enumerated history); histories of length>=3 are run '
                     'with warnings-as-errors on only if they register a namedtuple / struct-sequence class; '
                     f'{n_skipped} extensions of already-violating histories skipped. '
                     'Not checked: exception types beyond {TypeError, ValueError, AttributeError, Warning}; return values of '
                     'register/unregister; whether registering a namedtuple / struct-sequence class under warnings-as-errors '
                     'raises (only: if it raises nothing changes, if it returns the class is registered)')
    return ctx.report(
        rule='a history is non-trivial iff at least one of its calls succeeded in changing the registry; one evaluation = one '
             'call outcome (raises / returns as the model demands) or one observer comparison with the reference model '
             '(tree_flatten + treespec children + tree_unflatten in 3 namespaces x 2 none_is_leaf; get(cls) and get() in 3 '
             'namespaces; tree_flatten_one_level in 3 namespaces x 2 none_is_leaf)',
        scope=f'{n_hist} histories on fresh types per history (plain class P, subclass S, namedtuple subclass NT, '
              f'os.terminal_size SS, 7 built-ins): ' + '; '.join(parts) + '; every history is closed by unregistering '
              'everything that is registered (reversibility) and compared with the pristine registry',
        exhaustive=complete)


def run(tier: str, seed: int) -> BoundedReport:
    budget = 50 if tier == 'quick' else 800
    return U.run_isolated('c12_registry', 'C12', tier, seed, budget_s=budget, hard_timeout_s=budget * 2 + 60)
