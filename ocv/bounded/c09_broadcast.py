"""C09 — broadcasting replicates prefix leaves onto the matching positions (bounded monitor).

Reference (written from the property text, `_util_b`): `ref_prefix` decides whether P is a structural prefix of
F; `ref_common(a, b)` is the least structure both are prefixes of, taking a's node (type, key order, metadata,
path entries) wherever a has a node and b's subtree wherever a has a leaf, or `Conflict`.  Expected leaf values
are located by *paths*: the leaf at path p of a broadcast result must be the operand's leaf whose path is a
prefix of p.

Clauses (finding keys)
  C09.broadcast_prefix_error            tree_broadcast_prefix / broadcast_prefix raise ValueError iff P is no prefix of F
  C09.broadcast_prefix_structure        result has F's structure (up to dict kind / key order / maxlen) and F's leaf paths
  C09.broadcast_prefix_leaves           every result leaf is the prefix leaf above it; broadcast_prefix == leaves of that tree
  C09.common_suffix_error               broadcast_to_common_suffix raises ValueError iff the trees conflict (never anything else)
  C09.common_suffix_structure           result is exactly ref_common(a, b) (node types, key order, metadata, counts)
  C09.common_suffix_keeps_entries       ... including the custom path entries;  paths() of the result
  C09.common_suffix_accessors           accessors() of the result address the leaves of a tree unflattened from it
  C09.common_suffix_symmetric           b.broadcast(a) fails iff a.broadcast(b) fails; results equal up to dict kind / order / maxlen
  C09.common_suffix_idempotent          r.broadcast(r) == r.broadcast(a) == r.broadcast(b) == a.broadcast(r) == r
  C09.common_suffix_of_prefix           a prefix of b  =>  b.broadcast(a) == b and a.broadcast(b) equivalent to b
  C09.operand_unchanged                 operands are not mutated by a successful call
  C09.operand_unchanged_after_failed_broadcast   ... nor by a failing one
  C09.tree_broadcast_common             both results have the common structure (own node types first) and replicated leaves;
                                        ValueError iff conflict; broadcast_common returns the aligned leaf lists
  C09.tree_broadcast_map                n-ary: f receives, per leaf path of the common suffix of all, the operands' leaves above it;
                                        with_path / with_accessor pass that path
  C09.unexpected_exception
"""
from __future__ import annotations

import random

import optree

from ocv.bounded import _util_b as U
from ocv.bounded import scope as S
from ocv.result import BoundedReport

LEAF = U.LEAF


class Box:
    """Opaque result of the mapped function (a leaf for every option)."""
    __slots__ = ('args',)

    def __init__(self, *args):
        self.args = args

    def __repr__(self):
        return f'Box{self.args!r}'


def safe_repr(x):
    try:
        return repr(x)
    except Exception as e:   # noqa: BLE001 - a broken repr is itself reported by the accessor clause
        return f'<repr raised {type(e).__name__}: {e}>'


def appliable(n):
    """Accessors can be applied to a tree only where every custom node type has a real path entry class."""
    if n.kind == 'custom' and n.typ is not S.CustomE:
        return False
    return all(appliable(c) for c in n.children)


def leaf_above(leaf_nodes, path):
    """The unique (path, node) of `leaf_nodes` whose path is a prefix of `path`."""
    hits = [(p, n) for p, n in leaf_nodes if path[:len(p)] == p]
    return hits[0] if len(hits) == 1 else None


def replicated_ok(result_abs, operand_abs):
    """Every leaf of the result is (identically) the operand's leaf above it."""
    ol = U.a_leaf_nodes(operand_abs)
    for p, n in U.a_leaf_nodes(result_abs):
        h = leaf_above(ol, p)
        if h is None or h[1].obj is not n.obj:
            return False
    return True


HELPERS = '''\
def outcome(f):
    try:
        return ('ok', f())
    except ValueError as e:
        return ('ValueError', str(e)[:120])
    except BaseException as e:
        return (type(e).__name__, str(e)[:120])
def replicated_ok(result, operand):
    ol = U.a_leaf_nodes(U.absify(operand, **o))
    for p, n in U.a_leaf_nodes(U.absify(result, **o)):
        hits = [x for q, x in ol if p[:len(q)] == q]
        if len(hits) != 1 or hits[0].obj is not n.obj:
            return False
    return True
'''


def head2(ad, bd, o, names=('A', 'B')):
    return f'{names[0]} = {U.src(ad)}\n{names[1]} = {U.src(bd)}\no = {U.opt_src(o)}\n' + HELPERS


# ------------------------------------------------------------------------------------------------
# tree_broadcast_prefix / broadcast_prefix

def check_prefix(pd, fd, o, bag, stats):
    P, F = U.build(pd), U.build(fd)
    pa, fa = U.absify(P, **o), U.absify(F, **o)
    exp = U.ref_prefix(pa, fa)[0]
    stats['prefix_pos' if exp else 'prefix_neg'] += 1
    label = f'prefix {U.show(pd)}, full {U.show(fd)} [{S.opt_repr(o)}]'
    head = head2(pd, fd, o, ('P', 'F')) + 'r1 = outcome(lambda: optree.tree_broadcast_prefix(P, F, **o))\nr2 = outcome(lambda: optree.broadcast_prefix(P, F, **o))\nprint(r1, r2)\n'
    bag.ev()
    st1, r1 = U.guard(optree.tree_broadcast_prefix, P, F, **o)
    st2, r2 = U.guard(optree.broadcast_prefix, P, F, **o)
    for name, st, r in (('tree_broadcast_prefix', st1, r1), ('broadcast_prefix', st2, r2)):
        if exp and st == 'exc':
            bag.add('C09.broadcast_prefix_error', f'{label}: {name} raised {U.exc_name(r)} although P is a prefix of F',
                    head + "sys.exit(1 if r1[0] != 'ok' or r2[0] != 'ok' else 0)\n")
        elif not exp and not (st == 'exc' and isinstance(r, ValueError)):
            bag.add('C09.broadcast_prefix_error', f'{label}: {name} {"raised " + U.exc_name(r) if st == "exc" else "returned " + repr(r)}; '
                                                  f'P is not a prefix of F, ValueError expected',
                    head + "sys.exit(1 if r1[0] != 'ValueError' or r2[0] != 'ValueError' else 0)\n")
    if not exp or st1 == 'exc':
        return
    ra = U.absify(r1, **o)
    if U.equiv_sig(ra) != U.equiv_sig(fa) or sorted(map(repr, U.a_paths(ra))) != sorted(map(repr, U.a_paths(fa))):
        bag.add('C09.broadcast_prefix_structure', f'{label}: tree_broadcast_prefix returned {r1!r} whose structure {ra!r} is not that of F {fa!r}',
                head + 'ra, fa = U.absify(r1[1], **o), U.absify(F, **o)\n'
                'sys.exit(1 if U.equiv_sig(ra) != U.equiv_sig(fa) or sorted(map(repr, U.a_paths(ra))) != sorted(map(repr, U.a_paths(fa))) else 0)\n')
        return
    if not replicated_ok(ra, pa):
        bag.add('C09.broadcast_prefix_leaves', f'{label}: tree_broadcast_prefix returned {r1!r}; some leaf is not the prefix leaf above its path',
                head + 'sys.exit(1 if not replicated_ok(r1[1], P) else 0)\n')
    if st2 == 'ok':
        want = U.a_leaves(ra)
        if type(r2) is not list or len(r2) != len(want) or any(x is not y for x, y in zip(r2, want)):
            bag.add('C09.broadcast_prefix_leaves', f'{label}: broadcast_prefix returned {r2!r}, the leaves of tree_broadcast_prefix(...) are {want!r}',
                    head + 'want = U.a_leaves(U.absify(r1[1], **o))\n'
                    'sys.exit(1 if not (len(r2[1]) == len(want) and all(x is y for x, y in zip(r2[1], want))) else 0)\n')


# ------------------------------------------------------------------------------------------------
# broadcast_to_common_suffix / tree_broadcast_common / broadcast_common

def spec_matches(r, exp, entries):
    try:
        ra, _, _ = U.abs_from_state(r)
    except U.Malformed:
        return False
    return U.a_same(ra, exp, entries=entries)


def check_common(ad, bd, o, bag, stats, ob=None, trees=True):
    """ob: options of the second operand (spec-level only) when they differ from o."""
    A, B = U.build(ad), U.build(bd)
    o2 = ob or o
    aa, ba = U.absify(A, **o), U.absify(B, **o2)
    try:
        exp = U.ref_common(aa, ba)
        exp_rev = U.ref_common(ba, aa)
    except U.Conflict:
        exp = exp_rev = None
    stats['common_ok' if exp is not None else 'common_conflict'] += 1
    label = f'a = {U.show(ad)} [{S.opt_repr(o)}], b = {U.show(bd)}' + (f' [{S.opt_repr(o2)}]' if ob else '')
    head = f'A = {U.src(ad)}\nB = {U.src(bd)}\no = {U.opt_src(o)}\no2 = {U.opt_src(o2)}\n' + HELPERS + \
        'a = optree.tree_structure(A, **o); b = optree.tree_structure(B, **o2)\n' \
        'before = (U.state_snapshot(a), U.state_snapshot(b))\nr = outcome(lambda: a.broadcast_to_common_suffix(b))\nprint(r)\n'
    try:
        sa, sb = optree.tree_structure(A, **o), optree.tree_structure(B, **o2)
    except Exception as e:   # noqa: BLE001
        bag.add('C09.unexpected_exception', f'{label}: tree_structure raised {U.exc_name(e)}', head + 'sys.exit(0)\n')
        return
    snap = (U.state_snapshot(sa), U.state_snapshot(sb))
    bag.ev()
    st, r = U.guard(sa.broadcast_to_common_suffix, sb)
    after = (U.state_snapshot(sa), U.state_snapshot(sb))
    if after != snap:
        key = 'C09.operand_unchanged' if st == 'ok' else 'C09.operand_unchanged_after_failed_broadcast'
        which = 'a' if after[0] != snap[0] else 'b'
        i = 0 if which == 'a' else 1
        bag.add(key, f'{label}: after a {"successful" if st == "ok" else "failed"} a.broadcast_to_common_suffix(b) operand {which} changed from '
                     f'{snap[i][3]} to {after[i][3]}',
                head + "sys.exit(1 if (U.state_snapshot(a), U.state_snapshot(b)) != before else 0)\n")
    if exp is None:
        if not (st == 'exc' and isinstance(r, ValueError)):
            bag.add('C09.common_suffix_error', f'{label}: broadcast_to_common_suffix {"raised " + U.exc_name(r) if st == "exc" else "returned " + repr(r)}; '
                                               f'the trees conflict, ValueError expected',
                    head + "sys.exit(1 if r[0] != 'ValueError' else 0)\n")
    elif st == 'exc':
        bag.add('C09.common_suffix_error', f'{label}: broadcast_to_common_suffix raised {U.exc_name(r)}; expected the common suffix {exp!r}',
                head + "sys.exit(1 if r[0] != 'ok' else 0)\n")
    else:
        want_paths = U.a_paths(exp)
        if not spec_matches(r, exp, entries=False) or r.none_is_leaf != sa.none_is_leaf or not U.ns_compatible(r.namespace, sa.namespace) \
                or r.namespace not in (sa.namespace, sb.namespace):
            bag.add('C09.common_suffix_structure', f'{label}: a.broadcast_to_common_suffix(b) = {r!r}; the least common suffix with a\'s node types first is {exp!r}',
                    head + 'exp = U.ref_common(U.absify(A, **o), U.absify(B, **o2))\nra, nil, ns = U.abs_from_state(r[1])\n'
                    'sys.exit(1 if not U.a_same(ra, exp, entries=False) or nil != a.none_is_leaf or ns not in (a.namespace, b.namespace) else 0)\n')
        else:
            st_p, paths = U.guard(r.paths)
            if not spec_matches(r, exp, entries=True) or st_p == 'exc' or paths != want_paths:
                got_entries = [st_[3] for st_ in r.__getstate__()[0] if st_[0] == 0]
                bag.add('C09.common_suffix_keeps_entries',
                        f'{label}: a.broadcast_to_common_suffix(b) = {r!r} has paths {U.exc_name(paths) if st_p == "exc" else paths!r} '
                        f'(stored entries of its custom nodes: {got_entries!r}); with each operand\'s own path entries the paths are {want_paths!r}',
                        head + 'exp = U.ref_common(U.absify(A, **o), U.absify(B, **o2))\n'
                        f'sys.exit(1 if r[1].paths() != {U.lit(want_paths)} or not U.a_same(U.abs_from_state(r[1])[0], exp, entries=True) else 0)\n')
            st_a, accs = U.guard(r.accessors)
            ok = st_a == 'ok' and len(accs) == len(want_paths)
            if ok:
                try:
                    tree = r.unflatten(range(r.num_leaves))
                    ok = all(acc.path == p for acc, p in zip(accs, want_paths))
                    if ok and appliable(exp):
                        ok = all(acc(tree) == i for i, acc in enumerate(accs)) and all(isinstance(repr(acc), str) for acc in accs)
                except Exception:   # noqa: BLE001 - reported right below
                    ok = False
            if not ok:
                bag.add('C09.common_suffix_accessors',
                        f'{label}: accessors() of a.broadcast_to_common_suffix(b) = {r!r} do not address the leaves of a tree unflattened from it '
                        f'(accessors: {U.exc_name(accs) if st_a == "exc" else safe_repr(accs)})',
                        head + 'rr = r[1]\ntree = rr.unflatten(range(rr.num_leaves))\ntry:\n'
                        f'    bad = [acc.path for acc in rr.accessors()] != {U.lit(want_paths)}\n' +
                        ('    bad = bad or [acc(tree) for acc in rr.accessors()] != list(range(rr.num_leaves)) or not repr(rr.accessors())\n' if appliable(exp) else '') +
                        'except Exception as e:\n    print(type(e).__name__, e); bad = True\nsys.exit(1 if bad else 0)\n')
        # idempotence
        for text, fn, want in (('r.broadcast_to_common_suffix(r)', lambda: r.broadcast_to_common_suffix(r), exp),
                               ('r.broadcast_to_common_suffix(a)', lambda: r.broadcast_to_common_suffix(sa), exp),
                               ('r.broadcast_to_common_suffix(b)', lambda: r.broadcast_to_common_suffix(sb), exp),
                               ('a.broadcast_to_common_suffix(r)', lambda: sa.broadcast_to_common_suffix(r), exp),
                               ('a.broadcast_to_common_suffix(a)', lambda: sa.broadcast_to_common_suffix(sa), aa)):
            bag.ev()
            st3, r3 = U.guard(fn)
            good = st3 == 'ok' and spec_matches(r3, want, entries=False) and (r3 == (sa if want is aa else r))
            if not good:
                bag.add('C09.common_suffix_idempotent', f'{label}: with r = a.broadcast_to_common_suffix(b) = {r!r}: {text} gives '
                                                        f'{U.exc_name(r3) if st3 == "exc" else repr(r3)}, expected {"a" if want is aa else "r"}',
                        lambda text=text, want=want: head + f'r = r[1]\nr3 = outcome(lambda: {text})\nprint(r3)\n'
                        f'sys.exit(1 if r3[0] != "ok" or r3[1] != {"a" if want is aa else "r"} else 0)\n')
    # symmetric
    bag.ev()
    st4, r4 = U.guard(sb.broadcast_to_common_suffix, sa)
    if (st4 == 'ok') != (st == 'ok') or (st4 == 'exc' and not isinstance(r4, ValueError)):
        bag.add('C09.common_suffix_symmetric', f'{label}: a.broadcast(b) {"succeeds" if st == "ok" else "raises " + U.exc_name(r)} but b.broadcast(a) '
                                               f'{"succeeds" if st4 == "ok" else "raises " + U.exc_name(r4)}',
                head + "r4 = outcome(lambda: b.broadcast_to_common_suffix(a))\nprint(r4)\nsys.exit(1 if (r4[0] == 'ok') != (r[0] == 'ok') or r4[0] not in ('ok', 'ValueError') else 0)\n")
    elif st4 == 'ok' and exp is not None:
        if not spec_matches(r4, exp_rev, entries=False) or U.equiv_sig(U.abs_from_state(r4)[0]) != U.equiv_sig(exp):
            bag.add('C09.common_suffix_symmetric', f'{label}: b.broadcast_to_common_suffix(a) = {r4!r}, expected {exp_rev!r} (= a.broadcast(b) up to dict kind / key order / maxlen)',
                    head + 'r4 = b.broadcast_to_common_suffix(a)\nexp = U.ref_common(U.absify(B, **o2), U.absify(A, **o))\n'
                    'sys.exit(1 if not U.a_same(U.abs_from_state(r4)[0], exp, entries=False) else 0)\n')
        if U.ref_prefix(aa, ba)[0] and not (r4 == sb and sb == r4 and st == 'ok' and U.equiv_sig(U.abs_from_state(r)[0]) == U.equiv_sig(ba)):
            bag.add('C09.common_suffix_of_prefix', f'{label}: a is a prefix of b, but b.broadcast_to_common_suffix(a) = {r4!r} != b = {sb!r} '
                                                   f'(a.broadcast(b) = {r!r})',
                    head + "r4 = b.broadcast_to_common_suffix(a)\nsys.exit(1 if r4 != b or r[0] != 'ok' else 0)\n")
    if after != (U.state_snapshot(sa), U.state_snapshot(sb)) and after == snap:
        key = 'C09.operand_unchanged' if st4 == 'ok' else 'C09.operand_unchanged_after_failed_broadcast'
        bag.add(key, f'{label}: b.broadcast_to_common_suffix(a) ({"ok" if st4 == "ok" else "failed"}) changed an operand: '
                     f'a {snap[0][3]} -> {sa!r}, b {snap[1][3]} -> {sb!r}',
                head + "outcome(lambda: b.broadcast_to_common_suffix(a))\nsys.exit(1 if (U.state_snapshot(a), U.state_snapshot(b)) != before else 0)\n")

    if not trees or ob is not None:
        return
    # tree level
    thead = head2(ad, bd, o) + 'r = outcome(lambda: optree.tree_broadcast_common(A, B, **o))\nq = outcome(lambda: optree.broadcast_common(A, B, **o))\nprint(r, q)\n'
    bag.ev()
    st5, r5 = U.guard(optree.tree_broadcast_common, A, B, **o)
    st6, r6 = U.guard(optree.broadcast_common, A, B, **o)
    if exp is None:
        for name, s_, r_ in (('tree_broadcast_common', st5, r5), ('broadcast_common', st6, r6)):
            if not (s_ == 'exc' and isinstance(r_, ValueError)):
                bag.add('C09.tree_broadcast_common', f'{label}: {name} {"raised " + U.exc_name(r_) if s_ == "exc" else "returned " + repr(r_)}; the trees conflict, ValueError expected',
                        thead + "sys.exit(1 if r[0] != 'ValueError' or q[0] != 'ValueError' else 0)\n")
        return
    if st5 == 'exc' or st6 == 'exc':
        e = r5 if st5 == 'exc' else r6
        bag.add('C09.tree_broadcast_common', f'{label}: tree_broadcast_common / broadcast_common raised {U.exc_name(e)}; expected the common structure {exp!r}',
                thead + "sys.exit(1 if r[0] != 'ok' or q[0] != 'ok' else 0)\n")
        return
    good = isinstance(r5, tuple) and len(r5) == 2
    if good:
        ra, rb = U.absify(r5[0], **o), U.absify(r5[1], **o)
        good = U.a_same(ra, exp, entries=False) and U.a_same(rb, exp_rev, entries=False) and replicated_ok(ra, aa) and replicated_ok(rb, ba)
    if not good:
        bag.add('C09.tree_broadcast_common', f'{label}: tree_broadcast_common returned {r5!r}; expected structures {exp!r} / {exp_rev!r} with each operand\'s leaves replicated below them',
                thead + 'ea = U.ref_common(U.absify(A, **o), U.absify(B, **o)); eb = U.ref_common(U.absify(B, **o), U.absify(A, **o))\n'
                'x, y = r[1]\nsys.exit(1 if not (U.a_same(U.absify(x, **o), ea, entries=False) and U.a_same(U.absify(y, **o), eb, entries=False) '
                'and replicated_ok(x, A) and replicated_ok(y, B)) else 0)\n')
        return
    bl = U.a_leaf_nodes(ba)
    want_a = [n.obj for _, n in U.a_leaf_nodes(ra)]
    want_b = [leaf_above(bl, p)[1].obj for p, _ in U.a_leaf_nodes(ra)]
    ok = isinstance(r6, tuple) and len(r6) == 2 and len(r6[0]) == len(want_a) and len(r6[1]) == len(want_b) and \
        all(x is y for x, y in zip(r6[0], want_a)) and all(x is y for x, y in zip(r6[1], want_b))
    if not ok:
        bag.add('C09.tree_broadcast_common', f'{label}: broadcast_common returned {r6!r}, expected the aligned leaf lists {want_a!r} / {want_b!r}',
                thead + 'x, y = r[1]\nwa = U.a_leaves(U.absify(x, **o))\nbl = U.a_leaf_nodes(U.absify(B, **o))\n'
                'wb = [[n for p2, n in bl if p[:len(p2)] == p2][0].obj for p, _ in U.a_leaf_nodes(U.absify(x, **o))]\n'
                'sys.exit(1 if not (len(q[1][0]) == len(wa) and all(u is v for u, v in zip(q[1][0], wa)) and len(q[1][1]) == len(wb) and all(u is v for u, v in zip(q[1][1], wb))) else 0)\n')


# ------------------------------------------------------------------------------------------------
# n-ary

def check_nary(ds, o, bag, stats):
    trees = [U.build(d) for d in ds]
    abss = [U.absify(t, **o) for t in trees]
    try:
        exp = abss[0]
        for x in abss[1:]:
            exp = U.ref_common(exp, x)
    except U.Conflict:
        exp = None
    stats['nary_ok' if exp is not None else 'nary_conflict'] += 1
    label = ', '.join(f't{i} = {U.show(d)}' for i, d in enumerate(ds)) + f' [{S.opt_repr(o)}]'
    head = ''.join(f't{i} = {U.src(d)}\n' for i, d in enumerate(ds)) + f'o = {U.opt_src(o)}\nts = [{", ".join(f"t{i}" for i in range(len(ds)))}]\n' + HELPERS + \
        'class Box:\n    def __init__(self, *a):\n        self.args = a\n'
    variants = (('tree_broadcast_map', optree.tree_broadcast_map, lambda *xs: Box(None, *xs)),
                ('tree_broadcast_map_with_path', optree.tree_broadcast_map_with_path, lambda p, *xs: Box(p, *xs)),
                ('tree_broadcast_map_with_accessor', optree.tree_broadcast_map_with_accessor, lambda a, *xs: Box(a, *xs)))
    for k, (name, fn, f) in enumerate(variants):
        bag.ev()
        st, r = U.guard(fn, f, *trees, **o)
        call = f'optree.{name}(lambda *xs: Box(*xs), *ts, **o)'
        if exp is None:
            if not (st == 'exc' and isinstance(r, ValueError)):
                bag.add('C09.tree_broadcast_map', f'{label}: {name} {"raised " + U.exc_name(r) if st == "exc" else "returned " + repr(r)}; the trees conflict, ValueError expected',
                        head + f"r = outcome(lambda: {call})\nprint(r)\nsys.exit(1 if r[0] != 'ValueError' else 0)\n")
            continue
        if st == 'exc':
            bag.add('C09.tree_broadcast_map', f'{label}: {name} raised {U.exc_name(r)}; expected a tree of structure {exp!r}',
                    head + f"r = outcome(lambda: {call})\nprint(r)\nsys.exit(1 if r[0] != 'ok' else 0)\n")
            continue
        ra = U.absify(r, **o)
        good = U.a_same(ra, exp, entries=False)
        detail = 'wrong structure'
        if good:
            leaf_lists = [U.a_leaf_nodes(a) for a in abss]
            for p, n in U.a_leaf_nodes(ra):
                b = n.obj
                if not isinstance(b, Box) or len(b.args) != len(ds) + 1:
                    good, detail = False, f'leaf at {p!r} is {b!r}'
                    break
                for j, ll in enumerate(leaf_lists):
                    h = leaf_above(ll, p)
                    if h is None or h[1].obj is not b.args[j + 1]:
                        good, detail = False, f'at path {p!r} f received {b.args[j + 1]!r} from t{j}, expected the leaf above that path'
                        break
                if good and k == 1 and b.args[0] != p:
                    good, detail = False, f'at path {p!r} f received the path {b.args[0]!r}'
                if good and k == 2 and getattr(b.args[0], 'path', None) != p:
                    good, detail = False, f'at path {p!r} f received the accessor {b.args[0]!r}'
                if not good:
                    break
        if not good:
            bag.add('C09.tree_broadcast_map', f'{label}: {name} returned {r!r}: {detail}; expected structure {exp!r} with f applied to the operands\' leaves above each path',
                    head + f'r = {call}\nexp = U.absify(t0, **o)\nfor t in ts[1:]:\n    exp = U.ref_common(exp, U.absify(t, **o))\n'
                    'ra = U.absify(r, **o)\nbad = not U.a_same(ra, exp, entries=False)\n'
                    'for p, n in U.a_leaf_nodes(ra):\n    args = n.obj.args[-len(ts):]\n    for t, x in zip(ts, args):\n'
                    '        hits = [m for q, m in U.a_leaf_nodes(U.absify(t, **o)) if p[:len(q)] == q]\n        bad |= len(hits) != 1 or hits[0].obj is not x\n'
                    + ('    bad |= n.obj.args[0] != p\n' if k == 1 else '    bad |= n.obj.args[0].path != p\n' if k == 2 else '') +
                    'sys.exit(1 if bad else 0)\n')


# ------------------------------------------------------------------------------------------------

def run(tier: str, seed: int) -> BoundedReport:
    U.ensure_registered()
    quick = tier == 'quick'
    rng = random.Random(seed)
    bag = U.Bag('c09_broadcast')
    stats = {k: 0 for k in ('prefix_pos', 'prefix_neg', 'common_ok', 'common_conflict', 'nary_ok', 'nary_conflict')}
    groups = {}
    opts6 = U.options(namespaces=('', U.NS, U.NS_OTHER))
    o_def, o_ns, o_nil_ns = opts6[0], opts6[1], opts6[4]
    opts_pred = U.options(namespaces=('',), predicates=S.PREDICATES[1:])

    def pair(name, ad, bd, o, prefix=True, common=True, ob=None):
        try:
            if prefix and ob is None:
                check_prefix(ad, bd, o, bag, stats)
            if common:
                check_common(ad, bd, o, bag, stats, ob=ob)
        except Exception as e:   # noqa: BLE001 - e.g. repr() of a result object raising
            import traceback
            tb = traceback.format_exc().strip().splitlines()
            bag.add('C09.unexpected_exception', f'a = {U.show(ad)}, b = {U.show(bd)} [{S.opt_repr(o)}]: {U.exc_name(e)} ({tb[-2].strip() if len(tb) > 1 else ""})',
                    head2(ad, bd, o) + 'a = optree.tree_structure(A, **o); b = optree.tree_structure(B, **o)\n'
                    'r = outcome(lambda: a.broadcast_to_common_suffix(b))\nif r[0] == "ok":\n    repr(r[1]); repr(r[1].paths()); repr(r[1].accessors())\n'
                    'repr(outcome(lambda: optree.tree_broadcast_common(A, B, **o))); repr(outcome(lambda: optree.tree_broadcast_prefix(A, B, **o)))\nsys.exit(0)\n')
        bag.seen((U.freeze(ad), U.freeze(bd), U.opt_key(o), U.opt_key(ob) if ob else None))
        groups[name] = groups.get(name, 0) + 1
        if groups[name] in (1, 30):
            bag.sample(f'{name}: {U.show(ad)} / {U.show(bd)} [{S.opt_repr(o)}]')

    kinds1 = U.CORE_KINDS + ['customE2', 'dequeM', 'structseq', 'customF', 'customN', 'dictU', 'odictF']
    bases = list(U.descriptions(3, kinds1, ['leaf', 'none', 'e_tuple']))
    multi = [d for d in bases + list(U.descriptions(4, U.CORE_KINDS + ['customE2'], ['leaf', 'none'], min_nodes=4)) if U.n_leaf_atoms(d) >= 2]
    if quick:
        bases = [d for d in bases if U.n_nodes(d) <= 2] + U.thin([d for d in bases if U.n_nodes(d) == 3], 100, rng)
    else:
        bases = bases + U.thin(list(U.descriptions(4, U.CORE_KINDS, ['leaf', 'none'], min_nodes=4)), 300, rng)
    subs = U.SUBS + [('customE', [LEAF, U.T2]), ('customE2', [LEAF])]

    # related by leaf substitution (prefix / suffix), both argument orders
    g1 = [(d, f) for d in bases for f in U.suffixes(d, subs, rng, per_leaf=3 if quick else None)]
    for d, f in g1:
        for o in (opts6 if U.n_nodes(d) <= 2 and not quick else (o_def, o_nil_ns)):
            pair('suffix', d, f, o)
        e = U.equivalents(f)
        if e != f:
            pair('suffix_other_dict_kind_order_maxlen', d, e, o_def)
    for d, f in U.thin(g1, 120 if quick else 1200, rng):
        for o in opts_pred:
            pair('suffix_is_leaf', d, f, o)
        pair('mixed_namespace_specs', d, f, o_def, ob=o_ns)
        pair('mixed_namespace_specs', f, d, o_nil_ns, ob=opts6[3])

    # partially overlapping: two different substitutions of the same base; conflicting: one more local edit
    for d in U.thin(multi, 120 if quick else 1200, rng):
        n = U.n_leaf_atoms(d)
        for _ in range(3):
            i, j = rng.sample(range(n), 2)
            a = U.substitute_leaves(d, [None] * i + [rng.choice(subs)])
            b = U.substitute_leaves(d, [None] * j + [rng.choice(subs)])
            pair('overlapping', a, b, o_def)
            pair('overlapping', U.equivalents(a), b, o_nil_ns)
            ms = list(U.mutants(b, kinds=U.ALL_KINDS, atoms=['leaf', 'none', 'e_tuple', 'e_dict']))
            for m in rng.sample(ms, min(len(ms), 4 if quick else 12)):
                pair('overlapping_one_edit', a, m, o_def, prefix=False)

    # all pairs of small trees (every kind x kind cell)
    small = list(U.descriptions(2, U.MID_KINDS + ['ddictI', 'ntB', 'customE2', 'dequeM9', 'odictZ', 'customM'], ['leaf', 'none', 'e_tuple', 'e_dict', 'e_customE']))
    if quick:
        small = U.thin(small, 75, rng)
    for a in small:
        for b in small:
            pair('all_pairs_small', a, b, o_def, prefix=not quick)

    # custom nodes with explicit entries at several depths
    ce = [('customE', [LEAF, LEAF]), ('customE', [U.T2, LEAF]), ('customE', [LEAF, ('customE', [LEAF, LEAF])]), ('tuple', [('customE', [LEAF, LEAF]), LEAF]),
          ('dictR', [('customE', [LEAF]), LEAF]), ('customE', [('odictR', [LEAF, LEAF]), LEAF]), ('customE2', [LEAF, LEAF]), ('customE', [LEAF])]
    ce_all = []
    for d in ce:
        ce_all += list(U.suffixes(d, subs, rng))
    ce_all = U.thin(ce_all, 60 if quick else 200, rng)
    for a in ce_all:
        for b in ce_all:
            pair('custom_with_entries', a, b, o_def, prefix=False)

    # nested dicts with different key orders / kinds / unequal subtree sizes; heterogeneous key sets (mismatch -> failing calls)
    for p, f in U.nested_dict_pairs(2, rng, 2500 if quick else None):
        pair('nested_dict_2keys', p, f, o_def, prefix=False)
    for p, f in U.nested_dict_pairs(3, rng, 800 if quick else 20000):
        pair('nested_dict_3keys', p, f, o_def, prefix=False)
    for _ in range(800 if quick else 15000):
        p, f = U.random_nested(rng, 3)
        pair('nested_dict_random_depth3', p, f, o_def)
    for p, f in U.hetero_pairs(2, rng, 1500 if quick else None):
        pair('hetero_keys', p, f, o_def, prefix=False)

    # triples
    ntrip = 0
    for d in U.thin(multi, 150 if quick else 1500, rng):
        n = U.n_leaf_atoms(d)
        for _ in range(2):
            ds = []
            for _k in range(3):
                i = rng.randrange(n)
                ds.append(U.substitute_leaves(d, [None] * i + [rng.choice(subs)]) if rng.random() < 0.8 else d)
            if rng.random() < 0.3:
                ms = list(U.mutants(ds[2], kinds=U.ALL_KINDS, atoms=['leaf', 'none', 'e_tuple']))
                ds[2] = rng.choice(ms)
            if rng.random() < 0.3:
                ds[1] = U.equivalents(ds[1])
            check_nary(ds, o_def if rng.random() < 0.7 else o_nil_ns, bag, stats)
            bag.seen(tuple(U.freeze(x) for x in ds))
            ntrip += 1
    for a in ce_all[:12 if quick else 30]:
        for b in ce_all[:12 if quick else 30]:
            check_nary([a, b, ('leaf',)], o_def, bag, stats)
            check_nary([('leaf',), a, b], o_def, bag, stats)
            ntrip += 2
    check_nary([bases[5]], o_def, bag, stats)
    bag.sample(f'{ntrip} triples, e.g. t0/t1/t2 derived from {U.show(multi[len(multi) // 2])}')

    return bag.report(
        rule='distinct = (tree a, tree b, options) pairs and (t0, t1, t2) triples; pairs where both trees are bare leaves are trivial (< 0.1%); ' +
             ', '.join(f'{k}={v}' for k, v in stats.items()),
        scope=f'{tier}: ' + ', '.join(f'{k}={v}' for k, v in groups.items()) + f', triples={ntrip}; trees <= {3 if quick else 4} nodes + substituted subtrees over '
              f'{len(kinds1)} node kinds incl. custom nodes with explicit entries; none_is_leaf x namespace x is_leaf',
        exhaustive=False,
        notes='specs with different none_is_leaf / conflicting namespaces are not broadcast (error behaviour not in the property text); '
              'recursion-depth behaviour belongs to C16',
    )
