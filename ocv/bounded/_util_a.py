"""Shared helpers of the bounded monitors C01..C05 (group A).

Contents
  * extra node kinds on top of `scope.py` (optree dataclass, optree partial, a type registered both
    globally and in NS with different flatten functions, container subclasses) and `TreeGenA`;
  * `to_src(tree)`: a Python expression rebuilding a tree of the universe (used by replay scripts);
  * `same_tree`: exact structural identity oracle (independent of optree);
  * the *reference one-level expansion* `ref_expand` written from README.md ("Built-in PyTree Node
    Types", "Notes about the PyTree Type Registry", "`None` is Non-leaf Node", "Key Ordering"),
    and `ref_walk` built on it (leaves, paths, internal nodes in post-order);
  * option handling (incl. the dict-order mode) and the finding collector / replay script builder.

Every function whose source is pasted into replay scripts (`SRC(...)`) only uses names available in
`SCRIPT_HEADER` (optree, S, collections, itertools, dataclasses, functools) or other pasted functions.
"""
from __future__ import annotations

import contextlib
import dataclasses
import functools
import inspect
import itertools
import os
import subprocess
import sys
import traceback
from collections import OrderedDict, defaultdict, deque

import optree
from ocv.bounded import scope as S
from ocv.result import BoundedReport, Finding

# >>> extras (this block is pasted verbatim into replay scripts that mention one of its names)
GLOBAL_NS = S._global_ns()


@optree.dataclasses.dataclass(namespace=S.NS)
class DC2:
    """optree dataclass: node only in namespace NS; `tag` is metadata."""
    x: object
    y: object
    tag: str = optree.dataclasses.field(default='t', pytree_node=False)


class CustomS:
    """Registered globally (children in order) *and* in NS (children reversed): NS shadows global."""

    def __init__(self, children):
        self.children = list(children)

    def __getitem__(self, i):          # exposes its children under the flat indices used as entries
        return self.children[i]

    def __repr__(self):
        return f'CustomS({self.children!r})'


def _customs_flatten_global(o):
    return (o.children, 'g', None)


def _customs_flatten_ns(o):
    return (o.children[::-1], 'n', tuple(range(len(o.children) - 1, -1, -1)))


optree.register_pytree_node(CustomS, _customs_flatten_global, lambda m, ch: CustomS(ch), namespace=GLOBAL_NS)
optree.register_pytree_node(CustomS, _customs_flatten_ns, lambda m, ch: CustomS(list(ch)[::-1]), namespace=S.NS)


class SubList(list):
    pass


class SubTuple(tuple):
    pass


class SubDict(dict):
    pass


class SubOD(OrderedDict):
    pass


class SubDD(defaultdict):
    pass


class SubDeque(deque):
    pass


class PointSub(S.Point):
    """Subclass of a namedtuple class: still a namedtuple node (README built-in list)."""
    __slots__ = ()


def add(a, b=None, c=None, **kw):
    return (a, b, c, kw)
# <<< extras


EXTRA_NAMES = ['GLOBAL_NS', 'DC2', 'CustomS', 'SubList', 'SubTuple', 'SubDict', 'SubOD', 'SubDD', 'SubDeque',
               'PointSub', 'add(', 'add,']
with open(__file__) as _f:
    _t = _f.read()
EXTRA_SRC = _t[_t.index('# >>> extras'):_t.index('# <<< extras')]
del _t, _f

SCRIPT_HEADER = '''\
import sys, itertools, collections, contextlib, dataclasses, functools
from collections import OrderedDict, defaultdict, deque
import optree
from ocv.bounded import scope as S
S.ensure_registered()
'''

# ------------------------------------------------------------------------------------------------
# kinds / generator

EXTRA_KINDS = [
    S.Kind('dataclass', lambda ch: DC2(*ch), arities=(2,), needs_ns=S.NS),
    S.Kind('partial', lambda ch: optree.functools.partial(add, *ch), arities=range(1, 4)),
    S.Kind('partial_kw', lambda ch: optree.functools.partial(add, ch[0], **{k: c for k, c in zip('zy', ch[1:])}),
           arities=range(2, 4)),
    S.Kind('customS', lambda ch: CustomS(ch)),
    S.Kind('dict_partly', S._mkdict('partly'), arities=range(3, 5), dictlike=True, pool='partly'),
    S.Kind('ddict_mixed', S._mkdd('mixed', factory=int), arities=range(2, 5), dictlike=True, pool='mixed'),
    S.Kind('odict_mixed', S._mkod('mixed'), arities=range(2, 5), dictlike=True, pool='mixed'),
]
SUBCLASS_KINDS = [
    S.Kind('sub_list', lambda ch: SubList(ch)),
    S.Kind('sub_tuple', lambda ch: SubTuple(ch)),
    S.Kind('sub_dict', lambda ch: SubDict(zip('dcba', ch)), arities=range(0, 5)),
    S.Kind('sub_odict', lambda ch: SubOD(zip('dcba', ch)), arities=range(0, 5)),
    S.Kind('sub_ddict', lambda ch: SubDD(list, zip('dcba', ch)), arities=range(0, 5)),
    S.Kind('sub_deque', lambda ch: SubDeque(ch)),
    S.Kind('nt_sub', lambda ch: PointSub(*ch), arities=(2,)),
]
ALL_KINDS = {k.name: k for k in S.KINDS + EXTRA_KINDS + SUBCLASS_KINDS}
STD = [k.name for k in S.KINDS]
EXT = STD + [k.name for k in EXTRA_KINDS]
EXT_SUB = EXT + [k.name for k in SUBCLASS_KINDS]
DICT_KINDS = {'dict', 'dict_mixed', 'dict_unord', 'ddict', 'dict_partly', 'ddict_mixed'}   # order depends on the mode


class TreeGenA(S.TreeGen):
    """`scope.TreeGen` over the extended kind table."""

    def __init__(self, kinds=None, childless=('leaf', 'none', 'empty_tuple', 'empty_dict'), seed=0):
        S.ensure_registered()
        self.kinds = [ALL_KINDS[k] for k in (kinds or EXT)]
        self.childless = childless
        import random
        self.rng = random.Random(seed)

    def build(self, descr, counter=None):
        if counter is None:
            counter = itertools.count()
        if len(descr) == 1:
            return S.TreeGen.build(self, descr, counter)
        return ALL_KINDS[descr[0]].make([self.build(c, counter) for c in descr[1]])


def kinds_in(d, acc=None):
    acc = set() if acc is None else acc
    acc.add(d[0])
    if len(d) > 1:
        for c in d[1]:
            kinds_in(c, acc)
    return acc


def universe(tier, seed, kinds, quick_nodes=4, thorough_nodes=5, thorough_sample=None,
             childless=('leaf', 'none', 'empty_tuple', 'empty_dict'), quick_limit=None):
    """Descriptions of the tree scope: exhaustive up to N nodes (+ a seeded sample of larger trees)."""
    g = TreeGenA(kinds, childless, seed)
    if tier == 'quick':
        ds = list(g.descriptions(quick_nodes))
        if quick_limit and len(ds) > quick_limit:
            small = [d for d in ds if S.count_nodes(d) <= 3]
            big = [d for d in ds if S.count_nodes(d) > 3]
            g.rng.shuffle(big)
            ds = small + big[:max(0, quick_limit - len(small))]
            return g, ds, f'all trees <= 3 nodes + seeded sample to {quick_limit} of the {quick_nodes}-node trees'
        return g, ds, f'all trees <= {quick_nodes} nodes'
    ds = list(g.descriptions(thorough_nodes))
    txt = f'all trees <= {thorough_nodes} nodes'
    if thorough_sample:
        n, cnt = thorough_sample
        g2 = TreeGenA(kinds, ('leaf', 'none'), seed)
        big = list(g2.descriptions(n, n))
        g.rng.shuffle(big)
        ds += big[:cnt]
        txt += f' + seeded sample of {min(cnt, len(big))} of the {len(big)} {n}-node trees (childless in leaf/None)'
    return g, ds, txt


def random_descrs(seed, kinds, n_nodes, count, childless=('leaf', 'none', 'empty_tuple', 'empty_dict')):
    """`count` seeded random descriptions with exactly n_nodes nodes (uniform shape, then uniform kinds)."""
    import random
    rng = random.Random(seed * 1000003 + n_nodes)
    shapes = list(S.shapes(n_nodes))
    ks = [ALL_KINDS[k] for k in kinds]

    def assign(shape):
        if shape == ():
            return (rng.choice(childless),)
        ok = [k for k in ks if k.ok(len(shape))]
        return (rng.choice(ok).name, [assign(s) for s in shape])
    return [assign(rng.choice(shapes)) for _ in range(count)]


# ------------------------------------------------------------------------------------------------
# source expressions for trees

def key_src(k):
    if isinstance(k, S.UKey):
        return f'S.UKey({k.n})'
    if isinstance(k, tuple):
        return '(' + ''.join(key_src(x) + ', ' for x in k) + ')'
    return repr(k)


def to_src(t):
    """Python expression (over SCRIPT_HEADER + extras) that rebuilds tree `t` with fresh leaves."""
    r = to_src
    ty = type(t)
    if ty is S.L:
        return f'S.L({t.n})'
    if t is None or ty in (int, float, str, bool, bytes, complex):
        return repr(t)
    items = lambda d: ', '.join(f'({key_src(k)}, {r(v)})' for k, v in d.items())   # noqa: E731
    seq = lambda xs: ', '.join(r(x) for x in xs)                                    # noqa: E731
    if ty is tuple:
        return '(' + ''.join(r(x) + ', ' for x in t) + ')'
    if ty is list:
        return f'[{seq(t)}]'
    if ty is dict:
        return '{' + ', '.join(f'{key_src(k)}: {r(v)}' for k, v in t.items()) + '}'
    if ty is OrderedDict:
        return f'OrderedDict([{items(t)}])'
    if ty is defaultdict:
        return f'defaultdict({t.default_factory.__name__ if t.default_factory else None}, [{items(t)}])'
    if ty is deque:
        return f'deque([{seq(t)}], maxlen={t.maxlen})'
    if ty in (S.Point, S.Triple, S.Single, S.Empty):
        return f'S.{ty.__name__}({seq(t)})'
    if ty is PointSub:
        return f'PointSub({seq(t)})'
    if ty is S.TermSize:
        return f'S.TermSize(({seq(t)}, ))'
    if ty is S.CustomE or ty is S.CustomF:
        return f'S.{ty.__name__}([{seq(t.children)}], {t.meta!r})'
    if ty is S.CustomN:
        return f'S.CustomN([{seq(t.children)}])'
    if ty is CustomS:
        return f'CustomS([{seq(t.children)}])'
    if ty is DC2:
        return f'DC2({r(t.x)}, {r(t.y)}, {t.tag!r})'
    if ty is optree.functools.partial:
        kws = ''.join(f', {k}={r(v)}' for k, v in t.keywords.items())
        return f'optree.functools.partial({t.func.__name__}' + ''.join(', ' + r(a) for a in t.args) + kws + ')'
    if ty in (SubList, SubTuple, SubDeque):
        return f'{ty.__name__}([{seq(t)}])'
    if ty in (SubDict, SubOD):
        return f'{ty.__name__}([{items(t)}])'
    if ty is SubDD:
        return f'SubDD({t.default_factory.__name__ if t.default_factory else None}, [{items(t)}])'
    raise TypeError(f'to_src: unsupported {ty}')


def opts_src(o):
    p = o.get('is_leaf')
    return (f"{{'none_is_leaf': {o['none_is_leaf']}, 'namespace': {o['namespace']!r}, "
            f"'is_leaf': {('S.' + p.__name__) if p else None}, 'ins': {o.get('ins', False)}}}")


def opt_repr(o):
    return S.opt_repr(o) + (' mode=insertion' if o.get('ins') else '')


# ------------------------------------------------------------------------------------------------
# functions pasted into scripts


def kw(o):
    """optree keyword arguments of an option record."""
    return {'none_is_leaf': o['none_is_leaf'], 'namespace': o['namespace'], 'is_leaf': o['is_leaf']}


def mode(o):
    """Context manager: insertion-ordered dict mode for the namespace of `o` when o['ins'] is set."""
    if not o.get('ins'):
        return contextlib.nullcontext()
    return optree.dict_insertion_ordered(True, namespace=o['namespace'] or S._global_ns())


def tree_diff(a, b, leaf_eq=lambda x, y: x is y):
    """None when `b` is structurally identical to `a` (container types, key order, metadata, leaves related by
    leaf_eq), else the name of the first differing aspect: container_type | key_order | metadata | children | leaf."""
    if type(a) is not type(b):
        return 'container_type'
    if a is None:
        return None

    def rec(xs, ys):
        if len(xs) != len(ys):
            return 'children'
        for x, y in zip(xs, ys):
            r = tree_diff(x, y, leaf_eq)
            if r:
                return r
        return None
    if isinstance(a, dict):      # dict, OrderedDict, defaultdict and subclasses (exact type equal already)
        if list(a.keys()) != list(b.keys()) or not all(k1 is k2 or type(k1) is type(k2) for k1, k2 in zip(a, b)):
            return 'key_order' if len(a) == len(b) and all(k in b for k in a) else 'children'
        if isinstance(a, defaultdict) and a.default_factory is not b.default_factory:
            return 'metadata'
        return rec([a[k] for k in a], [b[k] for k in a])
    if isinstance(a, deque):
        return 'metadata' if a.maxlen != b.maxlen else rec(a, b)
    if isinstance(a, (tuple, list)):
        return rec(a, b)
    if type(a).__name__ in ('CustomE', 'CustomF', 'CustomN', 'CustomS'):
        if getattr(a, 'meta', None) != getattr(b, 'meta', None) or type(a.children) is not type(b.children):
            return 'metadata'
        return rec(a.children, b.children)
    if type(a).__name__ == 'DC2':
        return 'metadata' if a.tag != b.tag else rec([a.x, a.y], [b.x, b.y])
    if isinstance(a, functools.partial):
        return 'metadata' if a.func is not b.func else rec([a.args, a.keywords], [b.args, b.keywords])
    return None if leaf_eq(a, b) else 'leaf'


def same_tree(a, b, leaf_eq=lambda x, y: x is y):
    return tree_diff(a, b, leaf_eq) is None


def ref_sorted_keys(keys):
    """README 'Key Ordering': sorted(keys); else sorted by (module.qualname, key); else insertion order."""
    keys = list(keys)
    try:
        return sorted(keys)
    except TypeError:
        try:
            return sorted(keys, key=lambda k: (f'{k.__class__.__module__}.{k.__class__.__qualname__}', k))
        except TypeError:
            return keys


def ref_expand(x, o):
    """Reference one-level expansion from the README rules.

    Returns None when `x` is a leaf under options `o`, else (kindname, [(entry, child), ...], metadata).
    """
    pred, nil, ns, ins = o['is_leaf'], o['none_is_leaf'], o['namespace'], o.get('ins', False)
    if pred is not None and pred(x):
        return None                                   # predicate first: stops the descent
    t = type(x)
    if x is None:
        return None if nil else ('none', [], None)
    # registered custom types: exact type, the namespace shadows the global registration
    n = t.__name__
    if n == 'CustomS':
        if ns == S.NS:
            k = len(x.children)
            return ('custom', [(k - 1 - i, c) for i, c in enumerate(x.children[::-1])], 'n')
        return ('custom', list(enumerate(x.children)), 'g')
    if n == 'CustomE' and t is S.CustomE:
        return ('custom', [(f'e{i}', c) for i, c in enumerate(x.children)], x.meta)
    if n == 'CustomF' and t is S.CustomF:
        return ('custom', list(enumerate(x.children)), x.meta)
    if n == 'CustomN' and t is S.CustomN:
        return ('custom', list(enumerate(x.children)), None) if ns == S.NS else None
    if n == 'DC2' and dataclasses.is_dataclass(t):
        return ('custom', [('x', x.x), ('y', x.y)], (('tag', x.tag),)) if ns == S.NS else None
    if t is optree.functools.partial:
        return ('custom', [('args', x.args), ('keywords', x.keywords)], x.func)
    # built-ins: exact types only
    if t is tuple or t is list or t is deque:
        return (t.__name__, list(enumerate(x)), x.maxlen if t is deque else None)
    if t is OrderedDict:
        return ('OrderedDict', list(x.items()), list(x))
    if t is dict or t is defaultdict:
        keys = list(x) if ins else ref_sorted_keys(x)
        return (t.__name__, [(k, x[k]) for k in keys], keys if t is dict else (x.default_factory, keys))
    if isinstance(x, tuple) and hasattr(t, 'n_sequence_fields') and t.__base__ is tuple:
        return ('structseq', list(enumerate(x)), t)
    if isinstance(x, tuple) and isinstance(getattr(t, '_fields', None), tuple):
        return ('namedtuple', list(enumerate(x)), t)   # namedtuple classes and their subclasses
    return None                                        # anything else (incl. container subclasses): leaf


def ref_walk(x, o, path=()):
    """Reference traversal: (leaves, paths, internal nodes in post-order as (path, kindname, obj))."""
    e = ref_expand(x, o)
    if e is None:
        return [x], [path], []
    leaves, paths, nodes = [], [], []
    for entry, child in e[1]:
        l2, p2, n2 = ref_walk(child, o, path + (entry,))
        leaves += l2
        paths += p2
        nodes += n2
    nodes.append((path, e[0], x))
    return leaves, paths, nodes


def ids_equal(xs, ys):
    """Same objects in the same order."""
    xs, ys = list(xs), list(ys)
    return len(xs) == len(ys) and all(a is b for a, b in zip(xs, ys))


def SRC(*fns):
    return '\n\n'.join(inspect.getsource(f) for f in fns) + '\n'


REF_SRC = None


def ref_src():
    global REF_SRC
    if REF_SRC is None:
        REF_SRC = SRC(kw, mode, ref_sorted_keys, ref_expand, ref_walk, ids_equal)
    return REF_SRC


# ------------------------------------------------------------------------------------------------
# child processes

def child_env():
    env = dict(os.environ)
    return env


def run_child(code: str, timeout=120):
    """Run `code` in a fresh interpreter with the same environment; returns (returncode, stdout, stderr)."""
    try:
        p = subprocess.run([sys.executable, '-c', code], env=child_env(), capture_output=True, text=True,
                           timeout=timeout)
        return p.returncode, p.stdout, p.stderr
    except subprocess.TimeoutExpired:
        return -999, '', 'timeout'


# ------------------------------------------------------------------------------------------------
# collector

class Collector:
    """Counts evaluations / distinct non-trivial inputs and keeps at most `per_key` findings per key."""

    def __init__(self, name, per_key=5, verify_scripts=True):
        self.rep = BoundedReport(name=name)
        self.per_key = per_key
        self.counts = {}
        self.distinct = set()
        self.verify = verify_scripts

    def tick(self, n=1):
        self.rep.evaluations += n

    def nontrivial(self, canon):
        self.distinct.add(canon)

    def sample(self, s, cap=6):
        if len(self.rep.samples) < cap:
            self.rep.samples.append(s)

    def finding(self, key, what, script, data=None):
        c = self.counts.get(key, 0)
        self.counts[key] = c + 1
        if c >= self.per_key:
            return
        data = dict(data or {})
        if self.verify and script:
            rc, out, err = run_child(script)
            data['script_exit'] = rc          # 1 (or a signal) = the script reproduces the violation
            if rc == 0 or rc not in (1,) and rc > 0:
                data['script_note'] = (err or out)[-400:]
        self.rep.findings.append(Finding(key=key, what=what[:1500], script=script, data=data))

    def done(self, **fields):
        self.rep.distinct_nontrivial = len(self.distinct)
        for k, v in fields.items():
            setattr(self.rep, k, v)
        if self.counts:
            extra = '; total violations per key: ' + ', '.join(f'{k}={v}' for k, v in sorted(self.counts.items()))
            self.rep.notes = (self.rep.notes + extra).strip('; ')
        return self.rep


def make_script(tree_src, o, fn_src, call, key, extras=None, pre=''):
    """Replay script: build `tree` and `o`, paste the check functions, run `call` -> list[(key, msg)]."""
    body = f'{pre}tree = {tree_src}\no = {opts_src(o)}\n' if tree_src is not None else pre
    text = body + call
    need = extras if extras is not None else any(nm in text for nm in EXTRA_NAMES)
    return (SCRIPT_HEADER + (EXTRA_SRC + '\n' if need else '') + '\n' + fn_src + '\n' + body
            + 'try:\n    res = ' + call + '\n'
            + 'except Exception as ex:\n    import traceback; traceback.print_exc()\n'
            + f"    res = [({key.split('.')[0] + '.unexpected_exception'!r}, repr(ex))]\n"
            + 'for r in res:\n    print(r)\n'
            + f'sys.exit(1 if any(k == {key!r} for k, _ in res) else 0)\n')


def run_checks(col, prop, checks, fn_src, tree, tree_src, o, what_prefix):
    """Run check functions `f(tree, o) -> list[(key, msg)]`; every unexpected exception is a finding."""
    for f in checks:
        col.tick()
        try:
            res = f(tree, o)
        except Exception as ex:      # an exception the contract does not allow
            res = [(f'{prop}.unexpected_exception', f'{f.__name__}: {type(ex).__name__}: {ex}')]
        for key, msg in res:
            if col.counts.get(key, 0) >= col.per_key:
                col.counts[key] += 1
                continue
            src = tree_src() if callable(tree_src) else tree_src
            col.finding(key, f'{what_prefix}: {msg}',
                        make_script(src, o, fn_src, f'{f.__name__}(tree, o)', key))


def grid(ins_modes=(False, True), predicates=True, namespaces=True):
    for o in S.option_grid(predicates, namespaces):
        for ins in ins_modes:
            yield dict(o, ins=ins)
