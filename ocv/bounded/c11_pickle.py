"""C11 — pickling a treespec preserves it exactly (bounded monitor).

For every treespec s of the scope and every pickle protocol 0..5, r = pickle.loads(pickle.dumps(s, protocol)) is compared
with s on everything the property lists: == (both ways) and hash, repr, none_is_leaf / namespace, counts, kind / type,
paths, accessors, entries, children (recursively by ==), and `unflatten(range(n))` compared with `same_tree` (exact container
types, *dict key order*, deque maxlen, default factory).  The same comparison is made for copy.copy / copy.deepcopy and, in a
freshly spawned interpreter (same PYTHONPATH), between the loaded treespec and a treespec flattened afresh there, under three
registry histories of the loading process: same registrations; type registered, unregistered and registered again; and
registration missing in the recorded namespace (loading must raise for every treespec that contains such a custom node and
must still work for all others).

Clauses (finding keys)
  C11.roundtrip_equal       == / != / hash
  C11.roundtrip_repr        repr, none_is_leaf, namespace, num_leaves / num_nodes / num_children, kind, type
  C11.roundtrip_paths       paths, accessors, entries, children
  C11.roundtrip_unflatten   unflatten gives the same tree incl. the original dict key order
  C11.copy                  copy.copy / copy.deepcopy (same comparison)
  C11.fresh_process_equal / _repr / _paths / _unflatten     loaded in a spawned interpreter vs flattened afresh there
  C11.reregistered_type_*   same, after unregister + register again in the loading process
  C11.missing_registration_must_raise    loading returned a treespec although a recorded custom type is not registered
                                         in the recorded namespace
  C11.load_without_custom_nodes          a treespec without custom nodes failed to load in a process without registrations
  C11.protocol_supported                 pickle.dumps(s, protocol) raised (every protocol 0..HIGHEST is in the quantifier)
  C11.unexpected_exception               loads / copy raised in the same process; child process crashed
"""
from __future__ import annotations

import copy
import json
import os
import pickle
import random
import subprocess
import sys
import tempfile

import optree

from ocv.bounded import _util_b as U
from ocv.bounded import scope as S
from ocv.result import BoundedReport

PROTOCOLS = list(range(0, pickle.HIGHEST_PROTOCOL + 1))
UNSUPPORTED = {}           # protocol -> [number of treespecs whose dumps raised]


def compare(a, b):
    """Names of the clause groups on which treespecs a and b differ ('' = none)."""
    bad = []
    try:
        if not (a == b and b == a and not (a != b) and hash(a) == hash(b)):
            bad.append('equal')
        if not (repr(a) == repr(b) and a.none_is_leaf == b.none_is_leaf and a.namespace == b.namespace
                and (a.num_leaves, a.num_nodes, a.num_children, len(a)) == (b.num_leaves, b.num_nodes, b.num_children, len(b))
                and a.kind == b.kind and a.type is b.type):
            bad.append('repr')
        if not (a.paths() == b.paths() and a.accessors() == b.accessors() and a.entries() == b.entries()
                and children_equal(a, b)):
            bad.append('paths')
        n = a.num_leaves
        if not (n == b.num_leaves and U.same_tree(a.unflatten(range(n)), b.unflatten(range(n)), lambda x, y: x == y)):
            bad.append('unflatten')
    except Exception as e:   # noqa: BLE001
        bad.append(f'exception:{type(e).__name__}: {e}')
    return bad


def children_equal(a, b, depth=0):
    ca, cb = a.children(), b.children()
    if len(ca) != len(cb):
        return False
    for x, y in zip(ca, cb):
        if not (x == y and x.entries() == y.entries() and x.paths() == y.paths() and repr(x) == repr(y)):
            return False
        if depth < 4 and not children_equal(x, y, depth + 1):
            return False
    return True


COMPARE_SRC = '''\
def children_equal(a, b):
    ca, cb = a.children(), b.children()
    return len(ca) == len(cb) and all(x == y and x.entries() == y.entries() and x.paths() == y.paths() and repr(x) == repr(y)
                                      and children_equal(x, y) for x, y in zip(ca, cb))
def compare(a, b):
    bad = []
    if not (a == b and b == a and not (a != b) and hash(a) == hash(b)):
        bad.append('equal')
    if not (repr(a) == repr(b) and a.none_is_leaf == b.none_is_leaf and a.namespace == b.namespace
            and (a.num_leaves, a.num_nodes, a.num_children, len(a)) == (b.num_leaves, b.num_nodes, b.num_children, len(b))
            and a.kind == b.kind and a.type is b.type):
        bad.append('repr')
    if not (a.paths() == b.paths() and a.accessors() == b.accessors() and a.entries() == b.entries() and children_equal(a, b)):
        bad.append('paths')
    n = a.num_leaves
    if not (n == b.num_leaves and U.same_tree(a.unflatten(range(n)), b.unflatten(range(n)), lambda x, y: x == y)):
        bad.append('unflatten')
    return bad
'''


def flatten(d, o, ins):
    t = U.build(d)
    if ins:
        with optree.dict_insertion_ordered(True, namespace=o['namespace']):
            return optree.tree_structure(t, **o)
    return optree.tree_structure(t, **o)


def flatten_src(d, o, ins, var='s'):
    if ins:
        return (f'o = {U.opt_src(o)}\nwith optree.dict_insertion_ordered(True, namespace=o["namespace"]):\n'
                f'    {var} = optree.tree_structure({U.src(d)}, **o)\n')
    return f'o = {U.opt_src(o)}\n{var} = optree.tree_structure({U.src(d)}, **o)\n'


def label(d, o, ins):
    return f'tree_structure({U.show(d)} [{S.opt_repr(o)}{" insertion-ordered" if ins else ""}])'


def has_custom(spec):
    return any(st[0] == 0 for st in spec.__getstate__()[0])


# ------------------------------------------------------------------------------------------------
# same process

def check_same_process(d, o, ins, bag):
    lab = label(d, o, ins)
    head = flatten_src(d, o, ins) + COMPARE_SRC
    st, s = U.guard(flatten, d, o, ins)
    if st == 'exc':
        bag.add('C11.unexpected_exception', f'{lab} raised {U.exc_name(s)}', head + 'sys.exit(0)\n')
        return None
    for proto in PROTOCOLS:
        bag.ev()
        st, data = U.guard(pickle.dumps, s, proto)
        if st == 'exc':
            # one finding per protocol (deterministic text); further occurrences are only counted
            seen = UNSUPPORTED.setdefault(proto, [0])
            seen[0] += 1
            if seen[0] == 1:
                bag.add('C11.protocol_supported',
                        f'pickle protocol {proto} not supported: pickle.dumps(spec, {proto}) raised {type(data).__name__}',
                        f'spec = optree.tree_structure((1, 2))\ntry:\n    pickle.loads(pickle.dumps(spec, {proto}))\nexcept Exception as e:\n'
                        '    print(type(e).__name__, e); sys.exit(1)\nsys.exit(0)\n',
                        data={'protocol': proto, 'exception': type(data).__name__})
            continue
        st, r = U.guard(pickle.loads, data)
        if st == 'exc':
            bag.add('C11.unexpected_exception', f'{lab}: pickle.loads of the protocol {proto} pickle raised {U.exc_name(r)}',
                    head + f'pickle.loads(pickle.dumps(s, {proto}))\nsys.exit(0)\n')
            continue
        for b in compare(s, r):
            key = 'C11.unexpected_exception' if b.startswith('exception') else f'C11.roundtrip_{b}'
            bag.add(key, f'{lab} = {s!r}: after pickle protocol {proto} the loaded treespec {r!r} differs in: {b} '
                         f'(unflatten: {safe_unflatten(s)} vs {safe_unflatten(r)})',
                    head + f'r = pickle.loads(pickle.dumps(s, {proto}))\nbad = compare(s, r)\nprint(bad)\nsys.exit(1 if {b.split(":")[0]!r} in bad or any(x.startswith("exc") for x in bad) else 0)\n')
    for name, fn in (('copy.copy', copy.copy), ('copy.deepcopy', copy.deepcopy)):
        bag.ev()
        st, r = U.guard(fn, s)
        if st == 'exc':
            bag.add('C11.unexpected_exception', f'{lab}: {name} raised {U.exc_name(r)}', head + f'{name}(s)\nsys.exit(0)\n')
            continue
        bad = compare(s, r)
        if bad:
            bag.add('C11.copy', f'{lab} = {s!r}: {name}(s) = {r!r} differs in: {", ".join(bad)}',
                    head + f'bad = compare(s, {name}(s))\nprint(bad)\nsys.exit(1 if bad else 0)\n')
    return s


def safe_unflatten(s):
    try:
        return repr(s.unflatten(range(s.num_leaves)))
    except Exception as e:   # noqa: BLE001
        return f'<{type(e).__name__}>'


# ------------------------------------------------------------------------------------------------
# spawned interpreter

CHILD_MODES = ('same', 'reregistered', 'missing', 'elsewhere')


def child_setup(mode):
    """Registry history of the loading process."""
    if mode == 'same':
        U.ensure_registered()
    elif mode == 'reregistered':
        U.ensure_registered()
        g = S._global_ns()
        e1 = optree.unregister_pytree_node(S.CustomE, namespace=g)
        e2 = optree.unregister_pytree_node(S.CustomN, namespace=U.NS)
        optree.register_pytree_node(S.CustomE, lambda o: (list(o.children), o.meta, S.CustomE.entries_for(len(o.children))),
                                    lambda meta, ch: S.CustomE(ch, meta), path_entry_type=S.CustomEEntry, namespace=g)
        optree.register_pytree_node(S.CustomN, lambda o: (o.children, None, None), lambda meta, ch: S.CustomN(ch), namespace=U.NS)
        assert e1 is not None and e2 is not None
    elif mode == 'missing':
        pass                                    # classes importable, nothing registered
    elif mode == 'elsewhere':                   # every class registered, but never in the namespace the pickles record
        optree.register_pytree_node(S.CustomE, lambda o: (o.children, o.meta, S.CustomE.entries_for(len(o.children))),
                                    lambda meta, ch: S.CustomE(ch, meta), path_entry_type=S.CustomEEntry, namespace='ocv_elsewhere')
        optree.register_pytree_node(S.CustomF, lambda o: (o.children, o.meta), lambda meta, ch: S.CustomF(ch, meta), namespace='ocv_elsewhere')
        optree.register_pytree_node(S.CustomN, lambda o: (o.children, None, None), lambda meta, ch: S.CustomN(ch), namespace='ocv_elsewhere')
        optree.register_pytree_node(U.CustomM, lambda o: (o.children, None), lambda meta, ch: U.CustomM(ch), namespace='ocv_elsewhere')


CHILD_SETUP_SRC = {
    'same': 'U.ensure_registered()\n',
    'reregistered': 'U.ensure_registered()\ng = S._global_ns()\noptree.unregister_pytree_node(S.CustomE, namespace=g)\n'
                    'optree.unregister_pytree_node(S.CustomN, namespace=U.NS)\n'
                    'optree.register_pytree_node(S.CustomE, lambda o: (list(o.children), o.meta, S.CustomE.entries_for(len(o.children))), '
                    'lambda meta, ch: S.CustomE(ch, meta), path_entry_type=S.CustomEEntry, namespace=g)\n'
                    'optree.register_pytree_node(S.CustomN, lambda o: (o.children, None, None), lambda meta, ch: S.CustomN(ch), namespace=U.NS)\n',
    'missing': '',
    'elsewhere': "optree.register_pytree_node(S.CustomE, lambda o: (o.children, o.meta, S.CustomE.entries_for(len(o.children))), "
                 "lambda meta, ch: S.CustomE(ch, meta), path_entry_type=S.CustomEEntry, namespace='ocv_elsewhere')\n"
                 "optree.register_pytree_node(S.CustomF, lambda o: (o.children, o.meta), lambda meta, ch: S.CustomF(ch, meta), namespace='ocv_elsewhere')\n"
                 "optree.register_pytree_node(S.CustomN, lambda o: (o.children, None, None), lambda meta, ch: S.CustomN(ch), namespace='ocv_elsewhere')\n"
                 "optree.register_pytree_node(U.CustomM, lambda o: (o.children, None), lambda meta, ch: U.CustomM(ch), namespace='ocv_elsewhere')\n",
}


def child_main(mode, infile, outfile):
    child_setup(mode)
    with open(infile, 'rb') as f:
        items = pickle.load(f)
    out = []
    raised = loaded_n = 0
    for idx, (d, o_key, ins, proto, custom, data) in enumerate(items):
        o = {'none_is_leaf': o_key[0], 'namespace': o_key[1], 'is_leaf': None}
        try:
            r = pickle.loads(data)
            loaded = True
        except Exception as e:   # noqa: BLE001 - classified below
            r, loaded = e, False
        raised += not loaded
        loaded_n += loaded
        if mode in ('same', 'reregistered'):
            if not loaded:
                out.append((idx, 'exception', f'loads raised {type(r).__name__}: {r}'))
                continue
            try:
                fresh = flatten(d, o, ins)
            except Exception as e:   # noqa: BLE001
                out.append((idx, 'exception', f'fresh flatten raised {type(e).__name__}: {e}'))
                continue
            for b in compare(fresh, r):
                out.append((idx, b, f'loaded {r!r}, flattened afresh {fresh!r}; unflatten {safe_unflatten(r)} vs {safe_unflatten(fresh)}'))
        else:
            if custom and loaded:
                out.append((idx, 'must_raise', f'loads returned {r!r}'))
            elif not custom and not loaded:
                out.append((idx, 'no_custom_failed', f'loads raised {type(r).__name__}: {r}'))
            elif not custom:
                try:
                    fresh = flatten(d, o, ins)
                    for b in compare(fresh, r):
                        out.append((idx, 'no_custom_differs', f'{b}: loaded {r!r}, fresh {fresh!r}'))
                except Exception as e:   # noqa: BLE001
                    out.append((idx, 'exception', f'{type(e).__name__}: {e}'))
    with open(outfile, 'w') as f:
        json.dump({'n': len(items), 'failures': out, 'raised': raised, 'loaded': loaded_n}, f)
    return 0


def child_script(mode, d, o, ins, proto, data, clause):
    """Self-contained replay: dumps here, loads in a spawned interpreter with the registry history `mode`."""
    child = ('import sys, pickle, collections\nimport optree\nfrom ocv.bounded import scope as S\nfrom ocv.bounded import _util_b as U\n' +
             CHILD_SETUP_SRC[mode] + COMPARE_SRC + f'data = bytes.fromhex({data.hex()!r})\n')
    if mode in ('same', 'reregistered'):
        child += ('r = pickle.loads(data)\n' + flatten_src(d, o, ins, 'fresh') + 'bad = compare(fresh, r)\nprint(r, fresh, bad)\n'
                  f'sys.exit(1 if {clause!r} in bad else 0)\n')
    elif clause == 'must_raise':
        child += 'try:\n    r = pickle.loads(data)\nexcept Exception as e:\n    print("raised", type(e).__name__, e); sys.exit(0)\nprint("loaded", r); sys.exit(1)\n'
    else:
        child += 'try:\n    r = pickle.loads(data)\nexcept Exception as e:\n    print("raised", type(e).__name__, e); sys.exit(1)\n' + \
                 flatten_src(d, o, ins, 'fresh') + 'sys.exit(1 if compare(fresh, r) else 0)\n'
    return (flatten_src(d, o, ins) + f'assert pickle.dumps(s, {proto}) is not None\nimport subprocess, os\nchild = {child!r}\n'
            'p = subprocess.run([sys.executable, "-c", child], env=os.environ)\nprint("child exit", p.returncode)\nsys.exit(1 if p.returncode != 0 else 0)\n')


def run_children(items, bag, modes):
    """items: [(d, o, ins, proto, has_custom, data)].  One spawned interpreter per registry history."""
    with tempfile.TemporaryDirectory(prefix='ocv_c11_') as tmp:
        infile = os.path.join(tmp, 'items.pkl')
        with open(infile, 'wb') as f:
            pickle.dump([(d, (o['none_is_leaf'], o['namespace']), ins, proto, custom, data) for d, o, ins, proto, custom, data in items], f)
        for mode in modes:
            outfile = os.path.join(tmp, f'out_{mode}.json')
            p = subprocess.run([sys.executable, '-m', 'ocv.bounded.c11_pickle', mode, infile, outfile], env=os.environ,
                               capture_output=True, text=True, timeout=3000)
            if p.returncode != 0 or not os.path.exists(outfile):
                bag.add('C11.unexpected_exception', f'spawned interpreter (registry history {mode!r}) exited with {p.returncode}: {p.stderr.strip()[-400:]}',
                        f'from ocv.bounded import c11_pickle as M\nsys.exit(M.replay_children({mode!r}, {len(items)}))\n',
                        data={'mode': mode})
                continue
            with open(outfile) as f:
                res = json.load(f)
            bag.ev(res['n'])
            bag.notes.append(f'history {mode}: {res["loaded"]} pickles loaded, {res["raised"]} raised')
            for idx, clause, detail in res['failures']:
                d, o, ins, proto, custom, data = items[idx]
                if clause == 'must_raise':
                    key = 'C11.missing_registration_must_raise'
                elif clause in ('no_custom_failed', 'no_custom_differs'):
                    key = 'C11.load_without_custom_nodes'
                elif clause == 'exception' or clause.startswith('exception'):
                    key = 'C11.unexpected_exception'
                else:
                    key = ('C11.fresh_process_' if mode == 'same' else 'C11.reregistered_type_') + clause
                bag.add(key, f'{label(d, o, ins)}, protocol {proto}, loading process with registry history {mode!r}: {detail}',
                        lambda mode=mode, d=d, o=o, ins=ins, proto=proto, data=data, clause=clause: child_script(mode, d, o, ins, proto, data, clause))


_LAST_ITEMS = None


def replay_children(mode, n):   # used only by the crash replay script
    rep = run('quick', 0)
    return 1 if any(f.key == 'C11.unexpected_exception' and f.data.get('mode') == mode for f in rep.findings) else 0


# ------------------------------------------------------------------------------------------------

def run(tier: str, seed: int) -> BoundedReport:
    U.ensure_registered()
    UNSUPPORTED.clear()
    quick = tier == 'quick'
    rng = random.Random(seed)
    bag = U.Bag('c11_pickle')
    kinds = [k for k in U.ALL_KINDS if k != 'structseqB']          # AsyncHooks is not importable by name: not picklable at all
    opts = U.options(namespaces=('', U.NS, U.NS_OTHER)) + U.options(namespaces=(U.NS2,))
    small = list(U.descriptions(3, kinds, U.ALL_ATOMS))
    core4 = list(U.descriptions(4, U.CORE_KINDS + ['customN', 'customF', 'dictU'], U.CORE_ATOMS, min_nodes=4))
    if quick:
        small = [d for d in small if U.n_nodes(d) <= 2] + U.thin([d for d in small if U.n_nodes(d) == 3], 500, rng)
        core4 = U.thin(core4, 250, rng)
    else:
        core4 = U.thin(core4, 6000, rng)
        core4 += U.thin(list(U.descriptions(5, U.CORE_KINDS, ['leaf', 'none'], min_nodes=5)), 3000, rng)
    cases = []
    for d in small:
        for o in (opts if U.n_nodes(d) <= 2 or not quick else (opts[0], opts[1], opts[4], opts[6])):
            cases.append((d, o, False))
    for d in core4:
        for o in (opts[0], opts[4]) if quick else (opts[0], opts[1], opts[4], opts[5]):
            cases.append((d, o, False))
    # insertion-ordered dict mode in namespace NS
    for d in U.descriptions(3, ['dictR', 'dictF', 'ddictR', 'dictU', 'odictR', 'tuple', 'customN'], ['leaf', 'none']):
        if 'dict' in U.show(d):
            for nil in (False, True):
                cases.append((d, {'none_is_leaf': nil, 'namespace': U.NS, 'is_leaf': None}, True))
    items = []
    ncustom = 0
    for k, (d, o, ins) in enumerate(cases):
        s = check_same_process(d, o, ins, bag)
        bag.seen((U.freeze(d), U.opt_key(o), ins))
        if s is None:
            continue
        if k in (3, len(cases) // 2, len(cases) - 5):
            bag.sample(f'{label(d, o, ins)} -> {s!r}')
        try:
            custom = has_custom(s)
            ncustom += custom
            working = [p for p in PROTOCOLS if U.guard(pickle.dumps, s, p)[0] == 'ok']
            protos = working if (U.n_nodes(d) <= 2 and not quick) else working[k % max(len(working), 1):][:1]
            for proto in protos:
                items.append((d, o, ins, proto, custom, pickle.dumps(s, proto)))
        except Exception as e:   # noqa: BLE001
            bag.add('C11.unexpected_exception', f'{label(d, o, ins)}: {U.exc_name(e)}', flatten_src(d, o, ins) + 's.__getstate__(); pickle.dumps(s)\nsys.exit(0)\n')
    run_children(items, bag, CHILD_MODES)
    for proto, cnt in sorted(UNSUPPORTED.items()):
        bag.notes.append(f'protocol {proto}: dumps raised for {cnt[0]} of {len(cases)} treespecs')
    bag.sample(f'{len(items)} pickles loaded in 4 spawned interpreters: same registrations / unregister + register again / nothing registered / registered only in another namespace')
    return bag.report(
        rule=f'distinct = (tree description, options, dict-order mode); {ncustom} of {len(cases)} treespecs contain custom nodes '
             '(needed for the registration histories); bare-leaf specs are trivial (< 1%)',
        scope=f'{tier}: {len(cases)} treespecs (trees <= {4 if quick else 5} nodes over {len(kinds)} kind variants, {len(U.ALL_ATOMS)} atoms; none_is_leaf x namespace in '
              f'("", {U.NS!r}, {U.NS2!r}, unknown); insertion-ordered dict mode) x protocols {PROTOCOLS[0]}..{PROTOCOLS[-1]} + copy/deepcopy in-process; '
              f'{len(items)} pickles x 4 registry histories in spawned interpreters',
        exhaustive=False,
        notes='hand-written (malformed) pickle states belong to C16; the struct sequence type sys.asyncgen_hooks cannot be pickled by Python itself and is left out',
    )


if __name__ == '__main__':
    sys.exit(child_main(sys.argv[1], sys.argv[2], sys.argv[3]))
