"""Finite input scopes for the bounded contract monitors (DESIGN.md 1.8).

Everything here runs natively against the freshly built optree.  The universe is deterministic for a
given (max_nodes, seed): enumeration is exhaustive up to `max_nodes`, then optionally thinned by a
seeded sample to keep the quick tier inside its budget.

Vocabulary
  * Leaf objects are instances of `L` (opaque, identity matters, never registered) unless stated.
  * KINDS: internal-node kinds with a constructor from a list of children.
  * `trees(max_nodes)` yields (tree, description) for every ordered tree shape with <= max_nodes
    nodes and every assignment of kinds to internal nodes (None / empty containers are childless
    nodes and count as nodes).
"""
from __future__ import annotations

import collections
import itertools
import os
import random
import time
from collections import OrderedDict, defaultdict, deque, namedtuple
from typing import Any, Callable, Iterator

import optree

# ------------------------------------------------------------------------------------------------
# leaf and key universes


class L:
    """Opaque leaf with identity."""
    __slots__ = ('n',)

    def __init__(self, n):
        self.n = n

    def __repr__(self):
        return f'L{self.n}'


class UKey:
    """Hashable key that is not orderable against anything (not even its own kind)."""
    __slots__ = ('n',)

    def __init__(self, n):
        self.n = n

    def __repr__(self):
        return f'UKey({self.n})'

    def __hash__(self):
        return hash(('UKey', self.n))

    def __eq__(self, other):
        return isinstance(other, UKey) and other.n == self.n


UK = [UKey(i) for i in range(4)]

# key pools: (name, keys in *insertion* order)
KEY_POOLS = {
    'sorted_str': ['a', 'b', 'c', 'd'],
    'rev_str': ['d', 'c', 'b', 'a'],
    'mixed': [2, 'a', 1, (0,)],          # int vs str vs tuple: needs the (type name, key) fallback
    'unorderable': [UK[2], UK[0], UK[1], UK[3]],   # even the fallback fails -> insertion order
    'partly': [3, 1, UK[0], 2],          # first sort raises midway (D9 pattern)
    'bool_int': [True, 0, 2, -1],
}

Point = namedtuple('Point', ['x', 'y'])
Triple = namedtuple('Triple', ['a', 'b', 'c'])
Single = namedtuple('Single', ['only'])
Empty = namedtuple('Empty', [])
NT_BY_ARITY = {0: Empty, 1: Single, 2: Point, 3: Triple}
TermSize = os.terminal_size            # struct sequence with 2 fields
StructTime = time.struct_time          # struct sequence with 9 visible fields

NS = 'ocv_ns'                          # namespace with registrations
NS_OTHER = 'ocv_unknown_ns'            # namespace without any registration


class CustomE:
    """Class-registered custom node *with explicit entries* (global namespace)."""

    def __init__(self, children, meta='m'):
        self.children = list(children)
        self.meta = meta

    def __eq__(self, o):
        return type(o) is CustomE and o.meta == self.meta and o.children == self.children

    def __hash__(self):
        return hash(('CustomE', self.meta))

    def __repr__(self):
        return f'CustomE({self.children!r}, {self.meta!r})'

    @staticmethod
    def entries_for(n):
        return tuple(f'e{i}' for i in range(n))


class CustomEEntry(optree.PyTreeEntry):
    def __call__(self, obj):
        return obj.children[int(self.entry[1:])]

    def codify(self, node=''):
        return f'{node}.children[{int(self.entry[1:])}]'


class CustomF:
    """Function-registered custom node without entries (global namespace)."""

    def __init__(self, children, meta=7):
        self.children = tuple(children)
        self.meta = meta

    def __eq__(self, o):
        return type(o) is CustomF and o.meta == self.meta and o.children == self.children

    def __hash__(self):
        return hash(('CustomF', self.meta))

    def __repr__(self):
        return f'CustomF({self.children!r}, {self.meta!r})'


class CustomN:
    """Custom node registered only in namespace NS (a leaf elsewhere)."""

    def __init__(self, children):
        self.children = list(children)

    def __eq__(self, o):
        return type(o) is CustomN and o.children == self.children

    def __hash__(self):
        return hash('CustomN')

    def __repr__(self):
        return f'CustomN({self.children!r})'


_registered = False


def ensure_registered():
    global _registered
    if _registered:
        return
    _registered = True
    optree.register_pytree_node(
        CustomE,
        lambda o: (o.children, o.meta, CustomE.entries_for(len(o.children))),
        lambda meta, ch: CustomE(ch, meta),
        path_entry_type=CustomEEntry,
        namespace=optree.registry.__GLOBAL_NAMESPACE if hasattr(optree.registry, '__GLOBAL_NAMESPACE') else _global_ns(),
    )
    optree.register_pytree_node(
        CustomF,
        lambda o: (o.children, o.meta),
        lambda meta, ch: CustomF(ch, meta),
        namespace=_global_ns(),
    )
    optree.register_pytree_node(
        CustomN,
        lambda o: (o.children, None, None),
        lambda meta, ch: CustomN(ch),
        namespace=NS,
    )


def _global_ns():
    import optree.registry as r
    return getattr(r, '_OptreeRegistry__GLOBAL_NAMESPACE', None) or r.__dict__.get('__GLOBAL_NAMESPACE') or \
        next(v for k, v in r.__dict__.items() if k.endswith('GLOBAL_NAMESPACE'))


# ------------------------------------------------------------------------------------------------
# kinds


class Kind:
    def __init__(self, name: str, make: Callable[[list], Any], arities=None, needs_ns: str | None = None,
                 dictlike=False, pool: str | None = None):
        self.name = name
        self.make = make
        self.arities = arities        # None = any
        self.needs_ns = needs_ns      # node only in that namespace
        self.dictlike = dictlike
        self.pool = pool

    def ok(self, n: int) -> bool:
        return self.arities is None or n in self.arities

    def __repr__(self):
        return self.name


def _mkdict(pool):
    return lambda ch: {k: c for k, c in zip(KEY_POOLS[pool], ch)}


def _mkod(pool):
    return lambda ch: OrderedDict((k, c) for k, c in zip(KEY_POOLS[pool], ch))


def _mkdd(pool, factory=list):
    def mk(ch):
        d = defaultdict(factory)
        for k, c in zip(KEY_POOLS[pool], ch):
            d[k] = c
        return d
    return mk


def _mk_structtime(ch):
    return StructTime(tuple(ch))


KINDS: list[Kind] = [
    Kind('tuple', lambda ch: tuple(ch)),
    Kind('list', lambda ch: list(ch)),
    Kind('dict', _mkdict('rev_str'), arities=range(0, 5), dictlike=True, pool='rev_str'),
    Kind('dict_mixed', _mkdict('mixed'), arities=range(2, 5), dictlike=True, pool='mixed'),
    Kind('dict_unord', _mkdict('unorderable'), arities=range(2, 5), dictlike=True, pool='unorderable'),
    Kind('odict', _mkod('rev_str'), arities=range(0, 5), dictlike=True, pool='rev_str'),
    Kind('ddict', _mkdd('rev_str'), arities=range(0, 5), dictlike=True, pool='rev_str'),
    Kind('deque', lambda ch: deque(ch)),
    Kind('deque_maxlen', lambda ch: deque(ch, maxlen=max(len(ch), 1) + 1)),
    Kind('namedtuple', lambda ch: NT_BY_ARITY[len(ch)](*ch), arities=range(0, 4)),
    Kind('structseq', lambda ch: TermSize(tuple(ch)), arities=(2,)),
    Kind('customE', lambda ch: CustomE(ch)),
    Kind('customF', lambda ch: CustomF(ch)),
    Kind('customN', lambda ch: CustomN(ch), needs_ns=NS),
]
KIND_BY_NAME = {k.name: k for k in KINDS}
BASIC = ['tuple', 'list', 'dict', 'odict', 'ddict', 'deque', 'namedtuple', 'customE']


def shapes(n_nodes: int) -> Iterator[tuple]:
    """All ordered rooted trees with exactly n_nodes nodes, as nested tuples of children."""
    if n_nodes == 1:
        yield ()
        return
    # root + forest of n_nodes-1 nodes
    for forest in _forests(n_nodes - 1):
        yield forest


def _forests(n: int) -> Iterator[tuple]:
    if n == 0:
        yield ()
        return
    for first in range(1, n + 1):
        for t in shapes(first):
            for rest in _forests(n - first):
                yield (t,) + rest


class TreeGen:
    """Enumerate concrete pytrees for shapes x kind assignments; leaves are fresh L objects."""

    def __init__(self, kinds=None, childless=('leaf', 'none', 'empty_tuple', 'empty_dict'), seed=0):
        ensure_registered()
        self.kinds = [KIND_BY_NAME[k] if isinstance(k, str) else k for k in (kinds or [k.name for k in KINDS])]
        self.childless = childless
        self.rng = random.Random(seed)

    def _assignments(self, shape) -> Iterator[Any]:
        """Yield symbolic descriptions: ('leaf',) | ('none',) | (kindname, [child descr...])"""
        if shape == ():
            for c in self.childless:
                yield (c,)
            return
        n = len(shape)
        child_opts = [list(self._assignments(s)) for s in shape]
        for k in self.kinds:
            if not k.ok(n):
                continue
            for combo in itertools.product(*child_opts):
                yield (k.name, list(combo))

    def descriptions(self, max_nodes: int, min_nodes: int = 1) -> Iterator[Any]:
        for n in range(min_nodes, max_nodes + 1):
            for s in shapes(n):
                yield from self._assignments(s)

    def build(self, descr, counter=None):
        if counter is None:
            counter = itertools.count()
        head = descr[0]
        if head == 'leaf':
            return L(next(counter))
        if head == 'none':
            return None
        if head == 'empty_tuple':
            return ()
        if head == 'empty_dict':
            return {}
        if head == 'empty_list':
            return []
        k = KIND_BY_NAME[head]
        return k.make([self.build(c, counter) for c in descr[1]])

    def trees(self, max_nodes: int, limit: int | None = None, min_nodes: int = 1) -> Iterator[tuple]:
        ds = self.descriptions(max_nodes, min_nodes)
        if limit is None:
            for d in ds:
                yield self.build(d), d
            return
        allds = list(ds)
        if len(allds) > limit:
            # keep every tree with <= 3 nodes, sample the rest
            small = [d for d in allds if count_nodes(d) <= 3]
            big = [d for d in allds if count_nodes(d) > 3]
            self.rng.shuffle(big)
            allds = small + big[:max(0, limit - len(small))]
        for d in allds:
            yield self.build(d), d


def count_nodes(d) -> int:
    if len(d) == 1:
        return 1
    return 1 + sum(count_nodes(c) for c in d[1])


def show(d) -> str:
    if len(d) == 1:
        return {'leaf': '*', 'none': 'None', 'empty_tuple': '()', 'empty_dict': '{}', 'empty_list': '[]'}[d[0]]
    return f"{d[0]}({', '.join(show(c) for c in d[1])})"


# ------------------------------------------------------------------------------------------------
# options

def is_leaf_L(x):
    return isinstance(x, L)


def is_leaf_list(x):
    return isinstance(x, (L, list))


def is_leaf_dictlike(x):
    return isinstance(x, (L, dict))


PREDICATES = [None, is_leaf_list, is_leaf_dictlike]
NAMESPACES = ['', NS, NS_OTHER]


def option_grid(predicates=True, namespaces=True):
    for nil in (False, True):
        for ns in (NAMESPACES if namespaces else ['']):
            for pred in (PREDICATES if predicates else [None]):
                yield {'none_is_leaf': nil, 'namespace': ns, 'is_leaf': pred}


def opt_repr(o) -> str:
    p = o.get('is_leaf')
    return f"nil={o['none_is_leaf']} ns={o['namespace']!r} is_leaf={p.__name__ if p else None}"


# ------------------------------------------------------------------------------------------------
# reference structural equality (exact types, key order, metadata, leaf identity)

def same_tree(a, b, leaf_eq=lambda x, y: x is y) -> bool:
    """Exact structural identity used by the round-trip oracles (independent of optree)."""
    if type(a) is not type(b):
        return False
    if isinstance(a, L) or a is None:
        return leaf_eq(a, b) if isinstance(a, L) else True
    if isinstance(a, (dict,)):   # dict, OrderedDict, defaultdict (exact type equal already)
        if list(a.keys()) != list(b.keys()):
            return False
        if isinstance(a, defaultdict) and a.default_factory is not b.default_factory:
            return False
        return all(same_tree(a[k], b[k], leaf_eq) for k in a)
    if isinstance(a, deque):
        return a.maxlen == b.maxlen and len(a) == len(b) and all(same_tree(x, y, leaf_eq) for x, y in zip(a, b))
    if isinstance(a, (tuple, list)):
        return len(a) == len(b) and all(same_tree(x, y, leaf_eq) for x, y in zip(a, b))
    if isinstance(a, (CustomE, CustomF)):
        return a.meta == b.meta and len(a.children) == len(b.children) and \
            all(same_tree(x, y, leaf_eq) for x, y in zip(a.children, b.children))
    if isinstance(a, CustomN):
        return len(a.children) == len(b.children) and all(same_tree(x, y, leaf_eq) for x, y in zip(a.children, b.children))
    return leaf_eq(a, b)


def spec_state(spec):
    """Abstract view of a treespec: the per-node tuples of __getstate__ (DESIGN.md 1.4)."""
    return spec.__getstate__()
