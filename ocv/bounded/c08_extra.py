"""C08 bounded monitor, part 2: (a) repr() after a repr() that failed: a dict key / custom metadata / default_factory whose
__repr__ raises once makes repr(treespec) raise; the next repr of the same treespec (same thread, another thread) and of a new
treespec must again render the structure in the documented notation (never the re-entrancy placeholder '...');
(b) transform keeps custom path entries: for treespecs with custom nodes that return explicit entries, transform with identity
functions and with leaf replacement keeps paths(), entries(), entry(i) and accessors().  Exhaustive over the listed grid."""
from ocv.bounded._extra import run_core

CORE = r'''
import collections, threading
import optree

NS = 'c08x'
FAIL = {'on': False}
class Key:
    def __init__(self, n): self.n = n
    def __hash__(self): return hash(('Key', self.n))
    def __eq__(self, o): return type(o) is Key and o.n == self.n
    def __lt__(self, o): return self.n < o.n
    def __call__(self): return 0
    def __repr__(self):
        if FAIL['on']:
            raise FAIL['exc']('repr failed')
        return f'Key({self.n})'
class Named:
    """mapping-like custom node with explicit path entries"""
    def __init__(self, **kw): self.kw = dict(kw)
    def __eq__(self, o): return type(o) is Named and o.kw == self.kw
    def __repr__(self): return f'Named({self.kw!r})'
class Meta:
    def __init__(self, *c): self.c = list(c)
for cls, fl, un in ((Named, lambda n: (list(n.kw.values()), tuple(n.kw), tuple(n.kw)), lambda m, c: Named(**dict(zip(m, c)))),
                    (Meta, lambda m: (m.c, Key(9), None), lambda md, c: Meta(*c))):
    try: optree.register_pytree_node(cls, fl, un, namespace=NS)
    except ValueError: pass

def build(kind):
    if kind == 'dict_key': return {Key(1): 1, Key(2): (2, 3)}
    if kind == 'ddict_factory':
        d = collections.defaultdict(Key(5)); d['a'] = 1; return d
    if kind == 'custom_meta': return [Meta(1, 2), 3]
    if kind == 'nested': return ({'x': {Key(1): [1, {Key(2): 2}]}}, 4)
    raise KeyError(kind)

def cases(tier):
    for kind in ('dict_key', 'ddict_factory', 'custom_meta', 'nested'):
        for exc in ('ValueError', 'KeyboardInterrupt', 'RecursionError'):
            for thread in (False, True):
                yield ('repr', kind, exc, thread)
    for shape in range(4):
        for mode in ('identity', 'f_node_only', 'f_leaf_only', 'leaf_to_pair'):
            yield ('transform', shape, mode)

def check(spec):
    bad = []
    if spec[0] == 'repr':
        _, kind, exc, thread = spec
        FAIL['on'] = False
        ts = optree.tree_structure(build(kind), namespace=NS)
        ref = repr(optree.tree_structure(build(kind), namespace=NS))
        FAIL.update(on=True, exc={'ValueError': ValueError, 'KeyboardInterrupt': KeyboardInterrupt, 'RecursionError': RecursionError}[exc])
        raised = None
        try:
            repr(ts)
        except BaseException as e:    # noqa: BLE001
            raised = e
        finally:
            FAIL['on'] = False
        out = {}
        def later():
            out['r'] = repr(ts); out['s'] = str(ts)
        if thread:
            t = threading.Thread(target=later); t.start(); t.join()
        else:
            later()
        if raised is None:
            bad.append(('C08.repr_fault_propagates', f'{kind}: a raising __repr__ inside repr(treespec) did not propagate'))
        if out.get('r') != ref or out.get('s') != ref:
            bad.append(('C08.repr_after_failed_repr', f'{kind}: after a repr() that failed with {exc}, repr(treespec) = {out.get("r")!r}, expected {ref!r}{" [other thread]" if thread else ""}'))
        fresh = repr(optree.tree_structure(build(kind), namespace=NS))
        if fresh != ref:
            bad.append(('C08.repr_after_failed_repr', f'{kind}: a new equal treespec renders as {fresh!r} after the failed repr, expected {ref!r}'))
        return bad
    _, shape, mode = spec
    tree = [Named(b=1, a=(2, 3)), {'k': Named(z=Named(q=4), y=5)}, Named(), (Named(only=6),)][shape]
    ts = optree.tree_structure(tree, namespace=NS)
    ident = lambda s: s
    pair = optree.tree_structure((0, 0))
    if mode == 'identity':
        got, want = ts.transform(ident, ident), ts
    elif mode == 'f_node_only':
        got, want = ts.transform(ident, None), ts
    elif mode == 'f_leaf_only':
        got, want = ts.transform(None, ident), ts
    else:
        got, want = ts.transform(None, lambda s: pair), ts.compose(pair)
    if got != want:
        bad.append(('C08.transform_laws', f'{mode} transform of {ts!r} gives {got!r}, expected {want!r}'))
    if got.paths() != want.paths() or [a.path for a in got.accessors()] != [a.path for a in want.accessors()]:
        bad.append(('C08.transform_keeps_path_entries', f'{mode} transform of {ts!r}: paths {got.paths()!r}, expected {want.paths()!r}'))
    if got.entries() != want.entries() or [c.entries() for c in got.children()] != [c.entries() for c in want.children()]:
        bad.append(('C08.transform_keeps_path_entries', f'{mode} transform of {ts!r}: entries {got.entries()!r} / children entries differ from {want.entries()!r}'))
    return bad
'''


def run(tier, seed):
    return run_core('c08_extra', CORE, tier,
                    scope='4 trees with user __repr__ reachable from repr(treespec) x 3 exception classes x same / other thread; 4 treespecs with '
                          'custom path entries x 4 transform modes',
                    rule='one evaluation = one failed repr followed by reprs that must be unaffected, or one transform compared with its law')
