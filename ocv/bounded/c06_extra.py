"""C06 bounded monitor, part 2: (a) metadata that is equal but not identical (defaultdict default_factory objects with value
equality, deque maxlen beyond the small-int cache, namedtuple classes reached through different references): equal
treespecs must compare equal and hash equally; (b) hash() after a failed hash(): user code that runs inside hash(treespec)
(`__hash__` of a dict key / of a default_factory / of custom metadata) raises once - afterwards hash(treespec) must again equal
the hash of an equal treespec built afresh, in the same and in another thread.  Exhaustive over the listed grid."""
from ocv.bounded._extra import run_core

CORE = r'''
import collections, threading
import optree

class Fac:
    def __init__(self, v): self.v = v
    def __call__(self): return self.v
    def __eq__(self, o): return type(o) is Fac and o.v == self.v
    def __hash__(self): return hash(('Fac', self.v))
    def __repr__(self): return f'Fac({self.v})'

FAIL = {'on': False, 'count': 0}
class Key:
    """hashable key / metadata whose __hash__ can be made to raise"""
    def __init__(self, n): self.n = n
    def __eq__(self, o): return type(o) is Key and o.n == self.n
    def __lt__(self, o): return self.n < o.n
    def __hash__(self):
        if FAIL['on']:
            FAIL['count'] += 1
            raise FAIL['exc']('injected')
        return hash(('Key', self.n))
    def __call__(self): return 0
    def __repr__(self): return f'Key({self.n})'

NS = 'c06x'
class Meta:
    def __init__(self, *c): self.c = list(c)
try:
    optree.register_pytree_node(Meta, lambda m: (m.c, Key(7), None), lambda md, c: Meta(*c), namespace=NS)
except ValueError:
    pass

def build(kind):
    if kind == 'dict_key': return {Key(1): 1, Key(2): (2, 3)}
    if kind == 'odict_key': return collections.OrderedDict([(Key(2), 1), (Key(1), 2)])
    if kind == 'ddict_factory':
        d = collections.defaultdict(Key(5)); d['a'] = 1; return d
    if kind == 'ddict_key':
        d = collections.defaultdict(int); d[Key(3)] = [1]; return d
    if kind == 'custom_meta': return [Meta(1, 2), 3]
    if kind == 'nested': return ({'x': {Key(1): [1, {Key(2): 2}]}}, 4)
    raise KeyError(kind)

def cases(tier):
    for v in (0, 1000, 'x', (1, 2)):
        for wrap in (False, True):
            yield ('factory', v, wrap)
    for kind in ('dict_key', 'odict_key', 'ddict_factory', 'ddict_key', 'custom_meta', 'nested'):
        for exc in ('ValueError', 'KeyboardInterrupt', 'RecursionError', 'MemoryError'):
            for thread in (False, True):
                yield ('fault', kind, exc, thread)

def check(spec):
    bad = []
    if spec[0] == 'factory':
        _, v, wrap = spec
        def mk():
            d = collections.defaultdict(Fac(v)); d['k'] = 1; d['j'] = (2, 3)
            return [d, 0] if wrap else d
        a, b = optree.tree_structure(mk()), optree.tree_structure(mk())
        if not (a == b) or (a != b):
            bad.append(('C06.equal_metadata_means_equal_treespec', f'{a!r} != {b!r} although the default factories are equal ({Fac(v)!r})'))
        elif hash(a) != hash(b):
            bad.append(('C06.eq_implies_hash', f'{a!r} == {b!r} but the hashes differ'))
        c = optree.tree_structure(mk().__class__(mk())) if False else None
        return bad
    _, kind, exc, thread = spec
    FAIL['on'] = False
    tree = build(kind)
    ts = optree.tree_structure(tree, namespace=NS)
    ref = hash(optree.tree_structure(build(kind), namespace=NS))
    FAIL.update(on=True, count=0, exc={'ValueError': ValueError, 'KeyboardInterrupt': KeyboardInterrupt,
                                      'RecursionError': RecursionError, 'MemoryError': MemoryError}[exc])
    raised = None
    try:
        hash(ts)
    except BaseException as e:   # noqa: BLE001
        raised = e
    finally:
        FAIL['on'] = False
    hit = FAIL['count']
    out = {}
    def later():
        try:
            out['h'] = hash(ts)
            out['eq'] = ts == optree.tree_structure(build(kind), namespace=NS)
        except BaseException as e:   # noqa: BLE001
            out['err'] = e
    if thread:
        t = threading.Thread(target=later); t.start(); t.join()
    else:
        later()
    if hit and raised is None:
        bad.append(('C06.hash_fault_propagates', f'{kind}: __hash__ raised {exc} inside hash(treespec) but hash() returned normally'))
    if 'err' in out:
        bad.append(('C06.hash_after_failed_hash', f'{kind}: after a hash() that failed with {exc}, hash()/== raised {out["err"]!r}'))
    elif out.get('h') != ref or not out.get('eq'):
        bad.append(('C06.hash_after_failed_hash', f'{kind}: after a hash() that failed with {exc} ({hit} faulting __hash__ call(s)), hash(treespec) = {out.get("h")} but an equal treespec built afresh hashes to {ref} (== gives {out.get("eq")}){" [checked from another thread]" if thread else ""}'))
    return bad
'''


def run(tier, seed):
    return run_core('c06_extra', CORE, tier,
                    scope='4 factory values x bare / nested; 6 trees with user __hash__ reachable from hash(treespec) x 4 exception classes x same / other thread',
                    rule='one evaluation = two separately built equal treespecs compared, or one failed hash() followed by a hash() that must be unaffected')
