"""C10 bounded monitor, part 2: tree_transpose_map / _with_path / _with_accessor with a *given* inner_treespec (matching,
mismatching, without leaves) and with the inferred one, over outer trees with and without leaves, in the global and in a custom
namespace (a custom node registered only there as the result of the mapped function).  Oracle: the statement of C10 itself -
the call equals tree_transpose(outer, inner, tree_map*(f, tree)) in value or in raising ValueError ("empty structures raise").
Exhaustive over the listed grid."""
from ocv.bounded._extra import run_core

CORE = r'''
import optree

NS = 'c10x'
class Pair:
    def __init__(self, a, b): self.a, self.b = a, b
    def __eq__(self, o): return type(o) is Pair and (o.a, o.b) == (self.a, self.b)
    def __repr__(self): return f'Pair({self.a!r}, {self.b!r})'
try:
    optree.register_pytree_node(Pair, lambda p: ((p.a, p.b), None, ('a', 'b')), lambda m, c: Pair(*c), namespace=NS)
except ValueError:
    pass

OUTERS = {'list2': lambda: [1, 2], 'dict1': lambda: {'k': 1}, 'nested': lambda: ([1], {'z': 2}), 'leaf': lambda: 5,
          'empty_tuple': lambda: (), 'empty_nested': lambda: [(), {}], 'none': lambda: None}
RESULTS = {'pair': lambda x: (x, -x), 'dict': lambda x: {'p': x, 'q': [x]}, 'leaf': lambda x: x * 10, 'empty': lambda x: (),
           'nested_empty': lambda x: {'e': ()}, 'custom': lambda x: Pair(x, x + 1), 'none': lambda x: None}
GIVEN = {'inferred': None, 'pair': lambda kw: optree.tree_structure((0, 0), **kw), 'dict': lambda kw: optree.tree_structure({'p': 0, 'q': [0]}, **kw),
         'leaf': lambda kw: optree.tree_structure(0, **kw), 'empty': lambda kw: optree.tree_structure((), **kw),
         'nested_empty': lambda kw: optree.tree_structure({'e': ()}, **kw), 'none': lambda kw: optree.tree_structure(None, **kw),
         'custom': lambda kw: optree.tree_structure(Pair(0, 0), **kw)}
VARIANTS = ('tree_transpose_map', 'tree_transpose_map_with_path', 'tree_transpose_map_with_accessor')

def cases(tier):
    for v in VARIANTS:
        for o in OUTERS:
            for r in RESULTS:
                for g in GIVEN:
                    for ns in ('', NS):
                        for nil in (False, True):
                            yield (v, o, r, g, ns, nil)

def outcome(f):
    try:
        return ('ok', f())
    except ValueError:
        return ('exc', 'ValueError')
    except Exception as e:
        return ('exc', type(e).__name__)

def check(spec):
    v, o, r, g, ns, nil = spec
    kw = dict(none_is_leaf=nil, namespace=ns)
    tree = OUTERS[o]()
    fr = RESULTS[r]
    given = GIVEN[g](kw) if GIVEN[g] is not None else None
    if v == 'tree_transpose_map':
        f = fr
        mapped = lambda: optree.tree_map(f, tree, **kw)
    else:
        f = lambda p, x: fr(x)
        mapped = lambda: getattr(optree, v.replace('transpose_map', 'map'))(f, tree, **kw)
    got = outcome(lambda: getattr(optree, v)(f, tree, inner_treespec=given, **kw))
    def reference():
        # written from the statement of C10: inner = the given structure or that of the first result; every result is matched
        # against it; value at (inner j, outer i) = j-th matched part of the i-th result; structures without leaves raise
        outer = optree.tree_structure(tree, **kw)
        leaves = optree.tree_leaves(tree, **kw)
        if not leaves:
            raise ValueError('outer structure without leaves')
        results = [fr(x) for x in leaves]
        inner = given if given is not None else optree.tree_structure(results[0], **kw)
        if inner.num_leaves == 0:
            raise ValueError('inner structure without leaves')
        cols = [inner.flatten_up_to(res) for res in results]          # ValueError when a result does not match
        value = inner.unflatten([outer.unflatten([cols[i][j] for i in range(len(leaves))]) for j in range(inner.num_leaves)])
        if all(optree.tree_structure(res, **kw) == inner for res in results):
            other = optree.tree_transpose(outer, inner, mapped())     # "equals transposing tree_map(f, t)"
            if other != value:
                raise AssertionError(f'tree_transpose of the mapped tree gives {other!r}, the definition gives {value!r}')
        return value
    want = outcome(reference)
    if got[0] != want[0] or (got[0] == 'ok' and got[1] != want[1]) or (got[0] == 'exc' and got[1] != want[1]
                                                                        and 'ValueError' in (got[1], want[1])):
        return [('C10.transpose_map_equals_transposed_map', f'{v}(f -> {r}, {tree!r}, inner_treespec={g}, none_is_leaf={nil}, namespace={ns!r}) gives {got!r}; '
                 f'the statement of C10 gives {want!r}')]
    return []
'''


def run(tier, seed):
    return run_core('c10_extra', CORE, tier,
                    scope='3 variants x 7 outer trees x 7 result shapes x 8 choices of inner_treespec (inferred, matching, mismatching, without '
                          'leaves, custom) x 2 namespaces x none_is_leaf',
                    rule='one evaluation = the map variant compared (value, or ValueError) with tree_transpose of the separately mapped tree')
