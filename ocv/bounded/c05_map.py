"""C05 bounded monitor: the tree_map family calls the function once per leaf, in order, on aligned arguments.

Oracle (from the statement): a recording function observes every call; expected call i is
(extra_i, leaf_i(t), sub_i(rest_1), ...) where leaf_i / path_i are the i-th leaf / path of t in flatten order and
sub_i(rest) is found by following path_i inside `rest` with plain container access (reference expansion);
the result has t's structure with the returned values as leaves; underscore variants return t itself; rests that
are not suffixes (one local edit of a suffix) raise ValueError before any call; PyTreeSpec.traverse / walk call the
leaf function in leaf order and the node function once per internal node after its children; functor laws.
"""
from __future__ import annotations

import collections
import dataclasses
import functools
import itertools
from collections import OrderedDict, defaultdict, deque, namedtuple

import optree
from ocv.bounded import _util_a as U
from ocv.bounded import scope as S
from ocv.bounded._util_a import ids_equal, kw, mode, ref_expand, ref_sorted_keys, ref_walk, same_tree, tree_diff  # noqa: F401

PROP = 'C05'
Point2 = namedtuple('Point2', ['x', 'y'])      # another namedtuple class with the arity of S.Point

MAPS = ['tree_map', 'tree_map_', 'tree_map_with_path', 'tree_map_with_path_', 'tree_map_with_accessor', 'tree_map_with_accessor_']


# ---- functions pasted into replay scripts --------------------------------------------------------

def rebuild(x, o, repl, variant=0, edit=None, path=()):
    """Copy of `x` (as seen under options `o`) with the leaf at path p replaced by repl[p].

    variant: 0 same containers; 1 dict kinds rotated (dict->OrderedDict->defaultdict->dict), other deque maxlen;
             2 reversed insertion order of all dict kinds (same key sets).
    edit = (path, kind-of-edit): one local edit making the result a non-suffix (returns ... unchanged if inapplicable).
    """
    e = ref_expand(x, o)
    if e is None:
        return repl[path]
    ed = edit[1] if edit is not None and edit[0] == path else None
    if ed == 'leaf':
        return S.L(-7)                                   # a leaf where t has an internal node
    ch = {entry: rebuild(c, o, repl, variant, edit, path + (entry,)) for entry, c in e[1]}
    t, kind = type(x), e[0]
    extra = S.L(-8)
    if x is None:
        return None
    if kind in ('tuple', 'list', 'deque'):
        xs = [ch[i] for i in range(len(x))]
        if ed == 'longer':
            xs.append(extra)
        if ed == 'shorter' and xs:
            xs.pop()
        if ed == 'type':
            return tuple(xs) if t is not tuple else list(xs)
        if t is deque:
            return deque(xs, maxlen=(len(xs) + 2 if variant == 1 else x.maxlen))
        return t(xs)
    if kind in ('dict', 'OrderedDict', 'defaultdict'):
        keys = list(x)[::-1] if variant == 2 else list(x)
        items = [(k, ch[k]) for k in keys]
        if ed == 'longer':
            items.append(('__extra__', extra))
        if ed == 'shorter' and items:
            items.pop()
        if ed == 'rename' and items:
            items[0] = (('renamed', items[0][0]), items[0][1])
        if ed == 'type':
            return [v for _, v in items]
        kinds = ['dict', 'OrderedDict', 'defaultdict']
        target = kinds[(kinds.index(kind) + 1) % 3] if variant == 1 else kind
        if target == 'dict':
            return dict(items)
        if target == 'OrderedDict':
            return OrderedDict(items)
        return defaultdict(x.default_factory if kind == 'defaultdict' and variant != 1 else int, items)
    if kind in ('namedtuple', 'structseq'):
        xs = [ch[i] for i in range(len(x))]
        if ed == 'type':
            return tuple(xs)
        if ed == 'class' and t is S.Point:
            return Point2(*xs)
        return t(*xs) if kind == 'namedtuple' else t(xs)
    # custom nodes
    name = t.__name__
    if ed == 'type':
        return tuple(ch.values())
    if name in ('CustomE', 'CustomF'):
        xs = [ch[en] for en, _ in e[1]]
        if ed == 'longer':
            xs.append(extra)
        if ed == 'shorter' and xs:
            xs.pop()
        return t(xs, 'other-meta' if ed == 'meta' else x.meta)
    if name in ('CustomN', 'CustomS'):
        xs = [ch[i] for i in range(len(x.children))]
        if ed == 'longer':
            xs.append(extra)
        if ed == 'shorter' and xs:
            xs.pop()
        return t(xs)
    if name == 'DC2':
        return t(ch['x'], ch['y'], 'other-tag' if ed == 'meta' else x.tag)
    if isinstance(x, functools.partial):
        return t(max if ed == 'meta' else x.func, *ch['args'], **ch['keywords'])
    raise TypeError(f'rebuild: {t}')


def follow(rest, path, o):
    """Subtree of `rest` at `path`, by plain one-level access (reference expansion without predicate)."""
    o2 = dict(o, is_leaf=None)
    for entry in path:
        e = ref_expand(rest, o2)
        hits = [c for en, c in (e[1] if e else []) if en == entry and type(en) is type(entry)]
        if len(hits) != 1:
            raise LookupError(f'no child {entry!r} in {rest!r}')
        rest = hits[0]
    return rest


def ref_sig(x, o):
    """Structure signature with the leaves (under `o`) abstracted: types, key order, metadata."""
    e = ref_expand(x, o)
    if e is None:
        return '*'
    meta = e[2]
    if e[0] in ('dict', 'OrderedDict', 'defaultdict'):
        meta = (list(x), getattr(x, 'default_factory', None))          # keys in the container's own order
        return (type(x), meta, tuple(ref_sig(x[k], o) for k in x))
    return (type(x), meta, tuple(ref_sig(c, o) for _, c in e[1]))


def call_map(name, f, tree, rests, o):
    return getattr(optree, name)(f, tree, *rests, is_leaf=o['is_leaf'], none_is_leaf=o['none_is_leaf'], namespace=o['namespace'])


def chk_map(case, o):
    """case = (tree, [rest variants...]) - every map function, recording oracle, suffix rests."""
    tree, variants = case
    out = []
    k = kw(o)
    with mode(o):
        leaves = optree.tree_leaves(tree, **k)
        paths = optree.tree_paths(tree, **k)
        accs = optree.tree_accessors(tree, **k)
        repl_sets = []
        for j, v in enumerate(variants):
            repl = {}
            for i, p in enumerate(paths):      # what replaces leaf i in rest j: a leaf, a tuple of leaves, a dict, None ...
                repl[p] = [S.L(100 * (j + 1) + i), (S.L(100 * (j + 1) + i), [S.L(-1)]), {'q': S.L(100 * (j + 1) + i)}, None][(i + j) % 4]
            repl_sets.append(repl)
        rests = [rebuild(tree, o, repl_sets[j], v) for j, v in enumerate(variants)]
        expected_subs = [[follow(r, p, o) for r in rests] for p in paths]
        for name in MAPS:
            calls = []
            returned = []

            def f(*args):
                calls.append(args)
                returned.append(S.L(5000 + len(calls)))
                return returned[-1]
            res = call_map(name, f, tree, rests, o)
            extra = {'tree_map_with_path': paths, 'tree_map_with_path_': paths,
                     'tree_map_with_accessor': accs, 'tree_map_with_accessor_': accs}.get(name)
            if len(calls) != len(leaves):
                out.append(('C05.call_count', f'{name}: {len(calls)} calls for {len(leaves)} leaves'))
                continue
            for i, args in enumerate(calls):
                exp = ([extra[i]] if extra is not None else []) + [leaves[i]] + expected_subs[i]
                if len(args) != len(exp):
                    out.append(('C05.call_arguments', f'{name}: call {i} got {len(args)} arguments, expected {len(exp)}'))
                    break
                if extra is not None and (args[0] != exp[0] or type(args[0]) is not type(exp[0])):
                    out.append(('C05.call_extra_argument', f'{name}: call {i} first argument {args[0]!r}, expected {exp[0]!r}'))
                    break
                if not ids_equal(args[extra is not None:], exp[extra is not None:]):
                    out.append(('C05.call_arguments', f'{name}: call {i} arguments {args!r}, expected (leaf, aligned subtrees) {exp!r}'))
                    break
            if name.endswith('_'):
                if res is not tree:
                    out.append(('C05.underscore_returns_tree', f'{name} returned {res!r}, not the original tree object'))
            else:
                if ref_sig(res, o) != ref_sig(tree, o):
                    out.append(('C05.result_structure', f'{name} result {res!r} does not have the structure of {tree!r}'))
                elif not ids_equal(ref_walk(res, o)[0], returned):
                    out.append(('C05.result_leaves', f'{name} result {res!r}: leaves are not the returned values {returned!r}'))
    return out


def chk_non_suffix(case, o):
    """case = (tree, edit, position): one rest is a suffix with one local edit -> ValueError before any call."""
    tree, edit, pos = case
    out = []
    k = kw(o)
    with mode(o):
        paths = optree.tree_paths(tree, **k)
        good = rebuild(tree, o, {p: S.L(100 + i) for i, p in enumerate(paths)}, 1)
        bad = rebuild(tree, o, {p: (S.L(200 + i),) for i, p in enumerate(paths)}, 0, edit)
        rests = [[bad], [bad, good], [good, bad], [good, good, bad]][pos]
        for name in MAPS:
            calls = []
            try:
                res = call_map(name, lambda *a: calls.append(a), tree, rests, o)
                out.append(('C05.non_suffix_raises_valueerror', f'{name} with the non-suffix rest {bad!r} (edit {edit!r}) returned {res!r}'))
            except ValueError:
                pass
            except Exception as ex:
                out.append(('C05.non_suffix_raises_valueerror', f'{name} with the non-suffix rest {bad!r} (edit {edit!r}) raised '
                            f'{type(ex).__name__}: {ex}'))
            if calls:
                out.append(('C05.called_before_failure', f'{name}: {len(calls)} calls of f although rest {bad!r} is not a suffix (edit {edit!r})'))
    return out


def chk_laws(tree, o):
    """map(identity) is a structurally identical copy of new containers; map(f.g) == map(f).map(g); traverse/walk order."""
    out = []
    k = kw(o)
    with mode(o):
        ident = optree.tree_map(lambda x: x, tree, **k)
        if tree_diff(tree, ident) or not ids_equal(ref_walk(ident, o)[0], ref_walk(tree, o)[0]):
            out.append(('C05.map_identity_copy', f'tree_map(identity) gave {ident!r} for {tree!r}'))
        else:
            # every mutable internal node is a new container
            stack = [(tree, ident)]
            while stack:
                a, b = stack.pop()
                e, e2 = ref_expand(a, o), ref_expand(b, o)
                if e is None:
                    continue
                if a is b and e[0] not in ('none', 'tuple', 'namedtuple', 'structseq'):
                    out.append(('C05.map_identity_copy', f'tree_map(identity) reuses the container {a!r}'))
                stack += [(c, c2) for (_, c), (_, c2) in zip(e[1], e2[1])]

        def g(x):
            return S.L(('g', repr(x)))

        def f(y):
            return ('f', y.n)
        one = optree.tree_map(lambda x: f(g(x)), tree, **k)
        two = optree.tree_map(f, optree.tree_map(g, tree, **k), **k)
        if tree_diff(one, two, leaf_eq=lambda a, b: a == b):
            out.append(('C05.map_composition', f'map(f.g) = {one!r} but map(f)(map(g)) = {two!r}'))
        # traverse / walk
        leaves, spec = optree.tree_flatten(tree, **k)
        ref_leaves, _, ref_nodes = ref_walk(tree, o)
        if ids_equal(leaves, ref_leaves):
            o_plain = dict(o, is_leaf=None)
            def post(x):
                e = ref_expand(x, o)
                if e is None:
                    return [('leaf', x)]
                return [ev for _, c in e[1] for ev in post(c)] + [('node', x)]
            skeleton = post(tree)                      # expected post-order event skeleton from the reference walk
            for meth in ('traverse', 'walk'):
                events, results = [], []

                def f_leaf(x):
                    events.append(('leaf', x))
                    results.append(S.L(('tok', len(events) - 1)))
                    return results[-1]

                def f_node(*a):
                    events.append(('node', a))
                    # traverse: hand the rebuilt node on (its parent is built from it); walk: a fresh token
                    results.append(a[0] if meth == 'traverse' and len(a) == 1 else S.L(('tok', len(events) - 1)))
                    return results[-1]
                res = getattr(spec, meth)(iter(leaves), f_node, f_leaf)
                if [ev[0] for ev in events] != [ev[0] for ev in skeleton]:
                    out.append(('C05.traverse_order', f'PyTreeSpec.{meth}: event order {[ev[0] for ev in events]!r}, expected '
                                f'(post-order) {[ev[0] for ev in skeleton]!r}'))
                    continue
                stack2 = []
                for n_ev, (ev, sk) in enumerate(zip(events, skeleton)):
                    if ev[0] == 'leaf':
                        if ev[1] is not sk[1]:
                            out.append(('C05.traverse_order', f'PyTreeSpec.{meth}: leaf function got {ev[1]!r}, expected {sk[1]!r}'))
                        stack2.append(n_ev)
                        continue
                    arity = len(ref_expand(sk[1], o)[1])
                    kids = [results[stack2.pop()] for _ in range(arity)][::-1]
                    stack2.append(n_ev)
                    args = ev[1]
                    if meth == 'walk':
                        ok = len(args) == 3 and args[0] is type(sk[1]) and type(args[2]) is tuple and ids_equal(args[2], kids)
                    elif isinstance(sk[1], functools.partial):
                        ok = len(args) == 1 and type(args[0]) is type(sk[1])       # functools.partial re-packs its children
                    else:
                        e3 = ref_expand(args[0], o_plain) if len(args) == 1 else None
                        ok = len(args) == 1 and type(args[0]) is type(sk[1]) and e3 is not None and \
                            sorted(id(c) for _, c in e3[1]) == sorted(id(c) for c in kids)
                    if not ok:
                        out.append(('C05.traverse_node_arguments', f'PyTreeSpec.{meth}: node function call {n_ev} got {args!r} for node '
                                    f'{sk[1]!r}; results of its children: {kids!r}'))
                if not events or res is not results[-1]:
                    out.append(('C05.traverse_order', f'PyTreeSpec.{meth} returned {res!r}, expected the result of the last (root) call'))
            for meth in ('traverse', 'walk'):
                plain = getattr(spec, meth)(leaves)
                if tree_diff(tree, plain):
                    out.append(('C05.traverse_default', f'PyTreeSpec.{meth}(leaves) without functions gave {plain!r} for {tree!r}'))
    return out


FN_SRC = None


def fn_src():
    global FN_SRC
    if FN_SRC is None:
        FN_SRC = ("from collections import namedtuple\nPoint2 = namedtuple('Point2', ['x', 'y'])\n"
                  f'MAPS = {MAPS!r}\n' + U.ref_src()
                  + U.SRC(tree_diff, same_tree, rebuild, follow, ref_sig, call_map, chk_map, chk_non_suffix, chk_laws))
    return FN_SRC


# ---- scope ---------------------------------------------------------------------------------------

EDITS = ['leaf', 'longer', 'shorter', 'type', 'rename', 'class', 'meta']
REST_COMBOS = [[], [0], [1], [2], [0, 1], [2, 1], [1, 2, 0]]


def applicable_edits(tree, o):
    """(path, edit) pairs that really change the structure at an internal node of tree."""
    _, _, nodes = ref_walk(tree, o)
    for path, kind, obj in nodes:
        under_partial = bool(path) and isinstance(follow(tree, path[:-1], o), functools.partial)
        for ed in EDITS:
            if under_partial and ed not in ('longer', 'shorter'):
                continue      # functools.partial always re-packs args/keywords as tuple/dict: other edits cannot be built
            if kind == 'none' and ed != 'leaf':
                continue
            if ed == 'rename' and not (kind in ('dict', 'OrderedDict', 'defaultdict') and len(obj)):
                continue
            if ed == 'class' and type(obj) is not S.Point:
                continue
            if ed == 'meta' and not (kind == 'custom' and type(obj).__name__ in ('CustomE', 'CustomF', 'DC2', 'partial')):
                continue
            if ed == 'shorter' and (len(ref_expand(obj, o)[1]) == 0 or kind in ('namedtuple', 'structseq')
                                    or type(obj).__name__ in ('DC2', 'partial')):
                continue
            if ed == 'longer' and (kind in ('namedtuple', 'structseq') or type(obj).__name__ in ('DC2', 'partial')):
                continue
            yield (path, ed)


def case_src(case):
    if len(case) == 2:
        return f'({U.to_src(case[0])}, {case[1]!r})'
    path = '(' + ''.join(U.key_src(p) + ', ' for p in case[1][0]) + ')'
    return f'({U.to_src(case[0])}, ({path}, {case[1][1]!r}), {case[2]})'


def run(tier: str, seed: int):
    col = U.Collector('C05 bounded: recording oracle for the tree_map family, traverse/walk, functor laws')
    src = fn_src()
    if tier == 'quick':
        g, ds, txt = U.universe(tier, seed, U.EXT, quick_nodes=4, quick_limit=1200)
    else:
        g, ds, txt = U.universe(tier, seed, U.EXT, thorough_nodes=3)
        ds += U.random_descrs(seed, U.EXT, 4, 7000) + U.random_descrs(seed, U.EXT, 5, 4000) + U.random_descrs(seed, U.EXT, 6, 2000) \
            + U.random_descrs(seed, U.EXT, 7, 1200)
        txt += '; 7000/4000/2000/1200 seeded random 4/5/6/7-node trees'
    rng = __import__('random').Random(seed)
    nbad = 0
    for i, d in enumerate(ds):
        tree = g.build(d)
        ks = U.kinds_in(d)
        has_dict = bool(ks & (U.DICT_KINDS | {'partial', 'partial_kw'}))
        has_partial = bool(ks & {'partial', 'partial_kw'})
        nontrivial = S.count_nodes(d) > 1
        for o in U.grid(ins_modes=(False, True) if has_dict else (False,)):
            if has_partial and o['is_leaf'] is S.is_leaf_dictlike:
                continue          # see C01 notes: functools.partial copies/type-checks its keywords dict
            tag = f'tree {S.show(d)} [{U.opt_repr(o)}]'
            U.run_checks(col, PROP, [chk_laws], src, tree, lambda tree=tree: U.to_src(tree), o, tag)
            small = S.count_nodes(d) <= 3
            if tier == 'quick':       # full rest combinations without predicate, one combination otherwise
                combos = [[], [1], [2, 1], [1, 2, 0]] if small and o['is_leaf'] is None else \
                    [REST_COMBOS[(i + len(o['namespace'])) % len(REST_COMBOS)]]
            elif small:
                combos = REST_COMBOS if o['is_leaf'] is None else [[], [1], [1, 2, 0]]
            else:
                combos = [REST_COMBOS[(i + len(o['namespace'])) % len(REST_COMBOS)], [1, 2]]
            for combo in combos:
                case = (tree, combo)
                U.run_checks(col, PROP, [chk_map], src, case, lambda case=case: case_src(case), o, f'{tag} rest variants {combo}')
            edits = list(applicable_edits(tree, o)) if not (o['ins'] and tier == 'quick') else []
            cap = 3 if tier != 'quick' else 2
            if (not small or tier == 'quick' and o['is_leaf'] is not None) and len(edits) > cap:
                edits = rng.sample(edits, cap)
            for n_e, edit in enumerate(edits):
                case = (tree, edit, (i + n_e) % 4)
                nbad += 1
                U.run_checks(col, PROP, [chk_non_suffix], src, case, lambda case=case: case_src(case), o, f'{tag} near-miss {edit!r}')
            if nontrivial:
                col.nontrivial((S.show(d), U.opt_repr(o)))
        if i % 701 == 29:
            col.sample(f'{tree!r}: rests {[rebuild(tree, dict(o, is_leaf=None), {p: S.L(9) for p in optree.tree_paths(tree, **kw(dict(o, is_leaf=None)))}, v) for v in (1, 2)]!r}')
    return col.done(
        rule='non-trivial = tree with at least one internal node; counted per distinct (tree description, options)',
        scope=f'{txt}; kinds {U.EXT}; x none_is_leaf x namespace in {S.NAMESPACES} x is_leaf in [None, is_leaf_list, '
              f'is_leaf_dictlike] x dict-order mode; per (tree, options): 6 map functions x rest combinations {REST_COMBOS} of '
              f'suffix variants (0 same containers, 1 dict kinds rotated + other deque maxlen, 2 reversed key order; leaves '
              f'replaced by leaf / tuple / dict / None) and {nbad} near-miss cases in total (one edit from {EDITS} at one '
              f'internal node, bad rest at positions first/last among 1..3 rests); traverse/walk with recording functions',
        exhaustive=False,
        notes='flatten order / paths of t are taken from tree_leaves/tree_paths (their correctness is C02/C04); the traverse/walk '
              'check is skipped for inputs whose flatten order deviates from the reference (C02); trees holding an '
              'optree.functools.partial are not evaluated under is_leaf_dictlike (see C01 notes).',
    )
