"""C04 bounded monitor, part 2: (a) trees that contain non-root subtrees without any leaf but with two or more nodes
(`[()]`, `[[], None]`, `{'k': ((),)}` ...) next to real leaves: paths / accessors must still address exactly the leaves;
(b) equality and hash of path entries and accessors are consistent (a == b implies hash(a) == hash(b), set/dict lookups work)
over a pool of entries of every entry class with coinciding (entry, type, kind).  Exhaustive over the listed pools."""
from ocv.bounded._extra import run_core

CORE = r'''
import collections, itertools
import optree
from optree import accessor as A

EMPTIES = [lambda: (), lambda: [()], lambda: [[], None], lambda: ((), ((),)), lambda: {'k': ((),)}, lambda: [None, [None]],
           lambda: collections.deque([[]]), lambda: collections.OrderedDict(z=[()]), lambda: None]

def trees():
    for i, e in enumerate(EMPTIES):
        for j, f in enumerate(EMPTIES):
            yield (i, j)

def build(i, j):
    x, y, z = object(), object(), object()
    return ([EMPTIES[i](), x, (EMPTIES[j](), y), {'b': EMPTIES[i](), 'a': z, 'c': [EMPTIES[j]()]}], [x, y, z])

ENTRY_CLASSES = ['PyTreeEntry', 'GetItemEntry', 'GetAttrEntry', 'FlattenedEntry', 'AutoEntry', 'SequenceEntry', 'MappingEntry',
                 'NamedTupleEntry', 'StructSequenceEntry', 'DataclassEntry']

def entry_pool():
    pool = []
    for cn in ENTRY_CLASSES:
        cls = getattr(A, cn, None)
        if cls is None: continue
        for entry, typ, kind in ((0, list, optree.PyTreeKind.LIST), (0, tuple, optree.PyTreeKind.TUPLE), ('a', dict, optree.PyTreeKind.DICT),
                                 (1, list, optree.PyTreeKind.LIST), (0, list, optree.PyTreeKind.CUSTOM)):
            try:
                pool.append(cls(entry, typ, kind))
            except Exception:
                pass
    return pool

def sr(x):
    try:
        return repr(x)
    except Exception as e:
        return f'<{type(x).__name__} entry={getattr(x, "entry", None)!r} (repr raised {type(e).__name__})>'

def cases(tier):
    for ij in trees():
        for nil in (False, True):
            yield ('tree', ij, nil)
    yield ('eqhash', 'entries')
    yield ('eqhash', 'accessors')

def check(spec):
    bad = []
    if spec[0] == 'tree':
        _, (i, j), nil = spec
        tree, want = build(i, j)
        want = [w for w in optree.tree_leaves(tree, none_is_leaf=nil)]   # leaves (incl. None when none_is_leaf)
        try:
            accs, leaves, ts = optree.tree_flatten_with_accessor(tree, none_is_leaf=nil)
            paths = optree.tree_paths(tree, none_is_leaf=nil)
            accs2 = optree.tree_accessors(tree, none_is_leaf=nil)
            accs3 = ts.accessors()
        except Exception as e:
            return [('C04.accessors_exist_for_every_valid_tree', f'accessor API raised {type(e).__name__}: {e} for the valid tree {tree!r} (none_is_leaf={nil})')]
        if not (len(accs) == len(leaves) == len(paths) == len(want)):
            bad.append(('C04.one_accessor_per_leaf', f'{len(accs)} accessors / {len(paths)} paths for {len(want)} leaves of {tree!r}'))
            return bad
        for k, (a, p, leaf) in enumerate(zip(accs, paths, want)):
            try:
                got = a(tree)
            except Exception as e:
                bad.append(('C04.accessor_returns_its_leaf', f'accessor #{k} {a!r} raised {type(e).__name__} on {tree!r}')); continue
            if got is not leaf:
                bad.append(('C04.accessor_returns_its_leaf', f'accessor #{k} {a!r} returns {got!r}, leaf #{k} is {leaf!r} in {tree!r}'))
            if a.path != p:
                bad.append(('C04.accessor_path_is_path', f'accessor #{k} path {a.path!r} != tree_paths()[{k}] = {p!r} in {tree!r}'))
        if list(accs) != list(accs2) or list(accs) != list(accs3):
            bad.append(('C04.accessor_apis_agree', f'tree_flatten_with_accessor / tree_accessors / treespec.accessors disagree on {tree!r}'))
        return bad
    if spec[1] == 'entries':
        pool = entry_pool()
    else:
        pool = []
        es = entry_pool()
        for a in es[:12]:
            for b in es[:12]:
                pool.append(A.PyTreeAccessor((a, b)))
        pool += [A.PyTreeAccessor(()), A.PyTreeAccessor((es[0],))]
    for a, b in itertools.product(pool, repeat=2):
        if a == b:
            if hash(a) != hash(b):
                bad.append(('C04.equal_implies_equal_hash', f'{sr(a)} == {sr(b)} but hash differs ({type(a).__name__} vs {type(b).__name__}, entry classes {[type(e).__name__ for e in (a if isinstance(a, tuple) else [a])]} vs {[type(e).__name__ for e in (b if isinstance(b, tuple) else [b])]})'))
            elif b not in {a} or {a: 1}.get(b) != 1:
                bad.append(('C04.equal_implies_equal_hash', f'{sr(a)} == {sr(b)} but set/dict lookup fails'))
        if (a == b) != (b == a):
            bad.append(('C04.equality_symmetric', f'{sr(a)} == {sr(b)} is {a == b} but reversed {b == a}'))
        if (a != b) == (a == b):
            bad.append(('C04.ne_is_not_eq', f'{sr(a)} != {sr(b)} inconsistent with =='))
    return bad[:12]
'''


def run(tier, seed):
    return run_core('c04_extra', CORE, tier,
                    scope='81 trees with leaf-less multi-node subtrees at three positions x none_is_leaf; all ordered pairs of a pool of '
                          'path entries (10 classes x 5 payloads) and of 146 accessors',
                    rule='one evaluation = one tree (every accessor applied) or one whole pool of pairs')
