"""C04 bounded monitor, part 2: (a) trees that contain non-root subtrees without any leaf but with two or more nodes
(`[()]`, `[[], None]`, `{'k': ((),)}` ...) next to real leaves: paths / accessors must still address exactly the leaves;
(b) equality and hash of path entries and accessors are consistent (a == b implies hash(a) == hash(b), set/dict lookups work)
over a pool of entries of every entry class with coinciding (entry, type, kind); (c) wide positional nodes (300 / 1200
children - indices beyond the small-integer cache), each run in a child interpreter so that a crash is a finding; (d) several
namedtuple / struct-sequence classes that share module and name but not their fields, in every order of first use;
(e) every way to register a class with register_pytree_node_class / register_pytree_node x every way to state the path entry
class (argument, TREE_PATH_ENTRY_TYPE, default): the accessors of a tree with such a node use that class and fetch the leaves;
(f) DataclassEntry with integer entries over stdlib dataclasses with init=False fields before / between / after the children.
Exhaustive over the listed pools."""
from ocv.bounded._extra import run_core

CORE = r'''
import collections, itertools
import optree
from optree import accessor as A

EMPTIES = [lambda: (), lambda: [()], lambda: [[], None], lambda: ((), ((),)), lambda: {'k': ((),)}, lambda: [None, [None]],
           lambda: collections.deque([[]]), lambda: collections.OrderedDict(z=[()]), lambda: None]

def trees():
    for i, e in enumerate(EMPTIES):
        for j, f in enumerate(EMPTIES):
            yield (i, j)

def build(i, j):
    x, y, z = object(), object(), object()
    return ([EMPTIES[i](), x, (EMPTIES[j](), y), {'b': EMPTIES[i](), 'a': z, 'c': [EMPTIES[j]()]}], [x, y, z])

ENTRY_CLASSES = ['PyTreeEntry', 'GetItemEntry', 'GetAttrEntry', 'FlattenedEntry', 'AutoEntry', 'SequenceEntry', 'MappingEntry',
                 'NamedTupleEntry', 'StructSequenceEntry', 'DataclassEntry']

def entry_pool():
    pool = []
    for cn in ENTRY_CLASSES:
        cls = getattr(A, cn, None)
        if cls is None: continue
        for entry, typ, kind in ((0, list, optree.PyTreeKind.LIST), (0, tuple, optree.PyTreeKind.TUPLE), ('a', dict, optree.PyTreeKind.DICT),
                                 (1, list, optree.PyTreeKind.LIST), (0, list, optree.PyTreeKind.CUSTOM)):
            try:
                pool.append(cls(entry, typ, kind))
            except Exception:
                pass
    return pool

def sr(x):
    try:
        return repr(x)
    except Exception as e:
        return f'<{type(x).__name__} entry={getattr(x, "entry", None)!r} (repr raised {type(e).__name__})>'

WIDE_SRC = """
import sys, collections, optree
kind, n, nil = sys.argv[1], int(sys.argv[2]), sys.argv[3] == '1'
xs = [object() for _ in range(n)]
NT = collections.namedtuple('NT', [f'f{i}' for i in range(n)]) if kind == 'namedtuple' else None
tree = {'list': lambda: list(xs), 'tuple': lambda: tuple(xs), 'deque': lambda: collections.deque(xs), 'namedtuple': lambda: NT(*xs),
        'nested': lambda: [tuple(xs), list(xs)]}[kind]()
paths, leaves, ts = optree.tree_flatten_with_path(tree, none_is_leaf=nil)
accs = optree.tree_accessors(tree, none_is_leaf=nil)
bad = []
if not (len(paths) == len(leaves) == len(accs) == ts.num_leaves): bad.append('lengths differ')
for k, (p, a, leaf) in enumerate(zip(paths, accs, leaves)):
    if a(tree) is not leaf: bad.append(f'accessor {k} does not return leaf {k}')
    if tuple(a.path) != tuple(p): bad.append(f'path {k} is {p!r}, accessor path {a.path!r}')
    want = (k,) if kind != 'nested' else (k // n, k % n)
    if tuple(p) != want or not all(type(e) is int for e in p): bad.append(f'path {k} is {p!r}, expected {want!r}')
    if len(bad) > 3: break
if optree.tree_paths(tree, none_is_leaf=nil) != paths: bad.append('tree_paths differs from tree_flatten_with_path')
if ts.paths() != paths: bad.append('treespec.paths() differs from tree_flatten_with_path')
got = []
optree.tree_map_with_path(lambda p, x: got.append(p), tree, none_is_leaf=nil)
if got != paths: bad.append('tree_map_with_path passes other paths')
print('; '.join(bad)); sys.exit(1 if bad else 0)
"""

def wide(kind, n, nil):
    import subprocess, sys, os
    r = subprocess.run([sys.executable, '-c', WIDE_SRC, kind, str(n), '1' if nil else '0'], capture_output=True, text=True,
                       env=dict(os.environ, PYTHONPATH=os.pathsep.join(sys.path)), cwd='/', timeout=300)
    if r.returncode == 0:
        return []
    what = r.stdout.strip()[:300] if r.returncode == 1 else f'child interpreter died with status {r.returncode}: {r.stderr.strip()[-200:]}'
    return [('C04.path_entry_is_the_child_index_for_wide_nodes', f'{kind} with {n} children (none_is_leaf={nil}): {what}')]

def same_name_classes(order, how):
    """several namedtuple classes called Row in one module, with different fields; `how` resolves the fields first"""
    bad = []
    classes = {'ab': collections.namedtuple('Row', ['a', 'b']), 'xyz': collections.namedtuple('Row', ['x', 'y', 'z']),
               'ba': collections.namedtuple('Row', ['b', 'a'])}
    for nm in order:
        cls = classes[nm]
        inst = cls(*[object() for _ in cls._fields])
        tree = {'k': [inst]}
        accs, leaves, ts = optree.tree_flatten_with_accessor(tree)
        for i, (a, leaf) in enumerate(zip(accs, leaves)):
            e = a[-1]
            try:
                if how == 'field': got = e.field
                elif how == 'repr': repr(a); got = e.field
                else: a.codify('t'); got = e.field
            except Exception as ex:
                bad.append(('C04.namedtuple_entry_has_the_right_field_name', f'class Row{cls._fields!r} used after {order!r}: entry {i} raised {type(ex).__name__}: {ex}'))
                continue
            if got != cls._fields[i] or e.fields != cls._fields:
                bad.append(('C04.namedtuple_entry_has_the_right_field_name', f'class Row{cls._fields!r} used after {order!r}: entry {i} reports field {got!r} of {e.fields!r}, the class has {cls._fields!r}'))
            try:
                val = eval(a.codify('t'), {'t': tree})
                ok = val is leaf
            except Exception as ex:
                ok, val = False, f'{type(ex).__name__}: {ex}'
            if not ok:
                bad.append(('C04.codify_evaluates_to_the_leaf', f'class Row{cls._fields!r} used after {order!r}: {a.codify("t")} evaluates to {val!r}, not to leaf {i}'))
    return bad

_reg_counter = [0]
REG_FORMS = ('deco_positional_ns', 'deco_keyword_ns', 'deco_none_then_kw', 'direct_call', 'register_pytree_node')
PET_FORMS = ('argument', 'class_attribute', 'default')

def registration_case(form, pet_form, entry_cls_name):
    import optree.registry as R
    bad = []
    _reg_counter[0] += 1
    ns = f'c04reg{_reg_counter[0]}'
    X = getattr(A, entry_cls_name)
    body = {'__init__': lambda self, first, second: (setattr(self, 'first', first), setattr(self, 'second', second)) and None,
            'tree_flatten': lambda self: ((self.first, self.second), None, ('first', 'second')),
            'tree_unflatten': classmethod(lambda cls, md, ch: cls(*ch)),
            '__getitem__': lambda self, k: getattr(self, k)}
    if pet_form == 'class_attribute':
        body['TREE_PATH_ENTRY_TYPE'] = X
    C = type(f'Reg{_reg_counter[0]}', (), body)
    kw = {'path_entry_type': X} if pet_form == 'argument' else {}
    want = X if pet_form != 'default' else A.AutoEntry
    if form == 'deco_positional_ns':
        C = optree.register_pytree_node_class(ns, **kw)(C)
    elif form == 'deco_keyword_ns':
        C = optree.register_pytree_node_class(namespace=ns, **kw)(C)
    elif form == 'deco_none_then_kw':
        C = optree.register_pytree_node_class(None, namespace=ns, **kw)(C)
    elif form == 'direct_call':
        C = optree.register_pytree_node_class(C, namespace=ns, **kw)
    else:
        pet = X if pet_form != 'default' else None
        if pet_form == 'default':
            optree.register_pytree_node(C, lambda o: o.tree_flatten(), C.tree_unflatten, namespace=ns)
        else:
            optree.register_pytree_node(C, lambda o: o.tree_flatten(), C.tree_unflatten, path_entry_type=X, namespace=ns)
    x, y = object(), object()
    tree = {'k': [C(x, y)]}
    what = f'class registered via {form} with path entry class {entry_cls_name} given as {pet_form}'
    accs, leaves, ts = optree.tree_flatten_with_accessor(tree, namespace=ns)
    if [id(l) for l in leaves] != [id(x), id(y)]:
        return [('C04.registered_path_entry_class_is_used', f'{what}: leaves {leaves!r}')]
    for a, leaf, nm in zip(accs, leaves, ('first', 'second')):
        e = a[-1]
        if want is not A.AutoEntry and type(e) is not want:
            bad.append(('C04.registered_path_entry_class_is_used', f'{what}: the entry of child {nm} is a {type(e).__name__}, not a {want.__name__}'))
        if e.entry != nm or a.path[-1] != nm:
            bad.append(('C04.registered_path_entry_class_is_used', f'{what}: entry {e.entry!r} / path {a.path!r} for child {nm}'))
        if want in (A.GetAttrEntry, A.GetItemEntry):
            try:
                ok = a(tree) is leaf
                val = None
            except Exception as ex:
                ok, val = False, f'{type(ex).__name__}: {ex}'
            if not ok:
                bad.append(('C04.registered_path_entry_class_is_used', f'{what}: accessor {a!r} does not fetch child {nm} ({val})'))
            try:
                ok = eval(a.codify('t'), {'t': tree}) is leaf
            except Exception as ex:
                ok = False
            if not ok:
                bad.append(('C04.codify_evaluates_to_the_leaf', f'{what}: {a.codify("t")!r} does not evaluate to child {nm}'))
    return bad

def dataclass_int_entries(layout, nil):
    """stdlib dataclass registered as a custom node WITHOUT entries (children are addressed 0..n-1) and path entry class
    DataclassEntry: integer entry i means the i-th init field"""
    import dataclasses as dc
    bad = []
    _reg_counter[0] += 1
    ns = f'c04dc{_reg_counter[0]}'
    fields = []
    for i, kind in enumerate(layout):
        fields.append((f'f{i}', object, dc.field(default=None, init=(kind == 'c'))))
    C = dc.make_dataclass(f'DC{_reg_counter[0]}', fields)
    child_names = [f'f{i}' for i, kind in enumerate(layout) if kind == 'c']
    optree.register_pytree_node(C, lambda o: (tuple(getattr(o, n) for n in child_names), None), lambda md, ch: C(**dict(zip(child_names, ch))),
                                path_entry_type=A.DataclassEntry, namespace=ns)
    vals = {n: object() for n in child_names}
    inst = C(**vals)
    for i, kind in enumerate(layout):
        if kind != 'c':
            object.__setattr__(inst, f'f{i}', ('not a leaf', i))
    tree = {'k': inst}
    accs, leaves, ts = optree.tree_flatten_with_accessor(tree, namespace=ns, none_is_leaf=nil)
    for k, (a, leaf, nm) in enumerate(zip(accs, leaves, child_names)):
        what = f'dataclass with fields {layout!r} (c = init child, x = init=False): accessor {k}'
        try:
            got = a(tree)
        except Exception as ex:
            bad.append(('C04.dataclass_integer_entry_addresses_the_init_field', f'{what} raised {type(ex).__name__}: {ex}')); continue
        if got is not leaf or a[-1].field != nm:
            bad.append(('C04.dataclass_integer_entry_addresses_the_init_field', f'{what} names field {a[-1].field!r} and fetches {got!r}; child {k} is field {nm}'))
        try:
            ok = eval(a.codify('t'), {'t': tree}) is leaf
        except Exception:
            ok = False
        if not ok:
            bad.append(('C04.codify_evaluates_to_the_leaf', f'{what}: {a.codify("t")!r} does not evaluate to the leaf'))
    return bad

DC_LAYOUTS = [('c', 'c'), ('x', 'c', 'c'), ('c', 'x', 'c'), ('c', 'c', 'x'), ('x', 'x', 'c'), ('x', 'c', 'x', 'c')]

def cases(tier):
    for form in REG_FORMS:
        for pet_form in PET_FORMS:
            for ecn in ('GetAttrEntry', 'GetItemEntry', 'FlattenedEntry'):
                yield ('registration', form, pet_form, ecn)
    for layout in DC_LAYOUTS:
        for nil in (False, True):
            yield ('dcint', layout, nil)
    for kind in ('list', 'tuple', 'deque', 'namedtuple', 'nested'):
        for n in (300, 1200):
            if kind == 'namedtuple' and n > 300: continue
            for nil in (False, True):
                yield ('wide', kind, n, nil)
    for order in itertools.permutations(('ab', 'xyz', 'ba')):
        for how in ('field', 'repr', 'codify'):
            yield ('samename', order, how)
    for ij in trees():
        for nil in (False, True):
            yield ('tree', ij, nil)
    yield ('eqhash', 'entries')
    yield ('eqhash', 'accessors')

def check(spec):
    bad = []
    if spec[0] == 'registration':
        return registration_case(*spec[1:])
    if spec[0] == 'dcint':
        return dataclass_int_entries(*spec[1:])
    if spec[0] == 'wide':
        return wide(*spec[1:])
    if spec[0] == 'samename':
        return same_name_classes(spec[1], spec[2])
    if spec[0] == 'tree':
        _, (i, j), nil = spec
        tree, want = build(i, j)
        want = [w for w in optree.tree_leaves(tree, none_is_leaf=nil)]   # leaves (incl. None when none_is_leaf)
        try:
            accs, leaves, ts = optree.tree_flatten_with_accessor(tree, none_is_leaf=nil)
            paths = optree.tree_paths(tree, none_is_leaf=nil)
            accs2 = optree.tree_accessors(tree, none_is_leaf=nil)
            accs3 = ts.accessors()
        except Exception as e:
            return [('C04.accessors_exist_for_every_valid_tree', f'accessor API raised {type(e).__name__}: {e} for the valid tree {tree!r} (none_is_leaf={nil})')]
        if not (len(accs) == len(leaves) == len(paths) == len(want)):
            bad.append(('C04.one_accessor_per_leaf', f'{len(accs)} accessors / {len(paths)} paths for {len(want)} leaves of {tree!r}'))
            return bad
        for k, (a, p, leaf) in enumerate(zip(accs, paths, want)):
            try:
                got = a(tree)
            except Exception as e:
                bad.append(('C04.accessor_returns_its_leaf', f'accessor #{k} {a!r} raised {type(e).__name__} on {tree!r}')); continue
            if got is not leaf:
                bad.append(('C04.accessor_returns_its_leaf', f'accessor #{k} {a!r} returns {got!r}, leaf #{k} is {leaf!r} in {tree!r}'))
            if a.path != p:
                bad.append(('C04.accessor_path_is_path', f'accessor #{k} path {a.path!r} != tree_paths()[{k}] = {p!r} in {tree!r}'))
        if list(accs) != list(accs2) or list(accs) != list(accs3):
            bad.append(('C04.accessor_apis_agree', f'tree_flatten_with_accessor / tree_accessors / treespec.accessors disagree on {tree!r}'))
        return bad
    if spec[1] == 'entries':
        pool = entry_pool()
    else:
        pool = []
        es = entry_pool()
        for a in es[:12]:
            for b in es[:12]:
                pool.append(A.PyTreeAccessor((a, b)))
        pool += [A.PyTreeAccessor(()), A.PyTreeAccessor((es[0],))]
    for a, b in itertools.product(pool, repeat=2):
        if a == b:
            if hash(a) != hash(b):
                bad.append(('C04.equal_implies_equal_hash', f'{sr(a)} == {sr(b)} but hash differs ({type(a).__name__} vs {type(b).__name__}, entry classes {[type(e).__name__ for e in (a if isinstance(a, tuple) else [a])]} vs {[type(e).__name__ for e in (b if isinstance(b, tuple) else [b])]})'))
            elif b not in {a} or {a: 1}.get(b) != 1:
                bad.append(('C04.equal_implies_equal_hash', f'{sr(a)} == {sr(b)} but set/dict lookup fails'))
        if (a == b) != (b == a):
            bad.append(('C04.equality_symmetric', f'{sr(a)} == {sr(b)} is {a == b} but reversed {b == a}'))
        if (a != b) == (a == b):
            bad.append(('C04.ne_is_not_eq', f'{sr(a)} != {sr(b)} inconsistent with =='))
    return bad[:12]
'''


def run(tier, seed):
    return run_core('c04_extra', CORE, tier,
                    scope='81 trees with leaf-less multi-node subtrees at three positions x none_is_leaf; all ordered pairs of a pool of '
                          'path entries (10 classes x 5 payloads) and of 146 accessors',
                    rule='one evaluation = one tree (every accessor applied) or one whole pool of pairs')
