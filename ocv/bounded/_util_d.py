"""Shared helpers of the monitors C15, C16, C17, C20 (group d): child processes and case batches.

A *case* is a self-contained Python script (source text) with the exit-code protocol of replay scripts:
    exit 0  -> the contract held for this input,
    exit 1  -> violation (the script prints one line `VIOLATION: ...` to stdout first),
    killed by a signal (returncode < 0) -> violation (crash),
    timeout -> violation (hang), reported by the parent.
Cases that cannot take the interpreter down are grouped into *batches*: one child executes many cases
in sequence (each in a fresh namespace) and prints a marker before/after each; if the child dies, the
parent knows the culprit, re-runs it alone to confirm, and continues the batch behind it.
"""
from __future__ import annotations

import json
import os
import signal
import subprocess
import sys
import time
from concurrent.futures import ThreadPoolExecutor
from dataclasses import dataclass, field

MAX_WORKERS = 8


@dataclass
class ChildResult:
    rc: int | None          # None = timeout
    out: str
    err: str
    wall: float

    @property
    def crashed(self) -> bool:
        return self.rc is not None and self.rc < 0

    @property
    def timed_out(self) -> bool:
        return self.rc is None

    def signame(self) -> str:
        if self.rc is None:
            return 'TIMEOUT'
        if self.rc < 0:
            try:
                return signal.Signals(-self.rc).name
            except ValueError:
                return f'signal {-self.rc}'
        return f'exit {self.rc}'


def child_env() -> dict:
    env = dict(os.environ)
    env['PYTHONDONTWRITEBYTECODE'] = '1'
    env.setdefault('PYTHONHASHSEED', '0')
    # keep numeric libraries from spawning thread pools in every child
    env.setdefault('OMP_NUM_THREADS', '1')
    env.setdefault('OPENBLAS_NUM_THREADS', '1')
    env.setdefault('MKL_NUM_THREADS', '1')
    return env


def run_child(code: str, timeout: float = 60.0, args: tuple = (), stdin: str | None = None) -> ChildResult:
    """Run `code` with the same interpreter and environment (hence the same optree build)."""
    t0 = time.time()
    try:
        p = subprocess.run([sys.executable, '-X', 'faulthandler', '-c', code, *map(str, args)],
                           env=child_env(), input=stdin, capture_output=True, text=True,
                           timeout=timeout, errors='replace')
        return ChildResult(p.returncode, p.stdout, p.stderr, time.time() - t0)
    except subprocess.TimeoutExpired as e:
        out = e.stdout.decode('utf-8', 'replace') if isinstance(e.stdout, bytes) else (e.stdout or '')
        err = e.stderr.decode('utf-8', 'replace') if isinstance(e.stderr, bytes) else (e.stderr or '')
        return ChildResult(None, out, err, time.time() - t0)


def pmap(fn, items, workers: int = MAX_WORKERS) -> list:
    """Deterministic-order parallel map (threads; the work is done in child processes)."""
    items = list(items)
    if not items:
        return []
    with ThreadPoolExecutor(max_workers=max(1, min(workers, MAX_WORKERS, len(items)))) as ex:
        return list(ex.map(fn, items))


# ------------------------------------------------------------------------------------------------
# batches

_BATCH_DRIVER = r'''
import json, sys, traceback
cases = json.load(sys.stdin)
for cid, code in cases:
    print('@@START ' + cid, flush=True)
    status = 'ok'
    try:
        exec(compile(code, '<case ' + cid + '>', 'exec'), {'__name__': '__main__'})
    except SystemExit as e:
        c = e.code
        status = 'ok' if c in (0, None) else 'violation'
    except BaseException as e:   # the case scripts handle optree's exceptions themselves
        status = 'harness'
        print('HARNESS: ' + cid + ' ' + type(e).__name__ + ': ' + str(e)[:300].replace('\n', ' '), flush=True)
    print('@@END ' + cid + ' ' + status, flush=True)
print('@@DONE', flush=True)
'''


@dataclass
class CaseOutcome:
    cid: str
    status: str             # ok | violation | crash | timeout | harness
    detail: str = ''        # VIOLATION line / signal name / harness message
    confirmed_alone: bool | None = None
    last_op: str = ''       # last `OP: ...` line the case printed before it ended (set by run_case_alone)


def _parse_batch(out: str):
    """-> (finished: dict cid -> (status, detail), started_unfinished: cid | None, done: bool)."""
    finished: dict = {}
    cur = None
    lines_cur: list = []
    done = False
    for line in out.splitlines():
        if line.startswith('@@START '):
            cur = line[8:]
            lines_cur = []
        elif line.startswith('@@END '):
            cid, status = line[6:].rsplit(' ', 1)
            det = ' | '.join(l for l in lines_cur if l.startswith(('VIOLATION:', 'HARNESS:')))
            finished[cid] = (status, det)
            cur = None
        elif line == '@@DONE':
            done = True
        else:
            lines_cur.append(line)
    return finished, cur, done


def run_case_alone(code: str, timeout: float = 60.0) -> CaseOutcome:
    r = run_child(code, timeout=timeout)
    ops = [l[4:] for l in r.out.splitlines() if l.startswith('OP: ')]
    last_op = ops[-1] if ops else ''
    if r.timed_out:
        return CaseOutcome('', 'timeout', f'no result within {timeout:.0f}s', last_op=last_op)
    if r.crashed:
        return CaseOutcome('', 'crash', r.signame(), last_op=last_op)
    if r.rc == 0:
        return CaseOutcome('', 'ok')
    det = ' | '.join(l for l in r.out.splitlines() if l.startswith('VIOLATION:'))
    if r.rc == 1 and det:
        return CaseOutcome('', 'violation', det)
    tail = (r.err.strip().splitlines() or [''])[-1]
    return CaseOutcome('', 'harness', f'exit {r.rc}: {tail[:300]}')


def run_batch(cases: list, timeout_per_case: float = 20.0, batch_timeout: float = 300.0) -> list:
    """cases: [(cid, code)] -> [CaseOutcome] in order.  Survives crashes and hangs of the child."""
    outcomes: dict = {}
    todo = list(cases)
    code_of = dict(cases)
    while todo:
        r = run_child(_BATCH_DRIVER, timeout=batch_timeout, stdin=json.dumps(todo))
        finished, cur, done = _parse_batch(r.out)
        for cid, (status, det) in finished.items():
            outcomes[cid] = CaseOutcome(cid, status, det)
        if done and not r.crashed and not r.timed_out:
            break
        # the child died or hung inside `cur` (or between cases)
        ids = [c for c, _ in todo]
        if cur is None:
            # died outside any case (e.g. at interpreter shutdown): attribute to the last finished case
            rest = [c for c in ids if c not in finished]
            if not rest:
                last = ids[-1]
                outcomes[last] = CaseOutcome(last, 'crash' if r.crashed else 'timeout',
                                             f'{r.signame()} after the case finished (interpreter shutdown)')
                break
            cur = rest[0]
        alone = run_case_alone(code_of[cur], timeout=timeout_per_case)
        if alone.status in ('crash', 'timeout', 'violation'):
            outcomes[cur] = CaseOutcome(cur, alone.status, alone.detail, confirmed_alone=True, last_op=alone.last_op)
        else:
            outcomes[cur] = CaseOutcome(cur, 'crash' if r.crashed else 'timeout',
                                        f'{r.signame()} inside a batch; not reproduced alone', confirmed_alone=False)
        i = ids.index(cur)
        todo = todo[i + 1:]
    return [outcomes.get(cid, CaseOutcome(cid, 'harness', 'no outcome recorded')) for cid, _ in cases]


def run_batches(cases: list, batch_size: int = 60, workers: int = MAX_WORKERS, **kw) -> list:
    chunks = [cases[i:i + batch_size] for i in range(0, len(cases), batch_size)]
    res = pmap(lambda ch: run_batch(ch, **kw), chunks, workers)
    return [o for ch in res for o in ch]


# ------------------------------------------------------------------------------------------------
# findings bookkeeping

class FindingSink:
    """Collect at most `per_key` findings per key (first = smallest inputs, callers enumerate small first)."""

    def __init__(self, per_key: int = 5):
        self.per_key = per_key
        self.by_key: dict = {}
        self.counts: dict = {}

    def add(self, finding, cap: int | None = None) -> None:
        self.counts[finding.key] = self.counts.get(finding.key, 0) + 1
        lst = self.by_key.setdefault(finding.key, [])
        if len(lst) < (cap or self.per_key):
            lst.append(finding)

    def findings(self) -> list:
        return [f for k in self.by_key for f in self.by_key[k]]

    def summary(self) -> str:
        return ', '.join(f'{k}×{n}' for k, n in self.counts.items())


def short(s, n: int = 300) -> str:
    s = str(s).replace('\n', ' ')
    return s if len(s) <= n else s[:n - 3] + '...'


def signum(detail: str) -> int:
    """'SIGSEGV' (as produced by ChildResult.signame) -> 11"""
    name = detail.split()[0] if detail else ''
    try:
        return int(signal.Signals[name].value)
    except KeyError:
        digits = ''.join(ch for ch in detail if ch.isdigit())
        return int(digits) if digits else 0


def watchdog_script(code: str, timeout: float) -> str:
    """Replay script for a case that may hang: runs `code` in a child and exits 1 on hang / crash / exit 1."""
    return (
        'import subprocess, sys\n'
        f'CASE = {code!r}\n'
        'try:\n'
        f'    r = subprocess.run([sys.executable, "-c", CASE], timeout={timeout!r})\n'
        'except subprocess.TimeoutExpired:\n'
        f'    print("VIOLATION: no result within {timeout:.0f} s (deadlock / hang)")\n'
        '    sys.exit(1)\n'
        'if r.returncode < 0:\n'
        '    print("VIOLATION: killed by signal", -r.returncode)\n'
        'sys.exit(0 if r.returncode == 0 else 1)\n'
    )
