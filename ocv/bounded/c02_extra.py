"""C02 bounded monitor, part 2: the documented order / classification rules hold through *every* flattening entry point
(tree_leaves, tree_flatten, tree_iter, tree_flatten_with_path, tree_flatten_with_accessor, tree_structure + tree_unflatten,
tree_is_leaf, all_leaves), not only through tree_flatten, against a reference flattener written from the statement of C02:
(a) OrderedDicts with a re-ordering history (move_to_end to either end, delete + re-insert, popitem + re-insert) at depth 0..2;
(b) value-based is_leaf predicates that accept some and reject other objects of the same node type, in every order;
(c) dict / defaultdict key pools (sortable, mixed types, unsortable) under both none_is_leaf settings;
(d) custom nodes whose flatten function hands out its own mutable list of children while the flatten function of a child
re-orders / shrinks / grows that list during the descent: the children are those yielded when the function returned;
(e) the class-predicate cache at its capacity (4096 classes classified, in a child interpreter): a namedtuple class created at
the address of a dead ordinary class (and the reverse) is still classified by what it is.
Exhaustive over the listed grid."""
from ocv.bounded._extra import run_core

CORE = r'''
import collections, itertools
from collections import OrderedDict, defaultdict, deque
import optree

class UKey:
    """hashable, not orderable"""
    def __init__(self, i): self.i = i
    def __hash__(self): return hash(('UKey', self.i))
    def __eq__(self, o): return isinstance(o, UKey) and o.i == self.i
    def __repr__(self): return f'UKey({self.i})'

Pt = collections.namedtuple('Pt', ['x', 'y'])
class MyList(list): pass
class MyDict(dict): pass

def ref_keys(d):
    keys = list(d)
    try:
        return sorted(keys)
    except TypeError:
        try:
            return sorted(keys, key=lambda k: (f'{k.__class__.__module__}.{k.__class__.__qualname__}', k))
        except TypeError:
            return keys

def ref_children(x):
    """children of x by the rules of C02 (exact built-in node types, namedtuple subclasses), else None (leaf)"""
    t = type(x)
    if t in (tuple, list, deque):
        return list(x)
    if t in (dict, defaultdict):
        return [x[k] for k in ref_keys(x)]
    if t is OrderedDict:
        return [x[k] for k in x]            # its own (insertion / re-ordered) order
    if isinstance(x, tuple) and hasattr(t, '_fields') and t is not tuple:
        return list(x)
    return None

def ref_leaves(x, pred, nil, out):
    if pred is not None and pred(x):
        out.append(x); return out
    if x is None:
        if nil: out.append(x)
        return out
    ch = ref_children(x)
    if ch is None:
        out.append(x); return out
    for c in ch:
        ref_leaves(c, pred, nil, out)
    return out

def ref_is_leaf(x, pred, nil):
    if pred is not None and pred(x):
        return True
    if x is None:
        return nil
    return ref_children(x) is None

# ---- (a) OrderedDict histories
def od_history(h):
    od = OrderedDict((k, f'v{k}') for k in ('a', 'b', 'c'))
    for step in h:
        op, k = step
        if op == 'end': od.move_to_end(k)
        elif op == 'front': od.move_to_end(k, last=False)
        elif op == 'reinsert':
            v = od.pop(k); od[k] = v
        elif op == 'set': od[k] = f'w{k}'
    return od

HIST_STEPS = [(op, k) for op in ('end', 'front', 'reinsert', 'set') for k in ('a', 'b', 'c')]
WRAPS = {'bare': lambda o: o, 'list': lambda o: [0, o, 9], 'dict': lambda o: {'z': o, 'y': 1},
         'od_in_od': lambda o: OrderedDict([('q', 1), ('p', o)]), 'tuple_in_dict': lambda o: {'k': (o, 2)}}

# ---- (b) predicates over same-typed objects
ELEMS = {'t1': lambda: (1,), 't2': lambda: (2, (3,)), 'l1': lambda: [0], 'l2': lambda: [0, [1]], 'd1': lambda: {'a': 0},
         'd2': lambda: {'a': 0, 'b': {'c': 1}}, 'od1': lambda: OrderedDict(a=0), 'od2': lambda: OrderedDict(a=0, b=1),
         'q1': lambda: deque([0]), 'q2': lambda: deque([0, 1]), 'p': lambda: Pt(1, 2), 'pn': lambda: Pt(1, (2, 3)),
         'i': lambda: 7, 's': lambda: 'x', 'f': lambda: 1.5, 'n': lambda: None, 'ml': lambda: MyList([1]), 'md': lambda: MyDict(a=1)}
PREDS = {'none': None,
         'len1': lambda x: hasattr(x, '__len__') and not isinstance(x, str) and len(x) == 1,
         'len2': lambda x: hasattr(x, '__len__') and not isinstance(x, str) and len(x) == 2,
         'is7': lambda x: x == 7 if isinstance(x, int) else False}
PAIRS = [('t1', 't2'), ('l1', 'l2'), ('d1', 'd2'), ('od1', 'od2'), ('q1', 'q2'), ('p', 'pn'), ('i', 't1'), ('s', 'l1'),
         ('f', 'd1'), ('n', 't1'), ('ml', 'l1'), ('md', 'd1'), ('i', 'i'), ('s', 'f')]

# ---- (c) key pools
KEYPOOLS = {'ints': [3, 1, 2], 'strs': ['b', 'a', 'c'], 'mixed': [2, 'a', 1, 'b'], 'mixed3': [1.5, 'a', 1, (0,)],
            'unsortable': [UKey(2), UKey(0), UKey(1)], 'partly': [3, 1, UKey(0)], 'tuples': [(1, 'a'), (0, 'b'), (1, 'A')]}

NS2 = 'c02x'
class Owner:
    """custom node that yields its OWN list object as children"""
    def __init__(self, items): self.items = list(items)
class Slot:
    """child whose flatten function changes the owner's list while the owner is being flattened"""
    def __init__(self, owner, name, action): self.owner, self.name, self.action = owner, name, action
def _flat_owner(o): return (o.items, None)
def _flat_slot(s):
    it = s.owner.items
    if s.action == 'move_to_end' and s in it:
        it.remove(s); it.append(s)
    elif s.action == 'pop_last' and len(it) > 1:
        it.pop()
    elif s.action == 'append':
        it.append('extra')
    elif s.action == 'reverse':
        it.reverse()
    return ((s.name,), None)
for _cls, _fl in ((Owner, _flat_owner), (Slot, _flat_slot)):
    try:
        optree.register_pytree_node(_cls, _fl, lambda m, c: None, namespace=NS2)
    except ValueError:
        pass

def mutating_case(action, pos, nil):
    bad = []
    def build():
        o = Owner([])
        names = ['A', 'B', 'C', 'D']
        o.items = [Slot(o, nm, action if k == pos else 'none') for k, nm in enumerate(names)] + [0]
        return o
    want = ['A', 'B', 'C', 'D', 0]          # the children yielded when Owner's flatten function returned, in that order
    kw = dict(namespace=NS2, none_is_leaf=nil)
    for nm, f in (('tree_leaves', lambda t: optree.tree_leaves(t, **kw)), ('tree_flatten', lambda t: optree.tree_flatten(t, **kw)[0]),
                  ('tree_iter', lambda t: list(optree.tree_iter(t, **kw))), ('tree_flatten_with_path', lambda t: optree.tree_flatten_with_path(t, **kw)[1]),
                  ('tree_flatten_with_accessor', lambda t: optree.tree_flatten_with_accessor(t, **kw)[1])):
        r = outcome(lambda: f(build()))
        if r != ('ok', want):
            bad.append(('C02.custom_children_in_the_order_the_flatten_function_yielded_them', f'{nm}: child {pos} does {action} on the list its parent handed out: got {r[1]!r}, the flatten function yielded {want!r}'))
    return bad

CACHE_SRC = """
import sys, gc, collections, optree
keep = []
for i in range(4200):                       # fill the class-predicate caches to their capacity with live classes
    c = type(f'K{i}', (), {})
    keep.append(c); optree.tree_leaves(c())
bad = []
for rnd in range(300):
    c = type('Tmp', (), {}); optree.tree_leaves([c()]); addr = id(c); del c; gc.collect()
    P = collections.namedtuple('P', 'x y')
    got = optree.tree_leaves([P(1, 2)])
    if got != [1, 2]:
        bad.append(f'round {rnd}: namedtuple class at {"the same" if id(P) == addr else "another"} address as a dead ordinary class flattens to {got!r}')
        break
    got = (optree.tree_is_leaf(P(1, 2)), optree.all_leaves([P(1, 2)]))
    if got != (False, False):
        bad.append(f'round {rnd}: tree_is_leaf / all_leaves on a namedtuple instance give {got!r}')
        break
    del P; gc.collect()
    c = type('Tmp2', (), {})
    got = optree.tree_leaves([c()])
    if len(got) != 1:
        bad.append(f'round {rnd}: ordinary object flattens to {got!r}')
        break
    del c; gc.collect()
print('; '.join(bad)); sys.exit(1 if bad else 0)
"""

def cache_full():
    import subprocess, sys, os
    r = subprocess.run([sys.executable, '-c', CACHE_SRC], capture_output=True, text=True,
                       env=dict(os.environ, PYTHONPATH=os.pathsep.join(sys.path)), cwd='/', timeout=600)
    if r.returncode == 0:
        return []
    what = r.stdout.strip()[:300] if r.returncode == 1 else f'child interpreter died with status {r.returncode}: {r.stderr.strip()[-300:]}'
    return [('C02.classification_by_exact_type_with_a_full_class_cache', what)]

def cases(tier):
    yield ('cachefull',)
    for action in ('none', 'move_to_end', 'pop_last', 'append', 'reverse'):
        for pos in range(4):
            for nil in (False, True):
                yield ('mutating', action, pos, nil)
    for n in (0, 1, 2):
        for h in itertools.product(HIST_STEPS, repeat=n):
            for w in WRAPS:
                yield ('od', h, w)
    for a, b in PAIRS:
        for pname in PREDS:
            for order in ((a, b), (b, a), (a, b, a), (b, a, b), (a, a, b), (b, b, a)):
                for nil in (False, True):
                    yield ('pred', order, pname, nil)
    for pool in KEYPOOLS:
        ks = KEYPOOLS[pool]
        for perm in itertools.permutations(range(len(ks))):
            for kind in ('dict', 'defaultdict'):
                for nil in (False, True):
                    yield ('keys', pool, perm, kind, nil)

def nontrivial(spec):
    return spec[0] != 'od' or len(spec[1]) > 0

def outcome(f):
    try:
        return ('ok', f())
    except Exception as e:
        return ('exc', type(e).__name__)

def same(a, b):
    return len(a) == len(b) and all(x is y for x, y in zip(a, b))

def entry_points(tree, pred, nil):
    kw = dict(is_leaf=pred, none_is_leaf=nil)
    return {
        'tree_leaves': lambda: optree.tree_leaves(tree, **kw),
        'tree_flatten': lambda: optree.tree_flatten(tree, **kw)[0],
        'tree_iter': lambda: list(optree.tree_iter(tree, **kw)),
        'tree_flatten_with_path': lambda: optree.tree_flatten_with_path(tree, **kw)[1],
        'tree_flatten_with_accessor': lambda: optree.tree_flatten_with_accessor(tree, **kw)[1],
        'treespec.flatten_up_to(self tree)': lambda: optree.tree_structure(tree, **kw).flatten_up_to(tree),
    }

def compare(tree, pred, nil, clause, what, bad):
    want = ref_leaves(tree, pred, nil, [])
    for nm, f in entry_points(tree, pred, nil).items():
        r = outcome(f)
        if r[0] != 'ok' or not same(r[1], want):
            bad.append((clause, f'{nm} on {what} (none_is_leaf={nil}) gives {r[1]!r}, the documented rules give {want!r}'))
    n = optree.tree_structure(tree, is_leaf=pred, none_is_leaf=nil).num_leaves
    if n != len(want):
        bad.append((clause, f'tree_structure(...).num_leaves on {what} (none_is_leaf={nil}) is {n}, the documented rules give {len(want)} leaves'))

def check(spec):
    bad = []
    if spec[0] == 'cachefull':
        return cache_full()
    if spec[0] == 'mutating':
        return mutating_case(*spec[1:])
    if spec[0] == 'od':
        _, h, w = spec
        od = od_history(h)
        tree = WRAPS[w](od)
        for nil in (False, True):
            compare(tree, None, nil, 'C02.ordereddict_own_order_through_every_entry_point',
                    f'{tree!r} (OrderedDict built a,b,c then {list(h)!r})', bad)
        return bad
    if spec[0] == 'pred':
        _, order, pname, nil = spec
        xs = [ELEMS[e]() for e in order]
        pred = PREDS[pname]
        want_each = [ref_is_leaf(x, pred, nil) for x in xs]
        got_each = [optree.tree_is_leaf(x, is_leaf=pred, none_is_leaf=nil) for x in xs]
        if got_each != want_each:
            bad.append(('C02.classification_by_predicate_then_exact_type', f'tree_is_leaf over {xs!r} with predicate {pname}, none_is_leaf={nil}: {got_each!r}, documented rules: {want_each!r}'))
        got_all = optree.all_leaves(xs, is_leaf=pred, none_is_leaf=nil)
        if got_all != all(want_each):
            bad.append(('C02.classification_by_predicate_then_exact_type', f'all_leaves({xs!r}, is_leaf={pname}, none_is_leaf={nil}) = {got_all}, documented rules: {want_each!r}'))
        compare(xs, pred, nil, 'C02.classification_by_predicate_then_exact_type', f'{xs!r} with predicate {pname}', bad)
        return bad
    _, pool, perm, kind, nil = spec
    ks = [KEYPOOLS[pool][i] for i in perm]
    d = {k: ('val', i) for i, k in enumerate(ks)}
    if kind == 'defaultdict':
        d = defaultdict(list, d)
    tree = [d, None, OrderedDict((k, d[k]) for k in ks)]
    compare(tree, None, nil, 'C02.dict_key_order_through_every_entry_point', f'{tree!r}', bad)
    return bad
'''


def run(tier, seed):
    return run_core('c02_extra', CORE, tier,
                    scope='OrderedDict a,b,c + every history of <= 2 steps from {move_to_end, move_to_end(last=False), pop+reinsert, '
                          'overwrite} x 3 keys, in 5 wrappers; 14 element pairs x 4 predicates x 6 orders x none_is_leaf; 7 key pools '
                          'x all permutations x {dict, defaultdict} x none_is_leaf; 6 entry points each + tree_is_leaf + all_leaves',
                    rule='one evaluation = every entry point run on one tree and compared by identity with the reference flattener '
                         'written from the statement of C02')
