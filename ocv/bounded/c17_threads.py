"""C17 - concurrent use from several threads (bounded monitor; schedules sampled, not enumerated).

The property quantifies over schedules, which this monitor cannot enumerate.  It checks
  (a) stress     N threads run the read-only API on shared trees / treespecs while registrar threads register and
                 unregister unrelated fresh types (incl. namedtuple subclasses: the engine emits a warning, i.e. it calls
                 back into Python, from inside the registration); every result is compared with the single-threaded
                 result; a watchdog turns a deadlock into a finding;
  (b) re-entry   deterministic: a `warnings.showwarning` hook / a metaclass `__repr__` / a metaclass `__getattribute__`
                 that the engine reaches *during* `register_pytree_node(<namedtuple subclass>)` calls `optree.tree_flatten`
                 on the same thread; and the two-thread form (the registering thread is parked inside the hook while
                 another thread flattens);
  (c) once       concurrent registrations of one (type, namespace) from T threads succeed exactly once;
  (d) iterator   a shared `tree_iter` iterator drained by several threads hands each leaf to exactly one consumer.
Every scenario runs in a child process under a watchdog (see `_util_d`).
"""
from __future__ import annotations

import json
import time

from ocv.bounded import _util_d as U
from ocv.result import BoundedReport, Finding

PRELUDE = r'''
import sys, threading, time, warnings, collections, pickle, faulthandler, json, itertools
from collections import OrderedDict, defaultdict, deque, namedtuple
import optree

VIOLATIONS = []
EVALS = [0]
def violation(msg):
    msg = str(msg).replace('\n', ' ')[:500]
    if len(VIOLATIONS) < 20 and msg not in VIOLATIONS:
        VIOLATIONS.append(msg)
def finish():
    print('RESULT: ' + json.dumps({'evaluations': EVALS[0], 'violations': len(VIOLATIONS)}), flush=True)
    for v in VIOLATIONS:
        print('VIOLATION: ' + v, flush=True)
    sys.stdout.flush()
    # do not run interpreter shutdown with daemon threads around
    import os
    os._exit(1 if VIOLATIONS else 0)
faulthandler.dump_traceback_later(P['watchdog'] - 3, exit=False)    # stacks of all threads if we are stuck
'''

# ------------------------------------------------------------------------------------------------
# (a) stress

_STRESS_BODY = r'''
sys.setswitchinterval(1e-5)
NS = 'c17_shared_ns'
T_READ, T_REG, ITERS, REG_ITERS = P['readers'], P['registrars'], P['iters'], P['reg_iters']

class Cu:
    def __init__(self, a, b): self.a, self.b = a, b
    def __eq__(self, o): return type(o) is Cu and (self.a, self.b) == (o.a, o.b)
    def __repr__(self): return 'Cu(%r, %r)' % (self.a, self.b)
optree.register_pytree_node(Cu, lambda c: ((c.a, c.b), 'md', ('a', 'b')), lambda m, ch: Cu(*ch), namespace=NS)
Pt = namedtuple('Pt', 'x y')

TREES = [
    {'b': (1, [2, 3]), 'a': Pt(4, None), 'c': deque([5, 6], maxlen=4)},
    [Cu(1, {'z': 2, 'y': (3, 4)}), OrderedDict(q=5, p=Cu(6, 7)), defaultdict(list, k=[8])],
    {2: 'two', 'a': 'str', 1: 'one', (0,): 'tuple', None: 'none'},
    (None, (), [], {}, 9),
    Cu(Cu(1, 2), [Cu(3, None)]),
    7,
]
def is_leaf_pt(x): return isinstance(x, Pt)

def ops_for(t):
    """name -> thunk; all results are plain comparable values"""
    leaves, spec = optree.tree_flatten(t, namespace=NS)
    spec_nil = optree.tree_structure(t, none_is_leaf=True, namespace=NS)
    return {
        'flatten': lambda: optree.tree_flatten(t, namespace=NS),
        'flatten_nil': lambda: optree.tree_flatten(t, none_is_leaf=True, namespace=NS),
        'flatten_pred': lambda: optree.tree_flatten(t, is_leaf_pt, namespace=NS),
        'flatten_with_path': lambda: optree.tree_flatten_with_path(t, namespace=NS),
        'flatten_with_accessor': lambda: [repr(a) for a in optree.tree_flatten_with_accessor(t, namespace=NS)[0]],
        'iter': lambda: list(optree.tree_iter(t, namespace=NS)),
        'leaves': lambda: optree.tree_leaves(t, namespace=NS),
        'structure': lambda: optree.tree_structure(t, namespace=NS),
        'unflatten': lambda: optree.tree_unflatten(spec, leaves),
        'map': lambda: optree.tree_map(lambda x: (x, x), t, namespace=NS),
        'map2': lambda: optree.tree_map(lambda x, y: [x, y], t, t, namespace=NS),
        'map_with_path': lambda: optree.tree_map_with_path(lambda p, x: (p, x), t, namespace=NS),
        'paths': lambda: optree.tree_paths(t, namespace=NS),
        'eq': lambda: (spec == optree.tree_structure(t, namespace=NS), spec == spec_nil, spec != spec_nil),
        'hash': lambda: hash(spec) == hash(optree.tree_structure(t, namespace=NS)),
        'repr': lambda: repr(spec),
        'str_nil': lambda: str(spec_nil),
        'pickle': lambda: pickle.loads(pickle.dumps(spec)) == spec,
        'getstate': lambda: repr(spec.__getstate__()),
        'spec.paths': lambda: spec.paths(),
        'spec.accessors': lambda: [repr(a) for a in spec.accessors()],
        'spec.children': lambda: spec.children(),
        'spec.entries': lambda: spec.entries(),
        'spec.is_prefix': lambda: (spec.is_prefix(spec), spec.is_suffix(spec)),
        'spec.compose': lambda: spec.compose(spec).num_leaves,
        'flatten_up_to': lambda: spec.flatten_up_to(t),
        'broadcast_prefix': lambda: optree.tree_broadcast_prefix(t, t, namespace=NS),
        'broadcast_common': lambda: optree.tree_broadcast_common(t, t, namespace=NS),
        'reduce': lambda: optree.tree_reduce(lambda a, b: (a, b), t, namespace=NS, initial=0),
        'one_level': lambda: (list(optree.tree_flatten_one_level(t, namespace=NS)[:3]) if not isinstance(t, int) else None),
        'is_leaf': lambda: optree.tree_is_leaf(t, namespace=NS),
    }

warnings.simplefilter('always')
def showwarning(message, category, filename, lineno, file=None, line=None):
    time.sleep(0)            # a Python callback inside the registration: the scheduler may switch threads here
warnings.showwarning = showwarning

# pickle needs importable classes: make this script's namespace importable as a module
import types
mod = types.ModuleType('c17_stress_mod'); mod.Cu = Cu; mod.Pt = Pt
sys.modules['c17_stress_mod'] = mod
Cu.__module__ = Pt.__module__ = 'c17_stress_mod'; Cu.__qualname__ = 'Cu'; Pt.__qualname__ = 'Pt'

ALL = [(i, name, fn) for i, t in enumerate(TREES) for name, fn in ops_for(t).items()]
EXPECTED = {(i, name): fn() for i, name, fn in ALL}          # single-threaded results
stop = threading.Event()
errors = []
counts = collections.Counter()
lock = threading.Lock()

def reader(k):
    n = 0
    try:
        for it in range(ITERS):
            for j in range(len(ALL)):
                i, name, fn = ALL[(j * 7 + k * 13 + it) % len(ALL)]
                try:
                    got = fn()
                except BaseException as e:
                    errors.append('reader %d: %s on tree %d raised %s: %s' % (k, name, i, type(e).__name__, e))
                    continue
                n += 1
                if got != EXPECTED[(i, name)]:
                    errors.append('reader %d: %s on tree %d returned %r, alone it returns %r' % (k, name, i, got, EXPECTED[(i, name)]))
    finally:
        with lock: counts['reader'] += n

def registrar(k):
    n = 0
    try:
        for it in range(REG_ITERS):
            variant = (it + k) % 4
            ns = 'c17_reg_ns_%d' % k if variant != 3 else optree.registry.__dict__['__GLOBAL_NAMESPACE']
            if variant in (0, 3):
                cls = type('Fresh%d_%d' % (k, it), (), {'__init__': lambda self, v: setattr(self, 'v', v)})
                fl, un, inst = (lambda o: ((o.v,), None)), (lambda m, ch, cls=cls: cls(ch[0])), cls(it)
                exp = [it]
            elif variant == 1:
                cls = namedtuple('FreshNT%d_%d' % (k, it), 'p q')      # the engine warns: callback under registration
                fl, un, inst = (lambda o: ((o.q, o.p), None)), (lambda m, ch, cls=cls: cls(ch[1], ch[0])), cls(1, 2)
                exp = [2, 1]
            else:
                base = namedtuple('Base%d_%d' % (k, it), 'p q')
                cls = type('SubNT%d_%d' % (k, it), (base,), {})
                fl, un, inst = (lambda o: ([o.p], o.q)), (lambda m, ch, cls=cls: cls(ch[0], m)), cls(1, 2)
                exp = [1]
            try:
                optree.register_pytree_node(cls, fl, un, namespace=ns)
                got = optree.tree_leaves(inst, namespace=ns if isinstance(ns, str) else '')
                if got != exp:
                    errors.append('registrar %d: leaves of a freshly registered %s are %r, expected %r' % (k, cls.__name__, got, exp))
                try:
                    optree.register_pytree_node(cls, fl, un, namespace=ns)
                    errors.append('registrar %d: second registration of %s succeeded' % (k, cls.__name__))
                except ValueError:
                    pass
                optree.unregister_pytree_node(cls, namespace=ns)
                after = optree.tree_leaves(inst, namespace=ns if isinstance(ns, str) else '')
                exp_after = [inst] if variant in (0, 3) else [1, 2]
                if after != exp_after:
                    errors.append('registrar %d: leaves after unregistering %s are %r, expected %r' % (k, cls.__name__, after, exp_after))
                n += 3
            except BaseException as e:
                errors.append('registrar %d: %s: %s' % (k, type(e).__name__, e))
    finally:
        with lock: counts['registrar'] += n

threads = [threading.Thread(target=reader, args=(k,), daemon=True) for k in range(T_READ)]
threads += [threading.Thread(target=registrar, args=(k,), daemon=True) for k in range(T_REG)]
for th in threads: th.start()
for th in threads: th.join()
EVALS[0] = counts['reader'] + counts['registrar']
for e in errors[:10]:
    violation(e)
finish()
'''

# ------------------------------------------------------------------------------------------------
# (b) re-entrancy while a registration is in progress

_REENTRY_BODY = r'''
HOOK, TWO_THREADS = P['hook'], P['two_threads']
NS = 'c17_reentry_ns'
record = {'calls': 0, 'results': [], 'errors': []}
in_hook, release = threading.Event(), threading.Event()
other = {}

def reenter():
    """runs inside a callback the engine makes during register_pytree_node"""
    record['calls'] += 1
    if TWO_THREADS:
        if record['calls'] == 1:
            in_hook.set()
            release.wait(8.0)            # parked; the other thread flattens meanwhile
        return
    try:
        record['results'].append(optree.tree_flatten({'b': (1, 2), 'a': [3]}))
    except BaseException as e:
        record['errors'].append('%s: %s' % (type(e).__name__, e))

class Meta(type):
    if HOOK == 'meta_repr':
        def __repr__(cls):
            reenter()
            return '<class Meta-made %s>' % cls.__name__
    if HOOK == 'meta_getattribute':
        def __getattribute__(cls, name):
            if name in ('_fields', '_make', '_asdict', 'n_fields', 'n_sequence_fields') and not busy[0]:
                busy[0] = True
                try: reenter()
                finally: busy[0] = False
            return type.__getattribute__(cls, name)
busy = [False]
Base = namedtuple('Base', 'x y')
if HOOK == 'showwarning':
    class Pt(Base): pass
    def hook(message, category, filename, lineno, file=None, line=None):
        reenter()
    warnings.showwarning = hook
else:
    class Pt(Base, metaclass=Meta): pass
warnings.simplefilter('always')
if HOOK != 'showwarning':
    warnings.showwarning = lambda *a, **k: None

def flatten_thread():
    if not in_hook.wait(8.0):
        other['error'] = 'the hook was never reached'
        release.set()
        return
    try:
        other['result'] = optree.tree_flatten({'b': (1, 2), 'a': [3]})
    except BaseException as e:
        other['error'] = '%s: %s' % (type(e).__name__, e)
    finally:
        release.set()
if TWO_THREADS:
    th = threading.Thread(target=flatten_thread, daemon=True); th.start()

reg_error = None
try:
    optree.register_pytree_node(Pt, lambda p: ((p.y, p.x), None), lambda m, ch: Pt(ch[1], ch[0]), namespace=NS)
except BaseException as e:
    reg_error = e
if TWO_THREADS:
    th.join(10.0)
    if th.is_alive():
        violation('the flattening thread is still blocked after the registration returned')
EXPECT = ([3, 1, 2], optree.tree_structure({'b': (1, 2), 'a': [3]}))
EVALS[0] += 1
desc = 'register_pytree_node(<namedtuple subclass>) with a %s callback that %s' % (
    HOOK, 'parks while another thread calls tree_flatten' if TWO_THREADS else 'calls optree.tree_flatten on the same thread')
if record['calls'] == 0:
    violation('harness: the engine never reached the %s hook during registration' % HOOK)
if reg_error is not None and not isinstance(reg_error, (ValueError, TypeError)):
    violation('%s: the registration raised %s: %s' % (desc, type(reg_error).__name__, reg_error))
for e in record['errors']:
    violation('%s: the re-entrant tree_flatten raised %s' % (desc, e))
for r in record['results']:
    EVALS[0] += 1
    if (r[0], r[1]) != EXPECT:
        violation('%s: the re-entrant tree_flatten returned %r' % (desc, r))
if TWO_THREADS:
    EVALS[0] += 1
    if 'error' in other:
        violation('%s: tree_flatten in the other thread: %s' % (desc, other['error']))
    elif other.get('result') != EXPECT:
        violation('%s: tree_flatten in the other thread returned %r' % (desc, other.get('result')))
if reg_error is None:
    EVALS[0] += 1
    try:
        got = optree.tree_leaves(Pt(1, 2), namespace=NS)
        if got != [2, 1]:
            violation('%s: after the registration returned, tree_leaves(Pt(1, 2)) = %r, expected [2, 1]' % (desc, got))
        optree.unregister_pytree_node(Pt, namespace=NS)
        if optree.tree_leaves(Pt(1, 2), namespace=NS) != [1, 2]:
            violation('%s: unregistering afterwards did not restore the namedtuple behaviour' % desc)
    except BaseException as e:
        violation('%s: using / unregistering the type afterwards raised %s: %s' % (desc, type(e).__name__, e))
finish()
'''

# ------------------------------------------------------------------------------------------------
# (c) concurrent registrations of the same (type, namespace)

_ONCE_BODY = r'''
sys.setswitchinterval(1e-5)
T, ROUNDS = P['threads'], P['rounds']
warnings.simplefilter('ignore')
GLOBAL = optree.registry.__dict__['__GLOBAL_NAMESPACE']
for rnd in range(ROUNDS):
    variant = rnd % 3
    ns = GLOBAL if variant == 2 else 'c17_once_ns'
    if variant == 1:
        cls = namedtuple('OnceNT%d' % rnd, 'p q')
    else:
        cls = type('Once%d' % rnd, (), {})
    barrier = threading.Barrier(T)
    results = [None] * T
    def worker(k, cls=cls, ns=ns):
        fl = lambda o, k=k: ((), k)
        un = lambda m, ch: cls()
        barrier.wait()
        try:
            optree.register_pytree_node(cls, fl, un, namespace=ns)
            results[k] = 'ok'
        except ValueError as e:
            results[k] = 'ValueError'
        except BaseException as e:
            results[k] = '%s: %s' % (type(e).__name__, e)
    ths = [threading.Thread(target=worker, args=(k,), daemon=True) for k in range(T)]
    for th in ths: th.start()
    for th in ths: th.join()
    EVALS[0] += 1
    oks = results.count('ok')
    if oks != 1 or any(r not in ('ok', 'ValueError') for r in results):
        violation('%d threads registering %s in namespace %r at once: outcomes %r, expected exactly one success and ValueError for the rest'
                  % (T, cls.__name__, ns if isinstance(ns, str) else '<global>', results))
        continue
    winner = results.index('ok')
    spec = optree.tree_structure(cls() if variant != 1 else cls(1, 2), namespace=ns if isinstance(ns, str) else '')
    # the registration that is in effect is the winner's, in the engine and in the Python-side table
    entry = optree.register_pytree_node.get(cls, namespace=ns)
    py_winner = entry.flatten_func(None)[1] if entry is not None else None
    # the metadata stored in the treespec is the index of the thread whose flatten function is installed
    md = spec.__getstate__()[0][-1][2]
    EVALS[0] += 1
    if md != winner or py_winner != winner:
        violation('registration race for %s: thread %d succeeded, the engine uses the flatten function of thread %r, the Python table that of thread %r'
                  % (cls.__name__, winner, md, py_winner))
    optree.unregister_pytree_node(cls, namespace=ns)
finish()
'''

# ------------------------------------------------------------------------------------------------
# (d) shared iterator

_ITER_BODY = r'''
sys.setswitchinterval(1e-5)
T, N, VARIANT = P['threads'], P['leaves'], P['variant']
NS = 'c17_iter_ns'
class Cu:
    def __init__(self, *ch): self.ch = ch
def cu_flatten(c):
    time.sleep(0) if VARIANT == 'custom_yield' else None
    return c.ch, None
optree.register_pytree_node(Cu, cu_flatten, lambda m, ch: Cu(*ch), namespace=NS)
# a tree with N integer leaves 0..N-1 in leaf order, mixed node kinds
def build(lo, hi, depth=0):
    n = hi - lo
    if n == 1:
        return lo
    if n <= 3:
        return [build(i, i + 1) for i in range(lo, hi)]
    k = 3 if depth % 2 else 4
    step = -(-n // k)
    parts = [build(a, min(a + step, hi), depth + 1) for a in range(lo, hi, step)]
    kind = depth % 5
    if kind == 0: return tuple(parts)
    if kind == 1: return {('k%03d' % i): p for i, p in enumerate(parts)}
    if kind == 2: return Cu(*parts)
    if kind == 3: return deque(parts)
    return list(parts)
tree = build(0, N)
assert optree.tree_leaves(tree, namespace=NS) == list(range(N))
def pred(x):
    return False
it = optree.tree_iter(tree, pred if VARIANT in ('predicate', 'custom_yield') else None, namespace=NS)
got = [[] for _ in range(T)]
errs = []
barrier = threading.Barrier(T)
def consumer(k):
    barrier.wait()
    mine = got[k]
    try:
        while True:
            try:
                mine.append(next(it))
            except StopIteration:
                break
    except BaseException as e:
        errs.append('%s: %s' % (type(e).__name__, e))
ths = [threading.Thread(target=consumer, args=(k,), daemon=True) for k in range(T)]
for th in ths: th.start()
for th in ths: th.join()
EVALS[0] += 1
allgot = [x for g in got for x in g]
cnt = collections.Counter(allgot)
dups = sorted(x for x, c in cnt.items() if c > 1)[:5]
missing = [x for x in range(N) if x not in cnt][:5]
if errs:
    violation('shared tree_iter (%s) consumed by %d threads raised %s' % (VARIANT, T, errs[:3]))
if dups or missing or len(allgot) != N:
    violation('shared tree_iter (%s) over %d leaves consumed by %d threads: %d leaves handed out, duplicates %r, missing %r'
              % (VARIANT, N, T, len(allgot), dups, missing))
print('INFO: consumers got', [len(g) for g in got], flush=True)
finish()
'''


def _script(params: dict, body: str) -> str:
    return 'P = ' + repr(params) + '\n' + PRELUDE + body


def cases(tier: str, seed: int):
    quick = tier == 'quick'
    out = []
    wd = 75.0 if quick else 850.0
    out.append(('stress', {'readers': 4 if quick else 8, 'registrars': 2 if quick else 4, 'iters': 400 if quick else 3000,
                           'reg_iters': 10000 if quick else 60000, 'watchdog': wd, 'seed': seed}, _STRESS_BODY))
    for hook in ('showwarning', 'meta_repr', 'meta_getattribute'):
        for two in (False, True):
            out.append((f'reentry/{hook}/{"two_threads" if two else "same_thread"}',
                        {'hook': hook, 'two_threads': two, 'watchdog': 30.0}, _REENTRY_BODY))
    out.append(('once', {'threads': 4 if quick else 8, 'rounds': 600 if quick else 6000, 'watchdog': wd}, _ONCE_BODY))
    for variant in ('plain', 'predicate', 'custom_yield'):
        out.append((f'iterator/{variant}', {'threads': 4 if quick else 8, 'leaves': 100000 if quick else 1000000,
                                            'variant': variant, 'watchdog': wd}, _ITER_BODY))
    return [(cid, p, _script(p, body)) for cid, p, body in out]


def _key(cid: str, status: str, detail: str) -> str:
    sect = cid.split('/')[0]
    if status == 'timeout':
        return 'C17.deadlock'
    if status == 'crash':
        return 'C17.crash'
    if sect == 'stress':
        return 'C17.result_differs_under_concurrency'
    if sect == 'reentry':
        if 'harness:' in detail:
            return 'C17.unexpected_exception'
        return 'C17.reentrant_call_during_registration_fails'
    if sect == 'once':
        return 'C17.concurrent_registration_not_exactly_once'
    if sect == 'iterator':
        return 'C17.shared_iterator_not_exactly_once'
    return 'C17.unexpected_exception'


def run(tier: str, seed: int) -> BoundedReport:
    t0 = time.time()
    rep = BoundedReport(name='c17_threads')
    sink = U.FindingSink(per_key=5)
    cs = cases(tier, seed)

    def run_one(c):
        cid, p, code = c
        r = U.run_child(code, timeout=p['watchdog'])
        return c, r

    # every scenario is bound by its own GIL: run them side by side (the long stress scenario is submitted first)
    results = U.pmap(run_one, cs, workers=6)
    evals = 0
    samples = []
    for (cid, p, code), r in results:
        info = {}
        for line in r.out.splitlines():
            if line.startswith('RESULT: '):
                info = json.loads(line[8:])
        evals += int(info.get('evaluations', 0))
        viols = [l[11:] for l in r.out.splitlines() if l.startswith('VIOLATION: ')]
        samples.append(f'{cid}: {r.signame()}, {info.get("evaluations", 0)} evaluations, {r.wall:.1f}s')
        if r.timed_out:
            evals += 1
            stacks = [l.strip() for l in r.err.splitlines() if l.strip().startswith('File ')][:6]
            sink.add(Finding(key='C17.deadlock',
                             what=f'{cid} {p}: no result within {p["watchdog"]:.0f} s (all threads stuck); stacks: {U.short(" <- ".join(stacks), 400)}',
                             script=U.watchdog_script(code, p['watchdog']), data={'case': cid, 'params': p, 'stderr_tail': r.err[-1500:]}))
        elif r.crashed:
            evals += 1
            sink.add(Finding(key='C17.crash', what=f'{cid} {p}: child died with {r.signame()}',
                             script=U.watchdog_script(code, p['watchdog']), data={'case': cid, 'params': p, 'stderr_tail': r.err[-1500:]}))
        elif r.rc != 0 and not viols:
            sink.add(Finding(key='C17.unexpected_exception',
                             what=f'{cid} {p}: scenario ended with exit {r.rc}: {U.short((r.err.strip().splitlines() or [""])[-1], 300)}',
                             script=U.watchdog_script(code, p['watchdog']), data={'case': cid, 'params': p, 'stderr_tail': r.err[-1500:]}))
        else:
            for v in viols:
                sink.add(Finding(key=_key(cid, 'violation', v), what=f'{cid}: {v}',
                                 script=U.watchdog_script(code, p['watchdog']), data={'case': cid, 'params': p}))
    rep.evaluations = evals
    rep.distinct_nontrivial = len(cs)
    rep.rule = ('evaluations = results compared with the single-threaded result (stress), hook outcomes (re-entry), registration rounds '
                '(once) and iterator drains; distinct_nontrivial = number of distinct concurrent scenarios (each has >= 2 threads or a '
                're-entrant callback)')
    rep.scope = (f'schedules sampled, not enumerated. stress: {cs[0][1]["readers"]} reader threads x 31 operations x 6 shared trees x '
                 f'{cs[0][1]["iters"]} rounds against {cs[0][1]["registrars"]} registrar threads x {cs[0][1]["reg_iters"]} register/unregister '
                 'cycles of fresh classes / namedtuples / namedtuple subclasses in private and global namespaces, switch interval 1e-5 s, '
                 'showwarning hook yielding inside the registration; re-entry: 3 callbacks reached during registration x {same thread, second thread}; '
                 f'once: {cs[7][1]["threads"]} threads x {cs[7][1]["rounds"]} rounds; iterator: 3 variants x {cs[8][1]["leaves"]} leaves x {cs[8][1]["threads"]} consumers')
    rep.exhaustive = False
    rep.samples = samples[:6]
    rep.findings = sink.findings()
    rep.notes = ('schedules sampled, not enumerated: the monitor cannot decide the property over all interleavings; the deterministic part is the '
                 're-entrancy witness (b). GIL build only (free-threaded code paths are not compiled). The dict-order mode switch is excluded '
                 'by the property. "A flatten that overlaps a registry change observes the old or the new registration" is only exercised for '
                 'unrelated types (the stress readers never use the types being registered). finding counts: ' + (sink.summary() or 'none'))
    rep.wall_s = round(time.time() - t0, 2)
    return rep
