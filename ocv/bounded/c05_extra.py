"""C05 bounded monitor, part 2: rests that do not have the first tree's structure as a prefix although their *total* node
count matches (one custom node with too many children, a later one with too few), for custom node types whose flatten
function returns 2-tuples / 3-tuples, whose metadata does or does not fix the length.  Clause: "a rest that does not have
t's structure as a prefix raises ValueError before f is called at all"; and the in-place variants make the same calls
as the plain ones and return the original tree even when the tree contains nodes whose reconstruction validates its
children.  (c) wide nodes (300 / 1200 children: indices beyond the small-integer cache) of every positional kind and of custom
nodes with and without entries, each in a child interpreter: every map variant calls f exactly once per leaf in order, the
with_path / with_accessor variants with the i-th path / accessor first, and the identity map rebuilds an equal tree.
Exhaustive over the listed grid."""
from ocv.bounded._extra import run_core

CORE = r'''
import itertools
import optree

NS = 'c05x'
class Bag:
    def __init__(self, xs): self.xs = list(xs)
    def __repr__(self): return f'Bag({self.xs!r})'
class Bag3(Bag): pass
class Interval:
    """reconstruction validates its children"""
    def __init__(self, lo, hi):
        if not lo <= hi: raise AssertionError('lo > hi')
        self.lo, self.hi = lo, hi
    def __repr__(self): return f'Interval({self.lo!r}, {self.hi!r})'
for cls, fl, un in ((Bag, lambda b: (b.xs, None), lambda m, c: Bag(c)),
                    (Bag3, lambda b: (b.xs, None, tuple(range(len(b.xs)))), lambda m, c: Bag3(c)),
                    (Interval, lambda i: ((i.lo, i.hi), None), lambda m, c: Interval(*c))):
    try: optree.register_pytree_node(cls, fl, un, namespace=NS)
    except ValueError: pass

FAMILY = ['tree_map', 'tree_map_', 'tree_map_with_path', 'tree_map_with_path_', 'tree_map_with_accessor', 'tree_map_with_accessor_']

def shapes(B):
    # (tree, rest, rest_matches)
    yield ((B([1]), B([2])), (B([10]), B([20])), True)
    yield ((B([1]), B([2])), (B([10, 11]), B([])), False)                 # counts cancel: +1 -1
    yield ((B([1]), B([2])), (B([10]), B([B([]), 20])), False)            # too many children later, node count cancels
    yield ((B([1]), B([2])), (B([B([]), 10]), B([20])), False)
    yield ([B([1, 2]), B([])], [B([1]), B([3])], False)
    yield ((B([1]), (2, 3)), (B([1, 9]), (2,)), False)
    yield ({'a': B([1]), 'b': B([2, 3])}, {'a': B([1, 1]), 'b': B([2])}, False)
    yield ((B([1]), B([2])), (B([(10, 11)]), B([[20]])), True)            # rest deeper below the leaves: fine

WIDE_SRC = """
import sys, collections, optree
kind, n = sys.argv[1], int(sys.argv[2])
NS = 'c05wide'
class Seq:
    def __init__(self, xs): self.xs = list(xs)
    def __eq__(self, o): return type(o) is type(self) and o.xs == self.xs
class SeqE(Seq): pass
optree.register_pytree_node(Seq, lambda s: (tuple(s.xs), None), lambda m, c: Seq(c), namespace=NS)
optree.register_pytree_node(SeqE, lambda s: (tuple(s.xs), None, tuple(f'e{i}' for i in range(len(s.xs)))), lambda m, c: SeqE(c), namespace=NS)
xs = [float(i) for i in range(n)]
tree = {'list': lambda: list(xs), 'tuple': lambda: tuple(xs), 'deque': lambda: collections.deque(xs), 'custom': lambda: Seq(xs),
        'custom_entries': lambda: SeqE(xs), 'nested_custom': lambda: [Seq(xs), {'k': Seq(xs)}]}[kind]()
kw = dict(namespace=NS)
bad = []
leaves = optree.tree_leaves(tree, **kw)
paths = optree.tree_paths(tree, **kw)
accs = optree.tree_accessors(tree, **kw)
if len(leaves) != len(paths) or len(leaves) != len(accs): bad.append('lengths differ')
def entry_ok(p):
    return all(isinstance(e, (int, str)) for e in p)
if not all(entry_ok(p) for p in paths): bad.append('a path holds an entry that is neither an index nor a key')
for variant in ('tree_map', 'tree_map_with_path', 'tree_map_with_accessor', 'tree_map_', 'tree_map_with_path_', 'tree_map_with_accessor_'):
    calls = []
    if 'path' in variant: f = lambda p, x: (calls.append((p, x)), x)[1]
    elif 'accessor' in variant: f = lambda a, x: (calls.append((a.path, x)), x)[1]
    else: f = lambda x: (calls.append((None, x)), x)[1]
    out = getattr(optree, variant)(f, tree, **kw)
    if [c[1] for c in calls] != leaves: bad.append(f'{variant}: f not called once per leaf in order')
    if variant != 'tree_map' and 'tree_map_' != variant[:9] or 'with' in variant:
        if 'with' in variant and [tuple(c[0]) for c in calls] != [tuple(p) for p in paths]:
            k = next(i for i, (c, p) in enumerate(zip(calls, paths)) if tuple(c[0]) != tuple(p))
            bad.append(f'{variant}: call {k} received path {calls[k][0]!r}, the {k}-th path is {paths[k]!r}')
    if not variant.endswith('_') and out != tree: bad.append(f'{variant}: identity map does not rebuild an equal tree')
    if len(bad) > 3: break
print('; '.join(str(b) for b in bad)); sys.exit(1 if bad else 0)
"""

def wide(kind, n):
    import subprocess, sys, os
    r = subprocess.run([sys.executable, '-c', WIDE_SRC, kind, str(n)], capture_output=True, text=True,
                       env=dict(os.environ, PYTHONPATH=os.pathsep.join(sys.path)), cwd='/', timeout=600)
    if r.returncode == 0:
        return []
    what = r.stdout.strip()[:400] if r.returncode == 1 else f'child interpreter died with status {r.returncode}: {r.stderr.strip()[-200:]}'
    return [('C05.map_variants_on_wide_nodes', f'{kind} with {n} children: {what}')]

def cases(tier):
    for kind in ('list', 'tuple', 'deque', 'custom', 'custom_entries', 'nested_custom'):
        for n in (300, 1200):
            yield ('wide', kind, n)
    for fam in FAMILY:
        for bname in ('Bag', 'Bag3'):
            for k in range(8):
                yield ('misaligned', fam, bname, k)
        yield ('validating', fam)

def check(spec):
    bad = []
    if spec[0] == 'wide':
        return wide(spec[1], spec[2])
    if spec[0] == 'misaligned':
        _, fam, bname, k = spec
        B = {'Bag': Bag, 'Bag3': Bag3}[bname]
        tree, rest, ok = list(shapes(B))[k]
        calls = []
        f = getattr(optree, fam)
        def rec(*a):
            calls.append(a); return 0
        try:
            f(rec, tree, rest, namespace=NS)
            raised = None
        except ValueError as e:
            raised = e
        n_leaves = len(optree.tree_leaves(tree, namespace=NS))
        if ok and (raised is not None or len(calls) != n_leaves):
            bad.append(('C05.matching_rest_accepted', f'{fam}({tree!r}, {rest!r}): raised {raised!r} / {len(calls)} calls for {n_leaves} leaves'))
        if not ok and raised is None:
            bad.append(('C05.rest_without_prefix_structure_must_raise', f'{fam}(f, {tree!r}, {rest!r}) returned without ValueError; calls made: {calls!r}'))
        if not ok and calls:
            bad.append(('C05.nothing_called_before_mismatch_error', f'{fam}(f, {tree!r}, {rest!r}) called f {len(calls)} time(s) although the rest does not match: {calls!r}'))
        return bad
    _, fam = spec
    tree = [Interval(1, 2), (3, Interval(4, 5))]
    calls = []
    inplace = fam.endswith('_')
    def side(*a):
        leaf = a[-1] if 'with' not in fam else a[1]
        calls.append(leaf)
        return None if inplace else leaf      # the plain variants rebuild the tree from the results: keep them valid
    try:
        out = getattr(optree, fam)(side, tree, namespace=NS)
        err = None
    except Exception as e:
        out, err = None, e
    if calls != [1, 2, 3, 4, 5]:
        bad.append(('C05.once_per_leaf_in_order', f'{fam}: leaves passed {calls!r}, expected [1, 2, 3, 4, 5]'))
    if inplace and (err is not None or out is not tree):
        bad.append(('C05.inplace_variant_returns_the_original_tree', f'{fam}(side_effect_only, tree) -> {out!r} / raised {err!r}; it must make the calls and return the input tree object'))
    return bad
'''


def run(tier, seed):
    return run_core('c05_extra', CORE, tier,
                    scope='6 map variants x 2 custom node types (2-tuple / 3-tuple flatten) x 8 (tree, rest) shapes with cancelling '
                          'child-count mismatches; 6 variants on a tree with child-validating nodes',
                    rule='one evaluation = one call of a map variant with a recording function')
