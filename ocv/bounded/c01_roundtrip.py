"""C01 bounded monitor: flatten -> unflatten rebuilds the identical structure.

Oracle: the exact structural identity `_util_a.same_tree` (container types, key order incl. the original
insertion order of dict/defaultdict, namedtuple/struct-sequence class, deque maxlen, defaultdict factory,
custom metadata, leaf identity) between the input and `tree_unflatten(*reversed(tree_flatten(input)))`,
the re-flatten / replacement-leaves / wrong-leaf-count clauses of the statement, over the tree universe
x option grid x dict-order mode, and over one-level containers reached through construction histories.
"""
from __future__ import annotations

import itertools
from collections import OrderedDict, defaultdict, deque

import optree
from ocv.bounded import _util_a as U
from ocv.bounded import scope as S
from ocv.bounded._util_a import ids_equal, kw, mode, ref_expand, ref_sorted_keys, ref_walk, same_tree, tree_diff  # noqa: F401

PROP = 'C01'


# ---- check functions (pasted into replay scripts) ------------------------------------------------

def replacements(n, o):
    """n fresh leaf-typed objects for the options `o` (opaque leaves; None / predicate-leaf containers too)."""
    xs = [S.L(1000 + i) for i in range(n)]
    if o['none_is_leaf'] and n > 1:
        xs[1] = None                                  # None is leaf-typed when none_is_leaf
    if o['is_leaf'] is S.is_leaf_list and n > 0:
        xs[0] = [S.L(2000), (S.L(2001),)]             # a list is a leaf under this predicate
    if o['is_leaf'] is S.is_leaf_dictlike and n > 0:
        xs[0] = OrderedDict(b=S.L(2000), a=[])
    return xs


def chk_roundtrip(tree, o):
    out = []
    with mode(o):
        leaves, spec = optree.tree_flatten(tree, **kw(o))
        for how, rebuilt in (('tree_unflatten', optree.tree_unflatten(spec, leaves)),
                             ('PyTreeSpec.unflatten(iterator)', spec.unflatten(iter(leaves)))):
            diff = tree_diff(tree, rebuilt)
            if diff:
                out.append((f'C01.rebuilt_{diff}', f'{how} gave {rebuilt!r} for input {tree!r}'))
            elif not ids_equal(ref_walk(rebuilt, o)[0], ref_walk(tree, o)[0]):
                out.append(('C01.rebuilt_leaf_identity', f'{how} gave {rebuilt!r}: leaf objects are not the input leaves'))
        leaves2, spec2 = optree.tree_flatten(rebuilt, **kw(o))
        if not ids_equal(leaves2, leaves):
            out.append(('C01.reflatten_leaves', f're-flatten of {rebuilt!r}: leaves {leaves2!r} != {leaves!r}'))
        if not (spec2 == spec) or spec2 != spec:
            out.append(('C01.reflatten_spec', f're-flatten of {rebuilt!r}: treespec {spec2!r} != {spec!r}'))
        n = len(leaves)
        if spec.num_leaves != n:
            out.append(('C01.reflatten_spec', f'num_leaves {spec.num_leaves} but {n} leaves'))
        fresh = replacements(n, o)
        tree3 = optree.tree_unflatten(spec, fresh)
        leaves3, spec3 = optree.tree_flatten(tree3, **kw(o))
        if not ids_equal(leaves3, fresh):
            out.append(('C01.replacement_leaves', f'unflatten({fresh!r}) = {tree3!r} flattens to {leaves3!r}'))
        if spec3 != spec:
            out.append(('C01.replacement_spec', f'unflatten({fresh!r}) = {tree3!r} has treespec {spec3!r} != {spec!r}'))
        for m in ([n + 1, n - 1] if n else [1]):
            try:
                res = optree.tree_unflatten(spec, [S.L(3000 + i) for i in range(m)])
                out.append(('C01.wrong_leaf_count', f'{m} leaves for {spec!r} ({n} leaves): returned {res!r}, expected ValueError'))
            except ValueError:
                pass
            except Exception as ex:
                out.append(('C01.wrong_leaf_count', f'{m} leaves for {spec!r}: {type(ex).__name__}: {ex}, expected ValueError'))
    return out


def apply_history(kind, keys, ops):
    """One-level container reached through a construction history (fresh S.L leaves). `keys` = maxlen for deques."""
    c = itertools.count()
    new = lambda: S.L(next(c))     # noqa: E731
    d = deque(maxlen=keys) if kind == 'deque' else {'dict': dict, 'odict': OrderedDict, 'ddict': lambda: defaultdict(list)}[kind]()
    for op, *a in ops:
        if op == 'set':
            d[keys[a[0]]] = new()
        elif op == 'del':
            del d[keys[a[0]]]
        elif op == 'get':
            d[keys[a[0]]]                             # defaultdict auto-insertion of []
        elif op == 'getapp':
            d[keys[a[0]]].append(new())               # auto-insertion, then growth of the inserted list
        elif op == 'mte':
            d.move_to_end(keys[a[0]], last=a[1])
        elif op == 'popitem':
            d.popitem(*a)
        elif op == 'rotate':
            if not d:
                raise IndexError
            d.rotate(a[0])
        elif op in ('append', 'appendleft'):
            getattr(d, op)(new())
        else:
            getattr(d, op)()                          # pop / popleft
    return d


def chk_history(tree, o):
    kind, keys, ops = tree
    return chk_roundtrip(apply_history(kind, keys, ops), o)


FN_SRC = None


def fn_src():
    global FN_SRC
    if FN_SRC is None:
        FN_SRC = U.ref_src() + U.SRC(tree_diff, same_tree, replacements, chk_roundtrip, apply_history, chk_history)
    return FN_SRC


# ---- scope ---------------------------------------------------------------------------------------

def alphabets():
    ks = range(3)
    base = [('set', i) for i in ks] + [('del', i) for i in ks]
    return {
        'dict': base + [('popitem',)],
        'odict': base + [('mte', i, last) for i in ks for last in (True, False)] + [('popitem', True), ('popitem', False)],
        'ddict': base + [('popitem',)] + [('get', i) for i in ks] + [('getapp', i) for i in ks],
        'deque': [('append',), ('appendleft',), ('rotate', 1), ('rotate', -1), ('pop',), ('popleft',)],
    }


def histories(tier):
    """(kind, keys|maxlen, ops) for every valid op sequence up to a per-kind length."""
    maxlen = {'quick': {'dict': 4, 'odict': 3, 'ddict': 3, 'deque': 4},
              'thorough': {'dict': 5, 'odict': 4, 'ddict': 4, 'deque': 5}}[tier]
    pools = {'rev_str': S.KEY_POOLS['rev_str'][:3], 'mixed': S.KEY_POOLS['mixed'][:3],
             'unorderable': S.KEY_POOLS['unorderable'][:3]}
    if tier == 'thorough':
        pools.update(partly=[S.UKey(0), 3, S.UKey(1)])
    for kind, alpha in alphabets().items():
        params = [2, 3, None] if kind == 'deque' else list(pools.values())
        for n in range(1, maxlen[kind] + 1):
            for ops in itertools.product(alpha, repeat=n):
                try:
                    apply_history(kind, params[0], ops)
                except (KeyError, IndexError, AttributeError):
                    continue                          # not a valid history (delete/pop of something absent)
                # a history is interesting when it is more than a sequence of plain first insertions
                for p in params:
                    yield kind, p, ops


def hist_src(h):
    kind, keys, ops = h
    ksrc = repr(keys) if kind == 'deque' else '[' + ', '.join(U.key_src(k) for k in keys) + ']'
    return f'({kind!r}, {ksrc}, {list(ops)!r})'


DEEP_CODE = r"""
import sys, collections
from collections import OrderedDict, defaultdict, deque
import functools
import optree
from ocv.bounded import scope as S
S.ensure_registered()
sys.setrecursionlimit(100000)
__TREE_DIFF__
MAKERS = [lambda x: [x], lambda x: {'k': x, 'a': None}, lambda x: (x,), lambda x: OrderedDict(z=x), lambda x: deque([x], maxlen=5),
          lambda x: S.Single(x), lambda x: S.CustomE([x], 'deep'), lambda x: defaultdict(list, {2: x})]
bad = []
for depth in (optree.MAX_RECURSION_DEPTH - 1, optree.MAX_RECURSION_DEPTH):
    for start in range(len(MAKERS)):
        leaf = S.L(0)
        t = leaf
        for i in range(depth):
            t = MAKERS[(start + i) % len(MAKERS)](t)
        for nil in (False, True):
            leaves, spec = optree.tree_flatten(t, none_is_leaf=nil)
            back = optree.tree_unflatten(spec, leaves)
            d = tree_diff(t, back)
            l2, s2 = optree.tree_flatten(back, none_is_leaf=nil)
            if d or s2 != spec or len(l2) != len(leaves) or any(a is not b for a, b in zip(l2, leaves)):
                bad.append((depth, start, nil, d))
print('RESULT', len(bad), bad[:5])
sys.exit(1 if bad else 0)
"""


def deep_part(col):
    """Round trip at the deepest admissible nesting (child process: deep recursion)."""
    code = DEEP_CODE.replace('__TREE_DIFF__', U.SRC(tree_diff))
    rc, out, err = U.run_child(code, timeout=600)
    col.tick(32)
    col.nontrivial('deep chains')
    if rc != 0:
        col.finding('C01.deep_roundtrip', f'chains of depth MAX_RECURSION_DEPTH-1 / MAX_RECURSION_DEPTH over 8 container kinds: child exit '
                    f'{rc}: {(out + err)[-400:]}', code, {'returncode': rc})


def run(tier: str, seed: int):
    col = U.Collector('C01 bounded: exact structural round trip flatten/unflatten')
    src = fn_src()
    if tier == 'quick':
        g, ds, txt = U.universe(tier, seed, U.EXT, quick_nodes=4, quick_limit=5000)
    else:
        g, ds, txt = U.universe(tier, seed, U.EXT, thorough_nodes=4)
        g5, ds5, _ = U.universe(tier, seed, U.EXT, thorough_nodes=5, thorough_sample=None, childless=('leaf', 'none'))
        five = [d for d in ds5 if S.count_nodes(d) == 5]
        __import__('random').Random(seed).shuffle(five)
        ds = ds + five[:60000]
        ds += U.random_descrs(seed, U.EXT, 6, 15000) + U.random_descrs(seed + 1, U.EXT, 7, 8000)
        txt += f'; seeded sample of 60000 of the {len(five)} 5-node trees (childless in leaf/None); 15000/8000 seeded random 6/7-node trees'
    for i, d in enumerate(ds):
        tree = g.build(d)
        ks = U.kinds_in(d)
        has_dict = bool(ks & (U.DICT_KINDS | {'empty_dict', 'partial', 'partial_kw'}))
        has_partial = bool(ks & {'partial', 'partial_kw'})
        for o in U.grid(ins_modes=(False, True) if has_dict else (False,)):
            if has_partial and o['is_leaf'] is S.is_leaf_dictlike:
                continue      # the `keywords` dict of a partial would be a leaf; functools.partial copies it (see notes)
            U.run_checks(col, PROP, [chk_roundtrip], src, tree, lambda tree=tree: U.to_src(tree), o,
                         f'tree {S.show(d)} [{U.opt_repr(o)}]')
            if S.count_nodes(d) > 1:
                col.nontrivial((S.show(d), U.opt_repr(o)))
        if i % 3001 == 11:
            col.sample(f'{S.show(d)}: {tree!r}')
    nh = 0
    for h in histories(tier):
        nh += 1
        plain = all(op[0] in ('set', 'append') for op in h[2])
        for o in U.grid(predicates=False):
            if o['namespace'] == S.NS_OTHER:
                continue
            U.run_checks(col, PROP, [chk_history], src, h, lambda h=h: hist_src(h), o,
                         f'history {hist_src(h)} = {apply_history(*h)!r} [{U.opt_repr(o)}]')
            if not plain:
                col.nontrivial((hist_src(h), U.opt_repr(o)))
        if nh % 9001 == 5:
            col.sample(f'{hist_src(h)} -> {apply_history(*h)!r}')
    deep_part(col)
    return col.done(
        rule='non-trivial = tree with at least one internal node, or a history containing an operation other than '
             'first insertions/appends; counted per distinct (input description, options)',
        scope=f'{txt}; kinds {U.EXT}; x none_is_leaf x namespace in {S.NAMESPACES} x is_leaf in [None, is_leaf_list, '
              f'is_leaf_dictlike] x dict-order mode in sorted/insertion (trees holding a dict/defaultdict); {nh} construction '
              f'histories of one-level dict/OrderedDict/defaultdict (set/del/popitem/move_to_end/auto-insertion over 3 keys '
              f'of several pools) and deque(maxlen in 2,3,None: append/appendleft/rotate/pop/popleft) x none_is_leaf x '
              f"namespace in ['', NS] x mode; 32 chains nested MAX_RECURSION_DEPTH-1 / MAX_RECURSION_DEPTH deep (child process)",
        exhaustive=False,
        notes='behaviour of user unflatten functions is assumed (they rebuild what they are given); trees holding an '
              'optree.functools.partial are not evaluated under is_leaf_dictlike: that predicate makes the partial\'s '
              '`keywords` dict a leaf, and functools.partial itself copies / type-checks that argument, so neither leaf '
              'identity nor arbitrary replacement leaves can be promised there (C19 territory); '
              'tree_map(identity) is checked in C05.',
    )
