"""C07 / C10 bounded monitor, part 2: class-exact matching of namedtuple / struct-sequence nodes.

Clause (C07): a treespec node of namedtuple class P matches only instances whose type IS P: an instance of a subclass of P,
of a different namedtuple class with the same number of fields (same or different field names), or a plain tuple does not
match; is_prefix / flatten_up_to / prefix_errors agree on that.  Clause (C10): tree_transpose_map matches every result
against the inner structure, so a later result of another namedtuple class with the same arity raises ValueError instead of
being relabelled.  Clause (C07, custom metadata): custom nodes of one registered type match exactly when their metadata
compare equal, over a pool of metadata values including None, falsy and unhashable ones, in both directions, at depth 0 and 1:
flatten_up_to, is_prefix and prefix_errors agree.  Exhaustive over the listed pairs."""
from ocv.bounded._extra import run_core

CORE = r'''
import collections, time, itertools
import optree

Point = collections.namedtuple('Point', 'x y')
Size = collections.namedtuple('Size', 'w h')
Point2 = collections.namedtuple('Point', 'x y')          # same name and fields, different class
class TaggedPoint(Point):
    __slots__ = ()
class TaggedTagged(TaggedPoint):
    __slots__ = ()
Triple = collections.namedtuple('Triple', 'x y z')

CANDIDATES = {'Point': lambda: Point(1, (2, 3)), 'Size': lambda: Size(1, (2, 3)), 'Point2': lambda: Point2(1, (2, 3)),
              'TaggedPoint': lambda: TaggedPoint(1, (2, 3)), 'TaggedTagged': lambda: TaggedTagged(1, (2, 3)),
              'Triple': lambda: Triple(1, 2, 3), 'tuple': lambda: (1, (2, 3)), 'list': lambda: [1, (2, 3)],
              'struct_time': lambda: time.gmtime(0)}
SPECS = ['Point', 'TaggedPoint', 'Size', 'struct_time']

class Box:
    def __init__(self, children, tag): self.children, self.tag = list(children), tag
    def __repr__(self): return f'Box({self.children!r}, tag={self.tag!r})'
try:
    optree.register_pytree_node(Box, lambda b: (tuple(b.children), b.tag), lambda tag, ch: Box(ch, tag), namespace='c07x')
except ValueError:
    pass
METAS = {'None': lambda: None, 'zero': lambda: 0, 'false': lambda: False, 'empty_str': lambda: '', 'str': lambda: 'x', 'int': lambda: 7,
         'empty_tuple': lambda: (), 'list': lambda: [1], 'dict': lambda: {'a': 1}, 'one': lambda: 1, 'true': lambda: True}

def metadata_case(mp, mf, depth, deeper):
    bad = []
    prefix = Box([1, 2], METAS[mp]())
    full = Box([(3, 4) if deeper else 3, 5], METAS[mf]())
    if depth:
        prefix, full = {'k': [prefix, 0]}, {'k': [full, (1, 2) if deeper else 9]}
    kw = dict(namespace='c07x')
    should = METAS[mp]() == METAS[mf]()
    ts = optree.tree_structure(prefix, **kw)
    try:
        parts = ts.flatten_up_to(full); up_to = True
    except ValueError:
        up_to = False
    except Exception as e:
        up_to = f'raised {type(e).__name__}'
    pref = ts.is_prefix(optree.tree_structure(full, **kw))
    try:
        errs = optree.prefix_errors(prefix, full, **kw)
    except Exception as e:
        errs = f'raised {type(e).__name__}: {e}'
    what = f'prefix {prefix!r} vs full {full!r} (metadata {mp} vs {mf})'
    if up_to is not should:
        bad.append(('C07.custom_metadata_match', f'{what}: flatten_up_to {"succeeded" if up_to is True else "raised ValueError" if up_to is False else up_to}; expected {"success" if should else "ValueError"}'))
    if pref is not should:
        bad.append(('C07.custom_metadata_match', f'{what}: is_prefix = {pref}; expected {should}'))
    if not isinstance(errs, list) or (len(errs) == 0) is not should:
        bad.append(('C07.prefix_errors_agrees', f'{what}: prefix_errors gives {errs!r}; flatten_up_to {"succeeds" if up_to is True else "fails"}, is_prefix = {pref}'))
    return bad

class MyOD(collections.OrderedDict): pass
class MyDD(collections.defaultdict): pass
class MyDict(dict): pass
class MyList(list): pass
class MyTuple(tuple): pass
class MyDeque(collections.deque): pass
SUBS = {'MyOD': lambda: MyOD(a=1, b=2), 'MyDD': lambda: MyDD(list, a=1, b=2), 'MyDict': lambda: MyDict(a=1, b=2),
        'MyList': lambda: MyList([1, 2]), 'MyTuple': lambda: MyTuple((1, 2)), 'MyDeque': lambda: MyDeque([1, 2])}
PROTOS = {'dict': lambda: {'a': 0, 'b': 0}, 'OrderedDict': lambda: collections.OrderedDict(a=0, b=0),
          'defaultdict': lambda: collections.defaultdict(list, a=0, b=0), 'list': lambda: [0, 0], 'tuple': lambda: (0, 0),
          'deque': lambda: collections.deque([0, 0])}

def subclass_case(pname, sname, depth):
    """an instance of a SUBCLASS of a built-in container is a leaf, so it never matches a node of the built-in type"""
    bad = []
    prefix, full = PROTOS[pname](), SUBS[sname]()
    if depth:
        prefix, full = [prefix, 0], [full, 9]
    ts = optree.tree_structure(prefix)
    what = f'prefix {prefix!r} vs full {full!r} (a {sname} instance against a {pname} node)'
    try:
        ts.flatten_up_to(full); up_to = 'succeeded'
    except ValueError:
        up_to = 'ValueError'
    except Exception as e:
        up_to = f'raised {type(e).__name__}'
    pref = ts.is_prefix(optree.tree_structure(full))
    try:
        errs = optree.prefix_errors(prefix, full)
    except Exception as e:
        errs = f'raised {type(e).__name__}: {e}'
    if up_to != 'ValueError':
        bad.append(('C07.node_type_mismatch_raises_valueerror', f'{what}: flatten_up_to {up_to}; expected ValueError (is_prefix = {pref}, prefix_errors = {errs!r})'))
    if pref is not False:
        bad.append(('C07.node_type_mismatch_raises_valueerror', f'{what}: is_prefix = {pref}; expected False'))
    if not isinstance(errs, list) or not errs:
        bad.append(('C07.prefix_errors_agrees', f'{what}: prefix_errors gives {errs!r}; expected a non-empty list'))
    return bad

KEYSETS = {'mixed_extra': ({'a': 1, 'b': 2}, {'a': 1, 'b': 2, 3: 4}), 'mixed_missing': ({'a': 1, 3: 2, None: 5}, {'a': 1}),
           'mixed_both': ({'a': 1, 2: 2}, {(1,): 1, 'z': 2, 5: 0}), 'unsortable': ({'a': 1}, {'a': 1, 1j: 2, None: 3}),
           'same_size_other_keys': ({'a': 1, 1: 2}, {'a': 1, None: 2})}

def keyset_case(name, kind):
    """key-set mismatch with keys of several types: ValueError (never another exception), all three implementations agree"""
    bad = []
    pd, fd = KEYSETS[name]
    mk = {'dict': dict, 'OrderedDict': collections.OrderedDict, 'defaultdict': lambda d: collections.defaultdict(list, d)}[kind]
    prefix, full = mk(pd), mk(fd)
    ts = optree.tree_structure(prefix)
    what = f'prefix {prefix!r} vs full {full!r}'
    try:
        ts.flatten_up_to(full); up_to = 'succeeded'
    except ValueError:
        up_to = 'ValueError'
    except Exception as e:
        up_to = f'raised {type(e).__name__}: {e}'
    try:
        errs = optree.prefix_errors(prefix, full)
    except Exception as e:
        errs = f'raised {type(e).__name__}: {e}'
    pref = ts.is_prefix(optree.tree_structure(full))
    if up_to != 'ValueError':
        bad.append(('C07.key_set_mismatch_raises_valueerror', f'{what}: flatten_up_to {up_to}; expected ValueError'))
    if pref is not False:
        bad.append(('C07.key_set_mismatch_raises_valueerror', f'{what}: is_prefix = {pref}; expected False'))
    if not isinstance(errs, list) or not errs:
        bad.append(('C07.prefix_errors_agrees', f'{what}: prefix_errors gives {errs!r}; expected a non-empty list'))
    return bad

def cases(tier):
    for pname in PROTOS:
        for sname in SUBS:
            for depth in (0, 1):
                yield ('subclass', pname, sname, depth)
    for name in KEYSETS:
        for kind in ('dict', 'OrderedDict', 'defaultdict'):
            yield ('keyset', name, kind)
    for mp in METAS:
        for mf in METAS:
            for depth in (0, 1):
                for deeper in (False, True):
                    yield ('metadata', mp, mf, depth, deeper)
    for s in SPECS:
        for c in CANDIDATES:
            for wrap in (False, True):
                yield ('match', s, c, wrap)
    for first, later in itertools.product(['Point', 'Size', 'Point2', 'TaggedPoint', 'tuple', 'Triple'], repeat=2):
        for given in (False, True):
            yield ('transpose_map', first, later, given)

def check(spec):
    bad = []
    if spec[0] == 'metadata':
        return metadata_case(*spec[1:])
    if spec[0] == 'subclass':
        return subclass_case(*spec[1:])
    if spec[0] == 'keyset':
        return keyset_case(*spec[1:])
    if spec[0] == 'match':
        _, sname, cname, wrap = spec
        proto, cand = CANDIDATES[sname](), CANDIDATES[cname]()
        if sname == 'struct_time':
            proto = time.gmtime(0)
        if wrap:
            proto, cand = {'k': [proto]}, {'k': [cand]}
        ts = optree.tree_structure(optree.tree_map(lambda x: 0, proto))       # leaves directly below the node
        should = (sname == cname)
        try:
            ts.flatten_up_to(cand); up_to = True
        except ValueError:
            up_to = False
        full = optree.tree_structure(cand)
        pref = ts.is_prefix(full)
        errs = optree.prefix_errors(optree.tree_unflatten(ts, [0] * ts.num_leaves), cand)
        if up_to != should:
            bad.append(('C07.flatten_up_to_class_exact', f'treespec {ts!r} (class {sname}) flatten_up_to({cand!r} of class {cname}) {"succeeded" if up_to else "raised ValueError"}; expected {"success" if should else "ValueError"}'))
        if pref != should:
            bad.append(('C07.is_prefix_class_exact', f'treespec {ts!r} (class {sname}).is_prefix(structure of {cand!r} of class {cname}) = {pref}; expected {should}'))
        if (not errs) != should:
            bad.append(('C07.prefix_errors_class_exact', f'prefix_errors for class {sname} vs {cand!r} of class {cname}: {len(errs)} error(s); expected {"none" if should else "at least one"}'))
        return bad
    _, first, later, given = spec
    outs = [CANDIDATES[first], CANDIDATES[later], CANDIDATES[later]]
    it = iter(outs)
    tree = (10, [20, 30])
    inner = optree.tree_structure(CANDIDATES[first]()) if given else None
    same = (first == later)
    for fam in ('tree_transpose_map', 'tree_transpose_map_with_path', 'tree_transpose_map_with_accessor'):
        it = iter(outs)
        f = (lambda x: next(it)()) if fam == 'tree_transpose_map' else (lambda p, x: next(it)())
        try:
            res = getattr(optree, fam)(f, tree, inner_treespec=inner)
            err = None
        except ValueError as e:
            res, err = None, e
        if same and err is not None:
            bad.append(('C10.transpose_map_accepts_matching_results', f'{fam} with results of class {first} x3 raised {err!r}'))
        if not same and err is None:
            bad.append(('C10.transpose_map_matches_every_result_against_inner', f'{fam}: first result of class {first}, later results of class {later}: returned {res!r} instead of raising ValueError'))
    return bad
'''


def run(tier, seed):
    return run_core('c07_extra', CORE, tier,
                    scope='4 node classes x 9 candidate objects (same class, subclass, sub-subclass, same-name class, other class with equal / '
                          'other arity, tuple, list, struct sequence) x bare / nested; transpose_map over 6x6 (first result, later results)',
                    rule='one evaluation = one (treespec, object) pair checked with flatten_up_to, is_prefix and prefix_errors, or one '
                         'tree_transpose_map call per variant')
