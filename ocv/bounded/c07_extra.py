"""C07 / C10 bounded monitor, part 2: class-exact matching of namedtuple / struct-sequence nodes.

Clause (C07): a treespec node of namedtuple class P matches only instances whose type IS P: an instance of a subclass of P,
of a different namedtuple class with the same number of fields (same or different field names), or a plain tuple does not
match; is_prefix / flatten_up_to / prefix_errors agree on that.  Clause (C10): tree_transpose_map matches every result
against the inner structure, so a later result of another namedtuple class with the same arity raises ValueError instead of
being relabelled.  Exhaustive over the listed pairs."""
from ocv.bounded._extra import run_core

CORE = r'''
import collections, time, itertools
import optree

Point = collections.namedtuple('Point', 'x y')
Size = collections.namedtuple('Size', 'w h')
Point2 = collections.namedtuple('Point', 'x y')          # same name and fields, different class
class TaggedPoint(Point):
    __slots__ = ()
class TaggedTagged(TaggedPoint):
    __slots__ = ()
Triple = collections.namedtuple('Triple', 'x y z')

CANDIDATES = {'Point': lambda: Point(1, (2, 3)), 'Size': lambda: Size(1, (2, 3)), 'Point2': lambda: Point2(1, (2, 3)),
              'TaggedPoint': lambda: TaggedPoint(1, (2, 3)), 'TaggedTagged': lambda: TaggedTagged(1, (2, 3)),
              'Triple': lambda: Triple(1, 2, 3), 'tuple': lambda: (1, (2, 3)), 'list': lambda: [1, (2, 3)],
              'struct_time': lambda: time.gmtime(0)}
SPECS = ['Point', 'TaggedPoint', 'Size', 'struct_time']

def cases(tier):
    for s in SPECS:
        for c in CANDIDATES:
            for wrap in (False, True):
                yield ('match', s, c, wrap)
    for first, later in itertools.product(['Point', 'Size', 'Point2', 'TaggedPoint', 'tuple', 'Triple'], repeat=2):
        for given in (False, True):
            yield ('transpose_map', first, later, given)

def check(spec):
    bad = []
    if spec[0] == 'match':
        _, sname, cname, wrap = spec
        proto, cand = CANDIDATES[sname](), CANDIDATES[cname]()
        if sname == 'struct_time':
            proto = time.gmtime(0)
        if wrap:
            proto, cand = {'k': [proto]}, {'k': [cand]}
        ts = optree.tree_structure(optree.tree_map(lambda x: 0, proto))       # leaves directly below the node
        should = (sname == cname)
        try:
            ts.flatten_up_to(cand); up_to = True
        except ValueError:
            up_to = False
        full = optree.tree_structure(cand)
        pref = ts.is_prefix(full)
        errs = optree.prefix_errors(optree.tree_unflatten(ts, [0] * ts.num_leaves), cand)
        if up_to != should:
            bad.append(('C07.flatten_up_to_class_exact', f'treespec {ts!r} (class {sname}) flatten_up_to({cand!r} of class {cname}) {"succeeded" if up_to else "raised ValueError"}; expected {"success" if should else "ValueError"}'))
        if pref != should:
            bad.append(('C07.is_prefix_class_exact', f'treespec {ts!r} (class {sname}).is_prefix(structure of {cand!r} of class {cname}) = {pref}; expected {should}'))
        if (not errs) != should:
            bad.append(('C07.prefix_errors_class_exact', f'prefix_errors for class {sname} vs {cand!r} of class {cname}: {len(errs)} error(s); expected {"none" if should else "at least one"}'))
        return bad
    _, first, later, given = spec
    outs = [CANDIDATES[first], CANDIDATES[later], CANDIDATES[later]]
    it = iter(outs)
    tree = (10, [20, 30])
    inner = optree.tree_structure(CANDIDATES[first]()) if given else None
    same = (first == later)
    for fam in ('tree_transpose_map', 'tree_transpose_map_with_path', 'tree_transpose_map_with_accessor'):
        it = iter(outs)
        f = (lambda x: next(it)()) if fam == 'tree_transpose_map' else (lambda p, x: next(it)())
        try:
            res = getattr(optree, fam)(f, tree, inner_treespec=inner)
            err = None
        except ValueError as e:
            res, err = None, e
        if same and err is not None:
            bad.append(('C10.transpose_map_accepts_matching_results', f'{fam} with results of class {first} x3 raised {err!r}'))
        if not same and err is None:
            bad.append(('C10.transpose_map_matches_every_result_against_inner', f'{fam}: first result of class {first}, later results of class {later}: returned {res!r} instead of raising ValueError'))
    return bad
'''


def run(tier, seed):
    return run_core('c07_extra', CORE, tier,
                    scope='4 node classes x 9 candidate objects (same class, subclass, sub-subclass, same-name class, other class with equal / '
                          'other arity, tuple, list, struct sequence) x bare / nested; transpose_map over 6x6 (first result, later results)',
                    rule='one evaluation = one (treespec, object) pair checked with flatten_up_to, is_prefix and prefix_errors, or one '
                         'tree_transpose_map call per variant')
