"""C18 - the Python twins of engine logic give the same answers as the engine (bounded contract monitor).

Parts (each case is a plain tuple executed by `run_case`, also inside the replay scripts):
  classify  : optree.typing.{is_namedtuple, is_namedtuple_class, is_namedtuple_instance, namedtuple_fields,
              is_structseq, is_structseq_class, is_structseq_instance, structseq_fields}.__python_implementation__
              vs optree._C.<same name> vs what tree_flatten does with an instance, over a generated class universe
  sort      : optree.utils.total_order_sorted(keys) vs the order in which the engine flattens {k: ... for k in keys}
  one_level : tree_flatten_one_level (Python registry) vs the engine's view of the same node (children, metadata,
              entries, kind, type, path entry type, unflatten result; leaf refusal) for one-level nodes of all
              kinds x namespaces x none_is_leaf x dict-order modes
  history   : > 4096 transient classes are classified and freed (cache capacity exceeded, addresses reused); the
              answers for fresh classes at reused addresses and for all live classes stay right

The oracle is the agreement demanded by the property statement itself (differential between twin and engine).
The section between the core markers is pasted verbatim into the replay scripts.
"""
from __future__ import annotations

import itertools
import random
import re

from ocv.bounded import _util_c as U
from ocv.result import BoundedReport

# >>> core
import collections
import dataclasses
import functools
import gc
import itertools
import os
import sys
import time
from collections import OrderedDict, defaultdict, deque

import optree
import optree._C as _C
import optree.registry as _registry
from optree import typing as _T

from ocv.bounded import scope as S

GLOBAL = next(v for k, v in vars(_registry).items() if k.endswith('__GLOBAL_NAMESPACE'))
TWIN_NAMES = ('is_namedtuple', 'is_namedtuple_class', 'is_namedtuple_instance', 'namedtuple_fields',
              'is_structseq', 'is_structseq_class', 'is_structseq_instance', 'structseq_fields')


def outcome(f, x):
    """('ok', value, exact type of the value, exact types of its items) or ('raise', exception type name)."""
    try:
        v = f(x)
    except Exception as e:   # noqa: BLE001 - raising is an answer that must agree, too
        return ('raise', type(e).__name__)
    if isinstance(v, tuple):
        return ('ok', tuple(v), type(v).__name__, tuple(type(i).__name__ for i in v))
    return ('ok', v, type(v).__name__)


# ---- class universe -----------------------------------------------------------------------------
class TupleSub(tuple):
    pass


class StrSub(str):
    pass


FIELDS = {
    'absent': None,
    'tuple_str': lambda: ('a', 'b'),
    'empty_tuple': lambda: (),
    'tuple_subclass': lambda: TupleSub(('a',)),
    'list_str': lambda: ['a', 'b'],
    'tuple_with_int': lambda: ('a', 1),
    'tuple_with_str_subclass': lambda: ('a', StrSub('b')),
    'none': lambda: None,
    'str': lambda: 'ab',
}
MAKE = {'absent': None, 'callable': lambda: classmethod(lambda cls, it: cls(it)), 'not_callable': lambda: 42}
ASDICT = {'absent': None, 'callable': lambda: (lambda self: {}), 'not_callable': lambda: 'nope'}
BASES = {'tuple': (tuple,), 'tuple_subclass': (TupleSub,), 'list': (list,), 'object': (object,)}
STRUCTSEQ_ATTRS = {
    'absent': {},
    'all_ints': {'n_fields': 2, 'n_sequence_fields': 2, 'n_unnamed_fields': 0},
    'bool_n_fields': {'n_fields': True, 'n_sequence_fields': 1, 'n_unnamed_fields': 0},
    'missing_unnamed': {'n_fields': 2, 'n_sequence_fields': 2},
    'str_n_fields': {'n_fields': '2', 'n_sequence_fields': 2, 'n_unnamed_fields': 0},
}


def make_class(spec):
    """Build the class (or non-class object) described by `spec`. Returns (object, instance or None)."""
    kind = spec[0]
    if kind == 'namedtuple':
        n = spec[1]
        cls = collections.namedtuple('NT%d' % n, ['f%d' % i for i in range(n)])
        return cls, cls(*range(n))
    if kind == 'namedtuple_subclass':
        base = collections.namedtuple('NTB', ['x', 'y'])
        cls = type('NTS', (base,), {'__slots__': (), 'extra': 1})
        if spec[1] == 2:
            cls = type('NTSS', (cls,), {})
        return cls, cls(1, 2)
    if kind == 'typing_namedtuple':
        import typing
        cls = typing.NamedTuple('TNT', [('p', int), ('q', str)])
        return cls, cls(1, 'a')
    if kind == 'namedtuple_rename':
        cls = collections.namedtuple('NTR', ['a', 'def', 'a'], rename=True)
        return cls, cls(1, 2, 3)
    if kind == 'namedtuple_defaults':
        cls = collections.namedtuple('NTD', ['a', 'b'], defaults=[5])
        return cls, cls(1)
    if kind == 'lookalike':
        _, base, fields, make, asdict = spec
        ns = {}
        if FIELDS[fields] is not None:
            ns['_fields'] = FIELDS[fields]()
        if MAKE[make] is not None:
            ns['_make'] = MAKE[make]()
        if ASDICT[asdict] is not None:
            ns['_asdict'] = ASDICT[asdict]()
        cls = type('Look', BASES[base], ns)
        try:
            inst = cls((1, 2)) if base != 'object' else cls()
        except Exception:   # noqa: BLE001
            inst = None
        return cls, inst
    if kind == 'raising_attribute':
        _, attr, exc = spec
        etype = {'AttributeError': AttributeError, 'RuntimeError': RuntimeError, 'TypeError': TypeError}[exc]

        def getter(cls, etype=etype):
            raise etype('boom')
        meta = type('Meta', (type,), {attr: property(getter)})
        ns = {'_make': classmethod(lambda cls, it: cls(it)), '_asdict': lambda self: {}, '_fields': ('a',),
              'n_fields': 1, 'n_sequence_fields': 1, 'n_unnamed_fields': 0}
        ns.pop(attr)
        cls = meta('Raising', (tuple,), ns)
        return cls, cls((1,))
    if kind == 'structseq':
        cls = {'terminal_size': os.terminal_size, 'struct_time': time.struct_time, 'stat_result': os.stat_result,
               'float_info': type(sys.float_info), 'version_info': type(sys.version_info), 'flags': type(sys.flags),
               'times_result': os.times_result, 'uname_result': os.uname_result, 'hash_info': type(sys.hash_info),
               'thread_info': type(sys.thread_info), 'int_info': type(sys.int_info)}[spec[1]]
        inst = {'terminal_size': lambda: os.terminal_size((1, 2)), 'struct_time': lambda: time.gmtime(0),
                'stat_result': lambda: os.stat('/'), 'float_info': lambda: sys.float_info, 'version_info': lambda: sys.version_info,
                'flags': lambda: sys.flags, 'times_result': os.times, 'uname_result': os.uname, 'hash_info': lambda: sys.hash_info,
                'thread_info': lambda: sys.thread_info, 'int_info': lambda: sys.int_info}[spec[1]]()
        return cls, inst
    if kind == 'structseq_lookalike':
        _, base, attrs = spec
        cls = type('SSLook', BASES[base], dict(STRUCTSEQ_ATTRS[attrs]))
        return cls, (cls((1, 2)) if base != 'object' else cls())
    if kind == 'builtin':
        cls = {'tuple': tuple, 'list': list, 'dict': dict, 'object': object, 'type': type, 'int': int, 'NoneType': type(None),
               'OrderedDict': OrderedDict, 'deque': deque, 'str': str}[spec[1]]
        return cls, None
    if kind == 'nonclass':
        obj = {'int': 1, 'str': 'abc', 'tuple': (1, 2), 'none': None, 'namedtuple_function': collections.namedtuple,
               'function': len, 'nt_instance': S.Point(1, 2), 'structseq_instance': os.terminal_size((3, 4)),
               'module': os, 'list': [1]}[spec[1]]
        return obj, None
    raise AssertionError(spec)


def class_universe():
    u = [('namedtuple', n) for n in range(4)]
    u += [('namedtuple_subclass', 1), ('namedtuple_subclass', 2), ('typing_namedtuple',), ('namedtuple_rename',), ('namedtuple_defaults',)]
    u += [('lookalike', b, f, m, a) for b in BASES for f in FIELDS for m in MAKE for a in ASDICT]
    u += [('raising_attribute', attr, exc) for attr in ('_fields', '_make', '_asdict', 'n_fields', 'n_unnamed_fields')
          for exc in ('AttributeError', 'RuntimeError', 'TypeError')]
    u += [('structseq', n) for n in ('terminal_size', 'struct_time', 'stat_result', 'float_info', 'version_info', 'flags',
                                     'times_result', 'uname_result', 'hash_info', 'thread_info', 'int_info')]
    u += [('structseq_lookalike', b, a) for b in ('tuple', 'tuple_subclass', 'object') for a in STRUCTSEQ_ATTRS]
    u += [('builtin', n) for n in ('tuple', 'list', 'dict', 'object', 'type', 'int', 'NoneType', 'OrderedDict', 'deque', 'str')]
    u += [('nonclass', n) for n in ('int', 'str', 'tuple', 'none', 'namedtuple_function', 'function', 'nt_instance',
                                    'structseq_instance', 'module', 'list')]
    return u


GENUINE = ('namedtuple', 'namedtuple_subclass', 'typing_namedtuple', 'namedtuple_rename', 'namedtuple_defaults', 'structseq')


def classify_answers(obj, inst, which):
    """which = 'py' | 'cxx' -> {(function name, 'class'|'instance'): outcome}"""
    out = {}
    for name in TWIN_NAMES:
        f = getattr(_T, name).__python_implementation__ if which == 'py' else getattr(_C, name)
        out[(name, 'class')] = outcome(f, obj)
        if inst is not None:
            out[(name, 'instance')] = outcome(f, inst)
    return out


CLAUSE_OF = {'is_namedtuple': 'C18.is_namedtuple_class_twin_agrees', 'is_namedtuple_class': 'C18.is_namedtuple_class_twin_agrees',
             'is_namedtuple_instance': 'C18.is_namedtuple_class_twin_agrees', 'namedtuple_fields': 'C18.namedtuple_fields_twin_agrees',
             'is_structseq': 'C18.is_structseq_class_twin_agrees', 'is_structseq_class': 'C18.is_structseq_class_twin_agrees',
             'is_structseq_instance': 'C18.is_structseq_class_twin_agrees', 'structseq_fields': 'C18.structseq_fields_twin_agrees'}


def case_classify(spec):
    out = []
    obj, inst = make_class(spec)
    py = classify_answers(obj, inst, 'py')
    cxx = classify_answers(obj, inst, 'cxx')
    evals = len(py)
    for k in py:
        if py[k] != cxx[k]:
            detail = 'class universe element %r: %s(%s) -> Python twin %r, engine %r' % (
                spec, k[0], 'the class' if k[1] == 'class' else 'an instance', py[k], cxx[k])
            if spec[0] == 'raising_attribute' and py[k] == ('raise', spec[2]) and spec[2] != 'AttributeError':
                # stable prefix: the twin lets the exception of the attribute lookup escape, the engine swallows it
                detail = 'attribute lookup raises %s: %s: %s' % (spec[2], k[0], detail)
            out.append((CLAUSE_OF[k[0]], detail))
    # the public (overridden) functions are the engine's
    for name in TWIN_NAMES:
        evals += 1
        pub = outcome(getattr(optree, name), obj)
        if pub != cxx[(name, 'class')]:
            out.append((CLAUSE_OF[name], 'class universe element %r: optree.%s -> %r but optree._C.%s -> %r'
                        % (spec, name, pub, name, cxx[(name, 'class')])))
    # ... and they describe what flattening does with an instance
    if inst is not None and isinstance(obj, type) and not isinstance(inst, (list, dict)):
        evals += 1
        is_nt = cxx[('is_namedtuple_class', 'class')][1] is True
        is_ss = cxx[('is_structseq_class', 'class')][1] is True
        leaves, tspec = optree.tree_flatten(inst)
        kind = tspec.kind.name
        want = 'STRUCTSEQUENCE' if is_ss else ('NAMEDTUPLE' if is_nt else ('TUPLE' if type(inst) is tuple else 'LEAF'))
        if kind != want:
            out.append(('C18.classification_matches_flatten', 'class universe element %r: tree_flatten(instance) makes a %s node but '
                        'is_structseq_class=%s, is_namedtuple_class=%s (expected %s)' % (spec, kind, is_ss, is_nt, want)))
        elif kind in ('NAMEDTUPLE', 'STRUCTSEQUENCE') and spec[0] in GENUINE:
            fields = cxx[('structseq_fields' if is_ss else 'namedtuple_fields', 'class')]
            if fields[0] != 'ok' or len(fields[1]) != tspec.num_children or leaves != list(inst)[:len(fields[1])]:
                out.append(('C18.classification_matches_flatten', 'class universe element %r: node has %d children %r, fields answer %r'
                            % (spec, tspec.num_children, leaves, fields)))
    return out, evals


# ---- sort ---------------------------------------------------------------------------------------
class PartialKey:
    """Orderable against ints, not against its own kind: the second sort stage fails after the first permuted the list."""

    def __init__(self, n):
        self.n = n

    def __repr__(self):
        return 'PartialKey(%d)' % self.n

    def __hash__(self):
        return hash(('PartialKey', self.n))

    def __eq__(self, other):
        return isinstance(other, PartialKey) and other.n == self.n

    def __lt__(self, other):
        if isinstance(other, int):
            return self.n < other
        raise TypeError('PartialKey is not orderable against %s' % type(other).__name__)

    def __gt__(self, other):
        if isinstance(other, int):
            return self.n > other
        raise TypeError('PartialKey is not orderable against %s' % type(other).__name__)


class NotImplKey:
    """__lt__ returns NotImplemented for everything."""

    def __init__(self, n):
        self.n = n

    def __repr__(self):
        return 'NotImplKey(%d)' % self.n

    def __hash__(self):
        return hash(('NotImplKey', self.n))

    def __eq__(self, other):
        return isinstance(other, NotImplKey) and other.n == self.n

    def __lt__(self, other):
        return NotImplemented


SORT_POOLS = {
    'ints': [3, 1, 2, -5, 10],
    'strs': ['b', 'a', 'ab', '', 'B'],
    'mixed': [2, 'a', 1, (0,), None, 'b'],
    'numeric': [2, 1.5, True, -1, 0.0],
    'partly': [3, 1, 2, S.UK[0], S.UK[1]],
    'partial_key': [2, 1, PartialKey(5), PartialKey(0), 3],
    'complex': [3, 1, 2, 1j, 2j],
    'unorderable': [S.UK[2], S.UK[0], S.UK[1], NotImplKey(1), NotImplKey(0)],
    'frozensets': [frozenset({1}), frozenset({2}), frozenset({1, 2}), frozenset(), frozenset({3})],
    'tuples': [(1, 'a'), (1, 2), ('a',), (), (1,)],
    'nan': [float('nan'), 1.0, 0.5, float('inf'), 2],
    'bytes_str': [b'a', 'a', b'', 'b', 1],
}


SORT_EXTRA = {     # appended to the pools in the thorough tier
    'ints': [7, 0], 'strs': ['aa', 'c'], 'mixed': [b'x', 2.5], 'numeric': [3, -0.5], 'partly': [S.UK[2], 0],
    'partial_key': [PartialKey(2), 0], 'complex': [3j, 0], 'unorderable': [S.UK[3], 5], 'frozensets': [frozenset({2, 3}), 1],
    'tuples': [(2,), ('a', 1)], 'nan': [float('-inf'), 'x'], 'bytes_str': [b'b', None],
}


def pool_keys(pool):
    if pool.endswith('+'):
        return SORT_POOLS[pool[:-1]] + SORT_EXTRA[pool[:-1]]
    return SORT_POOLS[pool]


def mixed_keys(seed, n):
    """n keys drawn (seeded) from the union of all pools, pairwise unequal so that they can live in one dict."""
    import random as _random
    rng = _random.Random(seed)
    union = [k for p in SORT_POOLS for k in SORT_POOLS[p] + SORT_EXTRA[p]]
    rng.shuffle(union)
    keys = []
    for k in union:
        if len(keys) == n:
            break
        if not any(k == o or (k != k and o != o) for o in keys):
            keys.append(k)
    return keys


def case_sort(pool, idxs):
    keys = mixed_keys(idxs[0], idxs[1]) if pool == '*mixed*' else [pool_keys(pool)[i] for i in idxs]
    out = []
    twin = outcome(lambda ks: list(optree.utils.total_order_sorted(ks)), list(keys))
    d = {k: i for i, k in enumerate(keys)}

    def engine(d):
        leaves, spec = optree.tree_flatten(d)
        ents = spec.entries()
        if [d[k] for k in ents] != leaves:
            raise AssertionError('entries %r and leaves %r of the same flatten disagree' % (ents, leaves))
        return ents
    eng = outcome(engine, d)

    def same(a, b):
        return a[0] == b[0] and (a[0] != 'ok' or (len(a[1]) == len(b[1]) and all(x is y for x, y in zip(a[1], b[1]))))
    if not same(twin, eng):
        out.append(('C18.total_order_sorted_twin_agrees', 'keys %r (insertion order): total_order_sorted -> %r, engine flattens the dict in '
                    'key order %r' % (keys, twin[1] if twin[0] == 'ok' else twin, eng[1] if eng[0] == 'ok' else eng)))
    dd = defaultdict(int, d)
    eng2 = outcome(lambda x: optree.tree_structure(x).entries(), dd)
    if not same(eng, eng2):
        out.append(('C18.total_order_sorted_twin_agrees', 'keys %r: engine key order differs between dict %r and defaultdict %r'
                    % (keys, eng, eng2)))
    return out, 2


# ---- one level ----------------------------------------------------------------------------------
ONE_LEVEL_KINDS = [k.name for k in S.KINDS]


def one_level_nodes():
    """(kind name, arity, child flavour) for every kind of node; children are leaves or small subtrees."""
    out = [('none', 0, 'leaf'), ('leafobj', 0, 'leaf')]
    for k in S.KINDS:
        for n in range(0, 5):
            if k.ok(n):
                out.append((k.name, n, 'leaf'))
                if n in (1, 2):
                    out.append((k.name, n, 'subtree'))
    for extra in (('partial', 2, 'leaf'), ('partial', 0, 'leaf'), ('partial', 3, 'subtree'), ('odc', 2, 'leaf'), ('odc', 2, 'subtree'), ('tuple_subclass', 2, 'leaf'), ('list_subclass', 1, 'leaf'),
                  ('dict_subclass', 1, 'leaf'), ('dict_partly', 4, 'leaf'), ('dict_bool_int', 3, 'leaf'), ('structtime', 9, 'leaf')):
        out.append(extra)
    return out


class MyDict(dict):
    pass


_ODC = []


def odc_class():
    """An optree dataclass registered (once) in namespace S.NS: two child fields, one metadata field."""
    if not _ODC:
        import optree.dataclasses as odc

        @odc.dataclass(namespace=S.NS)
        class ODC:
            x: object
            m: object = odc.field(default='meta', pytree_node=False)
            y: object = None
        _ODC.append(ODC)
    return _ODC[0]


class MyList(list):
    pass


def make_node(kind, n, flavour):
    c = itertools.count()

    def child():
        if flavour == 'leaf':
            return S.L(next(c))
        return {'z': S.L(next(c)), 'y': [S.L(next(c)), None]}
    if kind == 'none':
        return None
    if kind == 'leafobj':
        return S.L(0)
    ch = [child() for _ in range(n)]
    if kind == 'partial':
        import optree.functools
        return optree.functools.partial(len, *ch[:1], **{'kw%d' % i: x for i, x in enumerate(ch[1:])})
    if kind == 'odc':
        return odc_class()(ch[0], 'meta-value', ch[1])
    if kind == 'tuple_subclass':
        return TupleSub(ch)
    if kind == 'list_subclass':
        return MyList(ch)
    if kind == 'dict_subclass':
        return MyDict(a=ch[0])
    if kind == 'dict_partly':
        return dict(zip(S.KEY_POOLS['partly'], ch))
    if kind == 'dict_bool_int':
        return dict(zip(S.KEY_POOLS['bool_int'], ch))
    if kind == 'structtime':
        return S.StructTime(tuple(ch))
    return S.KIND_BY_NAME[kind].make(ch)


MODES = ('sorted', 'insertion_in_ns', 'insertion_global')


class _mode:
    def __init__(self, mode, ns):
        self.cm = None
        if mode == 'insertion_in_ns' and ns != '':
            self.cm = optree.dict_insertion_ordered(True, namespace=ns)
        elif mode == 'insertion_global' or (mode == 'insertion_in_ns' and ns == ''):
            self.cm = optree.dict_insertion_ordered(True, namespace=GLOBAL)

    def __enter__(self):
        if self.cm is not None:
            self.cm.__enter__()

    def __exit__(self, *a):
        if self.cm is not None:
            return self.cm.__exit__(*a)


def eq_value(a, b):
    """Equality of rebuilt nodes: exact type, ==, plus what == does not look at (maxlen, default_factory)."""
    if type(a) is not type(b):
        return False
    if isinstance(a, deque) and a.maxlen != b.maxlen:
        return False
    if isinstance(a, defaultdict) and a.default_factory is not b.default_factory:
        return False
    if isinstance(a, (S.CustomE, S.CustomF, S.CustomN)):
        return a == b
    if isinstance(a, functools.partial):
        return a.func is b.func and len(a.args) == len(b.args) and all(x is y for x, y in zip(a.args, b.args)) and \
            list(a.keywords) == list(b.keywords) and all(a.keywords[k] is b.keywords[k] for k in a.keywords)
    if dataclasses.is_dataclass(a):
        return all(eq_value(getattr(a, f.name), getattr(b, f.name)) for f in dataclasses.fields(a))
    try:
        return bool(a == b)
    except Exception:   # noqa: BLE001
        return False


def eq_meta(a, b):
    if type(a) is not type(b):
        return False
    if isinstance(a, (list, tuple)):
        return len(a) == len(b) and all(eq_meta(x, y) for x, y in zip(a, b))
    if isinstance(a, (S.UKey,)) or a is b:
        return a is b
    try:
        return bool(a == b)
    except Exception:   # noqa: BLE001
        return False


def case_one_level(kind, n, flavour, ns, nil, mode):
    S.ensure_registered()
    odc_class()
    out = []
    x = make_node(kind, n, flavour)
    label = 'node %s/%d/%s = %r in namespace %r none_is_leaf=%s mode=%s' % (kind, n, flavour, x, ns, nil, mode)
    with _mode(mode, ns):
        # engine: the root only (everything below the root is a leaf for this observation)
        leaves, spec = optree.tree_flatten(x, is_leaf=lambda y: y is not x, none_is_leaf=nil, namespace=ns)
        engine_leaf = spec.kind.name == 'LEAF'
        try:
            py = optree.tree_flatten_one_level(x, none_is_leaf=nil, namespace=ns)
        except ValueError as e:
            if 'Cannot flatten leaf-type' not in str(e):
                raise
            py = None
        if (py is None) != engine_leaf:
            out.append(('C18.one_level_leaf_agree', '%s: tree_flatten_one_level %s but the engine treats it as %s'
                        % (label, 'refuses it as a leaf' if py is None else 'flattens it', 'a leaf' if engine_leaf else 'a %s node' % spec.kind.name)))
            return out, 1
        if py is None:
            return out, 1
        # children: same objects, same order
        if len(py.children) != len(leaves) or any(a is not b for a, b in zip(py.children, leaves)):
            out.append(('C18.one_level_children_agree', '%s: Python children %r, engine children %r' % (label, py.children, leaves)))
        # entries
        ee = spec.entries()
        if not isinstance(py.entries, tuple) or not eq_meta(list(py.entries), ee):
            out.append(('C18.one_level_entries_agree', '%s: Python entries %r, engine entries %r' % (label, py.entries, ee)))
        # kind / type
        if py.kind != spec.kind or py.type is not spec.type:
            out.append(('C18.one_level_kind_type_agree', '%s: Python (kind, type) = (%s, %r), engine (%s, %r)'
                        % (label, py.kind, py.type, spec.kind, spec.type)))
        # the same through PyTreeSpec.one_level() of the full treespec
        ol = optree.tree_structure(x, none_is_leaf=nil, namespace=ns).one_level()
        if ol is None or ol.kind != py.kind or ol.type is not py.type or not eq_meta(ol.entries(), list(py.entries)) or \
                ol.num_children != len(py.children):
            out.append(('C18.one_level_kind_type_agree', '%s: tree_structure(node).one_level() = %r disagrees with the Python one-level '
                        'flatten (kind %s, type %r, entries %r)' % (label, ol, py.kind, py.type, py.entries)))
        # metadata (engine: what PyTreeSpec.walk hands to f_node)
        marks = list(range(len(leaves)))
        wtype, wmeta, wchildren = spec.walk(marks, lambda t, m, c: (t, m, c))
        if not eq_meta(py.metadata, wmeta) or wtype is not py.type or list(wchildren) != marks:
            out.append(('C18.one_level_metadata_agree', '%s: Python metadata %r (type %r), engine walk() gives metadata %r (type %r)'
                        % (label, py.metadata, py.type, wmeta, wtype)))
        # path entry type: the engine's accessors are built from the registered path entry type
        accs = spec.accessors()
        for i, acc in enumerate(accs):
            if len(acc) != 1:
                out.append(('C18.one_level_path_entry_type_agree', '%s: accessor %r of a one-level treespec is not of length 1' % (label, acc)))
                break
            want = py.path_entry_type(py.entries[i], py.type, py.kind)
            got = acc[0]
            if type(got) is not type(want) or not eq_meta(got.entry, want.entry) or got.type is not want.type or got.kind != want.kind:
                out.append(('C18.one_level_path_entry_type_agree', '%s: child %d: engine path entry %r, Python registry says %r'
                            % (label, i, got, want)))
                break
        # unflatten
        pv = py.unflatten_func(py.metadata, py.children)
        ev = spec.unflatten(leaves)
        if not eq_value(pv, ev) or not eq_value(ev, x):
            out.append(('C18.one_level_unflatten_agree', '%s: Python unflatten_func gives %r, engine unflatten gives %r' % (label, pv, ev)))
    return out, 8


# ---- history independence -----------------------------------------------------------------------

def _mk_transient(i):
    """Alternate classes for which the namedtuple answer is True / False (same size, so addresses get reused)."""
    if i % 2 == 0:
        return type('T%d' % i, (tuple,), {'_fields': ('a',), '_make': classmethod(lambda cls, it: cls(it)), '_asdict': lambda self: {}}), True
    return type('T%d' % i, (tuple,), {'_fields': ['a'], '_make': classmethod(lambda cls, it: cls(it)), '_asdict': lambda self: {}}), False


def case_history(n_transient, rounds):
    out = []
    evals = 0
    specs = class_universe()
    live = [(s,) + make_class(s) for s in specs]
    before = [classify_answers(o, i, 'cxx') for _, o, i in live]
    flat_before = [optree.tree_structure(i).kind.name if i is not None and not isinstance(i, (list, dict)) else None for _, o, i in live]
    freed_ids = {}
    reused = 0
    for r in range(rounds):
        batch = []
        for i in range(n_transient):
            cls, want = _mk_transient(i + r)           # parity shifts every round: an address changes its answer
            got = _C.is_namedtuple_class(cls)
            got_ss = _C.is_structseq_class(cls)
            evals += 1
            if id(cls) in freed_ids:
                reused += 1
                old = freed_ids[id(cls)]
            else:
                old = None
            if got is not want or got_ss is not False or _C.is_namedtuple(cls((1,))) is not want:
                out.append(('C18.answers_independent_of_history', 'round %d, transient class #%d (%s a freed class with answer %r): engine '
                            'is_namedtuple_class -> %r, is_structseq_class -> %r; the twin and a fresh computation say %r / False'
                            % (r, i, 'at the address of' if old is not None else 'not at the address of', old, got, got_ss, want)))
                if len(out) > 5:
                    return out, evals, reused
            kind = optree.tree_structure(cls((1,))).kind.name
            if kind != ('NAMEDTUPLE' if want else 'LEAF'):
                out.append(('C18.answers_independent_of_history', 'round %d, transient class #%d: flatten makes a %s node, expected %s'
                            % (r, i, kind, 'NAMEDTUPLE' if want else 'LEAF')))
            batch.append((cls, want))
        # all of them alive at once: more live classified types than the cache can hold; ask again
        for cls, want in batch[::7]:
            evals += 1
            if _C.is_namedtuple_class(cls) is not want:
                out.append(('C18.answers_independent_of_history', 'round %d: second query of a live transient class gives %r, first gave %r'
                            % (r, not want, want)))
                break
        freed_ids = {id(cls): want for cls, want in batch}
        del batch, cls
        gc.collect()
        # live classes: same answers as before any transient class existed
        for (s, o, i), b, fb in zip(live, before, flat_before):
            evals += 1
            now = classify_answers(o, i, 'cxx')
            if now != b:
                k = next(k for k in b if now[k] != b[k])
                out.append(('C18.answers_independent_of_history', 'after round %d (%d transient classes created, classified and freed) the '
                            'engine answer %s for live class %r changed from %r to %r' % (r, n_transient, k, s, b[k], now[k])))
            if fb is not None and optree.tree_structure(i).kind.name != fb:
                out.append(('C18.answers_independent_of_history', 'after round %d flatten of an instance of live class %r makes a %s node, '
                            'before: %s' % (r, s, optree.tree_structure(i).kind.name, fb)))
    return out, evals, reused


def run_case(case):
    part = case[0]
    if part == 'classify':
        return case_classify(case[1])
    if part == 'sort':
        return case_sort(case[1], case[2])
    if part == 'one_level':
        return case_one_level(*case[1:])
    if part == 'history':
        o, e, _ = case_history(case[1], case[2])
        return o, e
    raise AssertionError(part)
# <<< core


def _core_source() -> str:
    src = open(__file__).read()
    return src[src.index('\n# >>> core\n') + 1:src.index('\n# <<< core\n') + 1]


def _script(case, key) -> str:
    return (_core_source() + '\n\n'
            f'CASE = {case!r}\nKEY = {key!r}\n'
            'try:\n'
            '    found, _ = run_case(CASE)\n'
            'except Exception:\n'
            '    import traceback\n'
            '    traceback.print_exc()\n'
            '    sys.exit(2)   # the replay itself is broken - not a reproduction\n'
            'for k, d in found:\n'
            '    print(k, d[:600])\n'
            'sys.exit(1 if any(k == KEY for k, _ in found) else 0)\n')


def _run(ctx: U.Ctx, tier: str, seed: int) -> BoundedReport:
    rng = random.Random(seed)
    quick = tier == 'quick'
    S.ensure_registered()
    counts = {'classify': 0, 'sort': 0, 'one_level': 0, 'history': 0}

    def one(case, nontrivial):
        counts[case[0]] += 1
        ctx.progress(repr(case)[:600])
        try:
            found, evals = run_case(case)
        except Exception as e:   # noqa: BLE001 - an exception the contract does not allow (or a broken case): report it
            ctx.fail('C18.unexpected_exception', f'case {case!r} raised {type(e).__name__}: {e}', lambda: _script(case, 'C18.unexpected_exception'),
                     {'case': repr(case)})
            ctx.count(1)
            return
        ctx.count(evals)
        if nontrivial:
            ctx.mark_nontrivial(case)
        for key, detail in found:
            m = re.match(r'attribute lookup raises (\w+): (\w+):', detail)
            if m:    # one finding per (function, exception class), with a quota of its own
                ctx.fail(key, detail, lambda: _script(case, key), {'case': repr(case)}, group=m.groups(), cap=1)
            else:
                ctx.fail(key, detail, lambda: _script(case, key), {'case': repr(case)})

    parts = []
    # classify
    uni = class_universe()
    for spec in uni:
        one(('classify', spec), spec[0] not in ('builtin', 'nonclass'))
    parts.append(f'classify: {len(uni)} generated classes / objects (genuine namedtuples, 324 look-alikes = 4 bases x 9 kinds of _fields x 3 '
                 f'_make x 3 _asdict, class attributes that raise, 11 struct sequence types, struct sequence look-alikes, '
                 f'built-ins, non-classes) x 8 twin functions x (class, instance)')
    # sort
    maxlen = 5 if quick else 6
    n_sort = 0
    pools = list(SORT_POOLS) if quick else [p + '+' for p in SORT_POOLS]
    for pool in pools:
        n = len(pool_keys(pool))
        for k in range(0, min(maxlen, n) + 1):
            for idxs in itertools.permutations(range(n), k):
                one(('sort', pool, idxs), len(idxs) >= 2)
                n_sort += 1
        if ctx.out_of_time():
            break
    n_mix = 20000 if quick else 100000
    for i in range(n_mix):
        one(('sort', '*mixed*', (seed * 1000003 + i, 2 + i % 7)), True)
        if i % 500 == 0 and ctx.out_of_time():
            break
    parts.append(f'sort: {n_sort} key lists = every ordered selection of <={maxlen} keys from each of {len(pools)} pools of '
                 f'{"5-6" if quick else "7-8"} keys (ints, strs, mixed types, numeric mix, partly ordered, keys ordered only against '
                 f'ints, complex, unorderable, frozensets, tuples, NaN, bytes/str) + {n_mix} seeded lists of 2-8 keys drawn from '
                 f'the union of all pools')
    # one level
    nodes = one_level_nodes()
    grid = [(ns, nil, mode) for ns in ('', S.NS, S.NS_OTHER) for nil in (False, True) for mode in MODES]
    for node in nodes:
        for ns, nil, mode in grid:
            one(('one_level',) + node + (ns, nil, mode), node[1] > 0)
        if ctx.out_of_time():
            break
    parts.append(f'one_level: {len(nodes)} one-level nodes (all {len(S.KINDS)} kinds x arity 0..4 with leaf / subtree children, None, '
                 f'opaque object, optree partial, tuple/list/dict subclasses, struct_time, dicts with partly ordered and bool/int keys) x '
                 f'3 namespaces x none_is_leaf x 3 dict-order modes')
    # history
    n_tr, rounds = (6000, 12) if quick else (9000, 80)
    ctx.progress(f'history {n_tr} x {rounds}')
    try:
        found, evals, reused = case_history(n_tr, rounds)
    except Exception as e:   # noqa: BLE001
        found, evals, reused = [('C18.unexpected_exception', f'history part raised {type(e).__name__}: {e}')], 1, 0
    ctx.count(evals)
    ctx.nontrivial_extra += reused
    for key, detail in found:
        ctx.fail(key, detail, lambda: _script(('history', n_tr, rounds), key), {'case': repr(('history', n_tr, rounds))})
    parts.append(f'history: {rounds} rounds x {n_tr} transient tuple subclasses (alternating namedtuple-like / not) created, classified, '
                 f'held alive together (> cache capacity 4096), freed; {reused} fresh classes landed on the address of a freed one; '
                 f'after every round all {len(uni)} live classes / objects are re-classified')
    ctx.notes.append('not checked: key order of plain dicts rebuilt by the two unflatten paths (dict == ignores it); transient struct '
                     'sequence types (cannot be created from Python); total_order_sorted(key=..., reverse=...) (no engine counterpart); '
                     'PyPy branches')
    for c in [('classify', ('lookalike', 'tuple', 'tuple_subclass', 'callable', 'callable')), ('sort', 'partly', (0, 1, 2, 3, 4)),
              ('one_level', 'ddict', 2, 'leaf', S.NS, False, 'insertion_in_ns'), ('one_level', 'customE', 2, 'subtree', '', True, 'sorted'),
              ('history', n_tr, rounds)]:
        ctx.sample(repr(c))
    return ctx.report(
        rule='non-trivial: classify - a class (not a built-in / non-class); sort - at least 2 keys; one_level - a node with children; '
             'history - one per fresh class created at the address of a freed class. One evaluation = one comparison twin vs engine '
             '(one function on one class or instance; one key list; one aspect of one one-level node) or one re-check of an answer',
        scope='; '.join(parts),
        exhaustive=not ctx.truncated)


def run(tier: str, seed: int) -> BoundedReport:
    budget = 50 if tier == 'quick' else 600
    return U.run_isolated('c18_twins', 'C18', tier, seed, budget_s=budget, hard_timeout_s=budget * 2 + 60)
