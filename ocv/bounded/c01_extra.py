"""C01 bounded monitor, part 2: container metadata far from the common values.

Clause: "Flattening the rebuilt tree again yields the identical leaves and an equal treespec" (and equal hash), for deques
whose maxlen is None / 0 / small / beyond CPython's small-int cache (equal but not identical int objects), nested at several
depths and under every option combination; plus defaultdicts whose default_factory objects are equal but not identical.
Exhaustive over the listed grid.
Plus one history: more than 4096 transient tuple subclasses (alternately namedtuple-like and plain) are flattened and freed, so that
the class-predicate cache overflows and addresses are reused; leaves, node types and the round trip must not depend on it."""
from ocv.bounded._extra import run_core

CORE = r'''
import collections, itertools
import optree

class Fac:
    """callable default_factory with value equality"""
    def __init__(self, v): self.v = v
    def __call__(self): return self.v
    def __eq__(self, o): return type(o) is Fac and o.v == self.v
    def __hash__(self): return hash(('Fac', self.v))
    def __repr__(self): return f'Fac({self.v})'

MAXLENS = [None, 0, 1, 2, 255, 256, 257, 258, 1000, 65536, 10**6, 2**31 - 1]
WRAPS = ['bare', 'tuple', 'list', 'dict', 'deque']

def mk(kind, param, depth_wrap):
    leaves = [object(), object()]
    if kind == 'deque':
        inner = collections.deque(leaves if param != 0 else [], maxlen=(int(str(param)) if param is not None else None))
    else:
        d = collections.defaultdict(Fac(param)); d['k1'] = leaves[0]; d['k0'] = leaves[1]; inner = d
    return {'bare': inner, 'tuple': (inner, 1), 'list': [0, inner], 'dict': {'a': inner},
            'deque': collections.deque([inner, 2], maxlen=(int(str(param)) + 5 if isinstance(param, int) else None))}[depth_wrap]

def mk_transient(i):
    """alternately a class the engine must treat as a namedtuple and a plain tuple subclass (same size: addresses get reused)"""
    new = lambda cls, a: tuple.__new__(cls, (a,))
    if i % 2 == 0:
        return type('T%d' % i, (tuple,), {'__new__': new, '_fields': ('a',), '_make': classmethod(lambda cls, it: cls(*it)), '_asdict': lambda self: {}}), True
    return type('T%d' % i, (tuple,), {'__new__': new, '_fields': ['a'], '_make': classmethod(lambda cls, it: cls(*it)), '_asdict': lambda self: {}}), False

def cases(tier):
    yield ('history', 4300, 2 if tier == 'quick' else 4)
    for wrap in WRAPS:
        for nil in (False, True):
            for m in MAXLENS:
                yield ('deque', m, wrap, nil)
            for v in (0, 7, 1000, 'x'):
                yield ('ddict', v, wrap, nil)

def same_tree(x, y):
    if type(x) is not type(y): return False
    if isinstance(x, collections.deque): return x.maxlen == y.maxlen and len(x) == len(y) and all(same_tree(a, b) for a, b in zip(x, y))
    if isinstance(x, dict):
        if isinstance(x, collections.defaultdict) and x.default_factory != y.default_factory: return False
        return list(x) == list(y) and all(same_tree(x[k], y[k]) for k in x)
    if isinstance(x, (tuple, list)): return len(x) == len(y) and all(same_tree(a, b) for a, b in zip(x, y))
    return x is y

def check_history(n, rounds):
    import gc
    bad = []
    for r in range(rounds):
        batch = []
        for i in range(n):
            cls, is_nt = mk_transient(i + r)           # parity shifts every round: a reused address changes its answer
            payload = object()
            inst = cls(payload)
            tree = [inst, payload]
            leaves, ts = optree.tree_flatten(tree)
            want = [payload, payload] if is_nt else [inst, payload]
            if not (len(leaves) == len(want) and all(a is b for a, b in zip(leaves, want))):
                bad.append(('C01.leaves_and_types_independent_of_class_history', f'round {r}, class #{i} ({"namedtuple-like" if is_nt else "plain tuple subclass"}), after {r * n + i} classes were seen: flatten gives leaves {leaves!r}, expected {want!r}'))
            else:
                try:
                    back = optree.tree_unflatten(ts, leaves)
                    if type(back[0]) is not cls or tuple(back[0]) != tuple(inst) or back[1] is not payload:
                        bad.append(('C01.leaves_and_types_independent_of_class_history', f'round {r}, class #{i}: rebuilt {back!r} differs from {tree!r}'))
                except Exception as e:
                    bad.append(('C01.leaves_and_types_independent_of_class_history', f'round {r}, class #{i}: unflatten raised {type(e).__name__}: {e}'))
            if len(bad) > 3:
                return bad
            batch.append(cls)
        del batch, cls, inst, tree
        gc.collect()
    return bad

def check(spec):
    if spec[0] == 'history':
        return check_history(spec[1], spec[2])
    kind, param, wrap, nil = spec
    t1 = mk(kind, param, wrap)
    bad = []
    leaves, ts = optree.tree_flatten(t1, none_is_leaf=nil)
    rebuilt = optree.tree_unflatten(ts, leaves)
    if not same_tree(t1, rebuilt):
        bad.append(('C01.rebuilt_tree', f'unflatten(flatten(t)) = {rebuilt!r} differs from t = {t1!r}'))
    leaves2, ts2 = optree.tree_flatten(rebuilt, none_is_leaf=nil)
    if not (len(leaves2) == len(leaves) and all(a is b for a, b in zip(leaves, leaves2))):
        bad.append(('C01.reflatten_leaves', f'flattening the rebuilt tree of {t1!r} gives other leaves'))
    if not (ts2 == ts) or (ts2 != ts):
        bad.append(('C01.reflatten_treespec_equal', f'treespec of the rebuilt tree {ts2!r} != treespec of the original {ts!r} (tree {t1!r})'))
    elif hash(ts2) != hash(ts):
        bad.append(('C01.reflatten_treespec_equal', f'equal treespecs of original and rebuilt tree hash differently (tree {t1!r})'))
    # an independently built equal tree has an equal treespec too
    ts3 = optree.tree_structure(mk(kind, param, wrap), none_is_leaf=nil)
    if not (ts3 == ts and hash(ts3) == hash(ts)):
        bad.append(('C01.reflatten_treespec_equal', f'treespec {ts3!r} of an equal tree built separately != {ts!r}'))
    return bad
'''


def run(tier, seed):
    return run_core('c01_extra', CORE, tier,
                    scope='deque maxlen in {None,0,1,2,255..258,1000,65536,1e6,2^31-1} and defaultdict factories equal-but-not-'
                          'identical, x 5 nestings x none_is_leaf',
                    rule='one evaluation = one tree round-tripped, re-flattened and compared with a separately built equal tree')
