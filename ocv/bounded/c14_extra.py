"""C14 bounded monitor, part 2: (a) treespecs in reference cycles through the metadata of nodes WITHOUT children (childless
custom node, empty defaultdict with a default_factory, empty deque, namedtuple class of zero fields) and of treespecs derived
from them (child, children, one_level, compose, transform, pickle round trip) are reclaimed by the garbage collector;
(b) a failing broadcast_to_common_suffix / is_prefix / flatten_up_to leaves BOTH operand treespecs unchanged, for operands
made in insertion-ordered mode whose dict / defaultdict / OrderedDict keys are not in sorted order.  Exhaustive over the grid."""
from ocv.bounded._extra import run_core

CORE = r'''
import collections, gc, itertools, pickle, weakref
import optree

NS = 'c14x'
class Holder:
    """metadata object that can point back to a treespec"""
    def __init__(self): self.ref = None
    def __call__(self): return 0
    def __eq__(self, o): return self is o
    def __hash__(self): return id(self)
class Empty:
    def __init__(self, meta, n=0): self.meta, self.n = meta, n
try:
    optree.register_pytree_node(Empty, lambda e: ([0] * e.n, e.meta), lambda m, c: Empty(m, len(c)), namespace=NS)
except ValueError:
    pass

def make(kind, holder):
    if kind == 'custom0': return Empty(holder, 0)
    if kind == 'custom2': return Empty(holder, 2)
    if kind == 'ddict0': return collections.defaultdict(holder)
    if kind == 'ddict1':
        d = collections.defaultdict(holder); d['k'] = 1; return d
    if kind == 'dictkey': return {holder: 1}
    if kind == 'nested0': return [1, (Empty(holder, 0),), {'a': collections.defaultdict(holder)}]
    raise KeyError(kind)

DERIVE = {
    'self': lambda ts: ts,
    'child': lambda ts: ts.child(ts.num_children - 1) if ts.num_children else ts,
    'children': lambda ts: (ts.children() or [ts])[-1],
    'one_level': lambda ts: ts.one_level() or ts,
    'compose': lambda ts: optree.tree_structure([0, 0]).compose(ts) if ts.namespace == '' or True else ts,
    'transform': lambda ts: ts.transform(lambda s: s, lambda s: s),
    'broadcast': lambda ts: ts.broadcast_to_common_suffix(ts),
}

def cases(tier):
    for kind in ('custom0', 'custom2', 'ddict0', 'ddict1', 'dictkey', 'nested0'):
        for d in DERIVE:
            yield ('gc', kind, d)
    for a, b in itertools.product(('dict', 'ddict', 'odict'), repeat=2):
        for op in ('broadcast', 'is_prefix', 'flatten_up_to'):
            yield ('frame', a, b, op)

def snapshot(ts):
    return (repr(ts), ts.entries(), ts.paths(), [repr(c) for c in ts.children()], ts.num_leaves, ts.num_nodes,
            repr(ts.unflatten(range(ts.num_leaves))))

def check(spec):
    bad = []
    if spec[0] == 'gc':
        _, kind, d = spec
        gc.collect()
        h = Holder()
        ts = optree.tree_structure(make(kind, h), namespace=NS)
        try:
            der = DERIVE[d](ts)
        except Exception as e:
            return []          # this derivation does not apply to the shape
        h.ref = der              # cycle: treespec -> node metadata -> holder -> treespec
        w1, w2 = weakref.ref(h), weakref.ref(der)
        del h, ts, der
        for _ in range(3):
            gc.collect()
        if w1() is not None or w2() is not None:
            bad.append(('C14.cycle_through_metadata_is_collected', f'tree kind {kind}, treespec obtained by {d}: the cycle treespec -> metadata -> treespec survives gc.collect() (holder alive: {w1() is not None}, treespec alive: {w2() is not None})'))
        return bad
    _, a, b, op = spec
    def mk(kind, keys, extra):
        items = [(k, (1, 2) if k == extra else 0) for k in keys]
        if kind == 'dict': return dict(items)
        if kind == 'odict': return collections.OrderedDict(items)
        d = collections.defaultdict(int); d.update(items); return d
    with optree.dict_insertion_ordered(True, namespace=NS):
        ta = optree.tree_structure(mk(a, ['z', 'b', 'm'], 'b'), namespace=NS)
        tb = optree.tree_structure(mk(b, ['y', 'q', 'c', 'a'], 'q'), namespace=NS)     # different key set: the operations must fail
        tb_tree = mk(b, ['y', 'q', 'c', 'a'], 'q')
    before = (snapshot(ta), snapshot(tb), hash(ta), hash(tb))
    try:
        if op == 'broadcast':
            ta.broadcast_to_common_suffix(tb)
            bad.append(('C14.operation_outcome', 'broadcast of treespecs with different key sets did not raise'))
        elif op == 'is_prefix':
            ta.is_prefix(tb); tb.is_prefix(ta); ta <= tb; tb >= ta
        else:
            with optree.dict_insertion_ordered(True, namespace=NS):
                ta.flatten_up_to(tb_tree)
    except ValueError:
        pass
    after = (snapshot(ta), snapshot(tb), hash(ta), hash(tb))
    if after != before:
        which = 'receiver' if after[0] != before[0] or after[2] != before[2] else 'argument'
        bad.append(('C14.operands_unchanged_after_a_failing_operation', f'{op} of {a} x {b} treespecs made in insertion-ordered mode: the {which} treespec changed: before {before[0 if which == "receiver" else 1][:3]!r}, after {after[0 if which == "receiver" else 1][:3]!r}'))
    return bad
'''


def run(tier, seed):
    return run_core('c14_extra', CORE, tier,
                    scope='6 trees with metadata-only cycles (childless nodes included) x 7 ways of obtaining the treespec; 3x3 dict kinds x 3 '
                          'failing binary operations on insertion-ordered operands',
                    rule='one evaluation = one cycle built and collected, or one failing operation with before/after snapshots of both operands')
