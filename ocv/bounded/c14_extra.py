"""C14 bounded monitor, part 2: (a) treespecs in reference cycles through the metadata of nodes WITHOUT children (childless
custom node, empty defaultdict with a default_factory, empty deque, namedtuple class of zero fields) and of treespecs derived
from them (child, children, one_level, compose, transform, pickle round trip) are reclaimed by the garbage collector;
(b) a failing broadcast_to_common_suffix / is_prefix / flatten_up_to leaves BOTH operand treespecs unchanged, for operands
made in insertion-ordered mode whose dict / defaultdict / OrderedDict keys are not in sorted order; (c) a treespec made
before a custom type was unregistered / re-registered with other functions / shadowed by a namespace registration keeps
describing the old structure: its flatten_up_to either refuses (ValueError) or is consistent with its own unflatten, paths and
entries - never a mixture of the old and the new registration; (d) a callback that runs during flattening (is_leaf, a custom
child's flatten function) and deletes / re-inserts / clears keys of a dict whose keys were already read: the treespec and the
leaves returned describe one consistent structure (unflatten works, also after a pickle round trip, and yields the keys as they
were read) for every flatten entry point.  Exhaustive over the grid."""
from ocv.bounded._extra import run_core

CORE = r'''
import collections, gc, itertools, pickle, weakref
import optree

NS = 'c14x'
class Holder:
    """metadata object that can point back to a treespec"""
    def __init__(self): self.ref = None
    def __call__(self): return 0
    def __eq__(self, o): return self is o
    def __hash__(self): return id(self)
class Empty:
    def __init__(self, meta, n=0): self.meta, self.n = meta, n
try:
    optree.register_pytree_node(Empty, lambda e: ([0] * e.n, e.meta), lambda m, c: Empty(m, len(c)), namespace=NS)
except ValueError:
    pass

def make(kind, holder):
    if kind == 'custom0': return Empty(holder, 0)
    if kind == 'custom2': return Empty(holder, 2)
    if kind == 'ddict0': return collections.defaultdict(holder)
    if kind == 'ddict1':
        d = collections.defaultdict(holder); d['k'] = 1; return d
    if kind == 'dictkey': return {holder: 1}
    if kind == 'nested0': return [1, (Empty(holder, 0),), {'a': collections.defaultdict(holder)}]
    raise KeyError(kind)

DERIVE = {
    'self': lambda ts: ts,
    'child': lambda ts: ts.child(ts.num_children - 1) if ts.num_children else ts,
    'children': lambda ts: (ts.children() or [ts])[-1],
    'one_level': lambda ts: ts.one_level() or ts,
    'compose': lambda ts: optree.tree_structure([0, 0]).compose(ts) if ts.namespace == '' or True else ts,
    'transform': lambda ts: ts.transform(lambda s: s, lambda s: s),
    'broadcast': lambda ts: ts.broadcast_to_common_suffix(ts),
}

NS3 = 'c14x'
class Vec:
    def __init__(self, a, b): self.a, self.b = a, b
    def __eq__(self, o): return type(o) is Vec and (o.a, o.b) == (self.a, self.b)
    def __repr__(self): return f'Vec({self.a!r}, {self.b!r})'
REGS = {'ab': (lambda v: ((v.a, v.b), None, ('a', 'b')), lambda m, c: Vec(c[0], c[1])),
        'ba': (lambda v: ((v.b, v.a), None, ('b', 'a')), lambda m, c: Vec(c[1], c[0])),
        'ab_noentries': (lambda v: ((v.a, v.b), None), lambda m, c: Vec(c[0], c[1])),
        'ba_noentries': (lambda v: ((v.b, v.a), None), lambda m, c: Vec(c[1], c[0]))}

def unreg(ns):
    try: optree.unregister_pytree_node(Vec, namespace=ns)
    except ValueError: pass

def reregistration_case(first, second, how):
    bad = []
    GLOB = next(v for k, v in optree.registry.__dict__.items() if k.endswith('GLOBAL_NAMESPACE'))
    unreg(NS3); unreg(GLOB)
    try:
        optree.register_pytree_node(Vec, *REGS[first], namespace=(GLOB if how == 'shadow' else NS3))
        tree = [Vec('x', 'y'), {'k': Vec(1, 2)}]
        old = optree.tree_structure(tree, namespace=NS3)
        before = (repr(old), old.paths(), old.entries(), repr(old.unflatten(['p', 'q', 'r', 's'])))
        if how == 'shadow':
            optree.register_pytree_node(Vec, *REGS[second], namespace=NS3)
        else:
            unreg(NS3)
            if how == 'reregister':
                optree.register_pytree_node(Vec, *REGS[second], namespace=NS3)
        after = (repr(old), old.paths(), old.entries(), repr(old.unflatten(['p', 'q', 'r', 's'])))
        what = f'treespec made under registration {first}, then {how} with {second}'
        if after != before:
            bad.append(('C14.treespec_survives_registry_changes', f'{what}: repr / paths / entries / unflatten changed: {before!r} -> {after!r}'))
        try:
            parts = old.flatten_up_to(tree)
        except ValueError:
            parts = None                       # refusing is allowed
        except Exception as e:
            bad.append(('C14.treespec_survives_registry_changes', f'{what}: flatten_up_to raised {type(e).__name__}: {e}'))
            parts = None
        if parts is not None:
            rebuilt = old.unflatten(parts)
            if rebuilt != tree:
                bad.append(('C14.treespec_survives_registry_changes', f'{what}: old.unflatten(old.flatten_up_to(tree)) = {rebuilt!r}, tree = {tree!r} (children of one registration rebuilt by the other)'))
    finally:
        unreg(NS3); unreg(GLOB)
    return bad

class Trigger:
    """custom leaf-like node whose flatten function mutates a dict that is being flattened"""
    def __init__(self, action): self.action = action; self.target = None
def _flat_trigger(t):
    d = t.target
    if d is not None:
        if t.action == 'delete': d.pop('z', None)
        elif t.action == 'reinsert':
            if 'a' in d: v = d.pop('a'); d['a'] = v
        elif t.action == 'clear':
            keep = d.get('t'); d.clear()
        elif t.action == 'add': d['new'] = 0
    return ((), None)
import sys as _sys, types as _types
_mod = _sys.modules.setdefault('c14x_mod', _types.ModuleType('c14x_mod'))      # pickle stores classes by reference
if hasattr(_mod, 'Trigger'):
    Trigger = _mod.Trigger
else:
    Trigger.__module__, Trigger.__qualname__ = 'c14x_mod', 'Trigger'
    _mod.Trigger = Trigger
try:
    optree.register_pytree_node(Trigger, _flat_trigger, lambda m, c: Trigger('none'), namespace=NS3)
except ValueError:
    pass

def mutation_case(action, kind, entry, via):
    bad = []
    def build():
        t = Trigger(action if via == 'custom_child' else 'none')
        items = [('z', 1), ('a', 2), ('t', t), ('m', 3)]
        d = {'dict': dict, 'defaultdict': lambda it: collections.defaultdict(list, it), 'OrderedDict': collections.OrderedDict}[kind](items)
        t.target = d
        return d, t
    d, t = build()
    keys_read = list(d)
    def pred(x):
        if via == 'is_leaf' and x == 2:         # runs after the keys of d were read
            tt = Trigger(action); tt.target = d; _flat_trigger(tt)
        return False
    kw = dict(namespace=NS3, is_leaf=(pred if via == 'is_leaf' else None))
    try:
        if entry == 'tree_flatten': leaves, ts = optree.tree_flatten(d, **kw)
        elif entry == 'tree_flatten_with_path': _, leaves, ts = optree.tree_flatten_with_path(d, **kw)
        else: _, leaves, ts = optree.tree_flatten_with_accessor(d, **kw)
    except Exception:
        return bad                              # failing cleanly is acceptable
    what = f'{entry} of a {kind} while a {via} callback does {action} on it after its keys {keys_read!r} were read'
    for label, spec in (('the treespec', ts), ('its pickle round trip', None)):
        try:
            if spec is None:
                spec = pickle.loads(pickle.dumps(ts))
            rebuilt = spec.unflatten(leaves)
        except Exception as e:
            bad.append(('C14.treespec_describes_the_structure_that_was_read', f'{what}: {label}: unflatten(leaves) raised {type(e).__name__}: {e}'))
            continue
        if kind != 'OrderedDict' and sorted(map(str, rebuilt)) != sorted(map(str, keys_read)) and list(rebuilt) != list(ts.entries()):
            bad.append(('C14.treespec_describes_the_structure_that_was_read', f'{what}: {label} rebuilds keys {list(rebuilt)!r}, entries {ts.entries()!r}'))
        if len(rebuilt) != ts.num_children:
            bad.append(('C14.treespec_describes_the_structure_that_was_read', f'{what}: {label} rebuilds {len(rebuilt)} keys for {ts.num_children} children'))
        if kind != 'OrderedDict' and via == 'is_leaf' and action == 'reinsert' and list(rebuilt) != keys_read:
            bad.append(('C14.treespec_describes_the_structure_that_was_read', f'{what}: {label} rebuilds the key order {list(rebuilt)!r}; the keys were read as {keys_read!r}'))
    return bad

def cases(tier):
    for first, second in (('ab', 'ba'), ('ba', 'ab'), ('ab_noentries', 'ba_noentries'), ('ab', 'ab')):
        for how in ('reregister', 'unregister', 'shadow'):
            yield ('rereg', first, second, how)
    for action in ('delete', 'reinsert', 'clear', 'add'):
        for kind in ('dict', 'defaultdict', 'OrderedDict'):
            for entry in ('tree_flatten', 'tree_flatten_with_path', 'tree_flatten_with_accessor'):
                for via in ('is_leaf', 'custom_child'):
                    yield ('mutate', action, kind, entry, via)
    for kind in ('custom0', 'custom2', 'ddict0', 'ddict1', 'dictkey', 'nested0'):
        for d in DERIVE:
            yield ('gc', kind, d)
    for a, b in itertools.product(('dict', 'ddict', 'odict'), repeat=2):
        for op in ('broadcast', 'is_prefix', 'flatten_up_to'):
            yield ('frame', a, b, op)

def snapshot(ts):
    return (repr(ts), ts.entries(), ts.paths(), [repr(c) for c in ts.children()], ts.num_leaves, ts.num_nodes,
            repr(ts.unflatten(range(ts.num_leaves))))

def check(spec):
    if spec[0] == 'rereg':
        return reregistration_case(*spec[1:])
    if spec[0] == 'mutate':
        return mutation_case(*spec[1:])
    bad = []
    if spec[0] == 'gc':
        _, kind, d = spec
        gc.collect()
        h = Holder()
        ts = optree.tree_structure(make(kind, h), namespace=NS)
        try:
            der = DERIVE[d](ts)
        except Exception as e:
            return []          # this derivation does not apply to the shape
        h.ref = der              # cycle: treespec -> node metadata -> holder -> treespec
        w1, w2 = weakref.ref(h), weakref.ref(der)
        del h, ts, der
        for _ in range(3):
            gc.collect()
        if w1() is not None or w2() is not None:
            bad.append(('C14.cycle_through_metadata_is_collected', f'tree kind {kind}, treespec obtained by {d}: the cycle treespec -> metadata -> treespec survives gc.collect() (holder alive: {w1() is not None}, treespec alive: {w2() is not None})'))
        return bad
    _, a, b, op = spec
    def mk(kind, keys, extra):
        items = [(k, (1, 2) if k == extra else 0) for k in keys]
        if kind == 'dict': return dict(items)
        if kind == 'odict': return collections.OrderedDict(items)
        d = collections.defaultdict(int); d.update(items); return d
    with optree.dict_insertion_ordered(True, namespace=NS):
        ta = optree.tree_structure(mk(a, ['z', 'b', 'm'], 'b'), namespace=NS)
        tb = optree.tree_structure(mk(b, ['y', 'q', 'c', 'a'], 'q'), namespace=NS)     # different key set: the operations must fail
        tb_tree = mk(b, ['y', 'q', 'c', 'a'], 'q')
    before = (snapshot(ta), snapshot(tb), hash(ta), hash(tb))
    try:
        if op == 'broadcast':
            ta.broadcast_to_common_suffix(tb)
            bad.append(('C14.operation_outcome', 'broadcast of treespecs with different key sets did not raise'))
        elif op == 'is_prefix':
            ta.is_prefix(tb); tb.is_prefix(ta); ta <= tb; tb >= ta
        else:
            with optree.dict_insertion_ordered(True, namespace=NS):
                ta.flatten_up_to(tb_tree)
    except ValueError:
        pass
    after = (snapshot(ta), snapshot(tb), hash(ta), hash(tb))
    if after != before:
        which = 'receiver' if after[0] != before[0] or after[2] != before[2] else 'argument'
        bad.append(('C14.operands_unchanged_after_a_failing_operation', f'{op} of {a} x {b} treespecs made in insertion-ordered mode: the {which} treespec changed: before {before[0 if which == "receiver" else 1][:3]!r}, after {after[0 if which == "receiver" else 1][:3]!r}'))
    return bad
'''


def run(tier, seed):
    return run_core('c14_extra', CORE, tier,
                    scope='6 trees with metadata-only cycles (childless nodes included) x 7 ways of obtaining the treespec; 3x3 dict kinds x 3 '
                          'failing binary operations on insertion-ordered operands',
                    rule='one evaluation = one cycle built and collected, or one failing operation with before/after snapshots of both operands')
