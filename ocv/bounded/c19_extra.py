"""C19 bounded monitor, part 2: (a) optree.dataclasses.field() never writes into the caller's `metadata` mapping, so fields
that share one user mapping keep their own pytree_node setting (children = the pytree_node fields in declaration order, the
other init fields are metadata) - all combinations of shared / separate / None / empty / MappingProxy metadata over 2-3
fields; (b) optree.functools.partial is never merged with a nested partial: nesting depth 1-3 of optree partials and
functools partials in every order; leaves are exactly the outer args/keywords, the wrapped callable is metadata, and the
rebuilt partial calls the same function with the mapped arguments; (c) a dataclass node addresses its children by field name in
every treespec derived from it: flatten, tree_structure, broadcast_to_common_suffix, compose, child, transform, one_level,
pickle round trip, treespec_from_collection - for field layouts where a metadata field sits between the children.
Exhaustive over the listed grid."""
from ocv.bounded._extra import run_core

CORE = r'''
import dataclasses, functools, itertools, types
import optree
import optree.dataclasses as odc
import optree.functools as ofn

NS = 'c19x'
COUNTER = itertools.count()

LAYOUTS = [('c', 'm', 'c'), ('m', 'c', 'c'), ('c', 'c', 'm'), ('c', 'm', 'c', 'm', 'c'), ('c',), ('m', 'c')]
_classes = {}
def layout_class(layout):
    if layout not in _classes:
        fields = [(f'f{i}', int if kind == 'm' else object, odc.field(pytree_node=(kind == 'c'))) for i, kind in enumerate(layout)]
        import sys
        cls = odc.make_dataclass(f'Lay{len(_classes)}', fields, namespace=NS)
        mod = sys.modules.setdefault('c19x_mod', types.ModuleType('c19x_mod'))        # pickle stores classes by reference
        cls.__module__ = 'c19x_mod'
        setattr(mod, cls.__name__, cls)
        _classes[layout] = cls
    return _classes[layout]

def derived(ts, inst, kw):
    import pickle
    L = optree.treespec_leaf(**kw)
    yield 'tree_structure', ts
    yield 'tree_flatten_with_accessor', optree.tree_flatten_with_accessor(inst, **kw)[2]
    yield 'broadcast_to_common_suffix(self)', ts.broadcast_to_common_suffix(ts)
    yield 'broadcast_to_common_suffix(deeper)', ts.broadcast_to_common_suffix(ts.compose(optree.tree_structure((0, 0), **kw)))
    yield 'leaf.broadcast_to_common_suffix(ts)', L.broadcast_to_common_suffix(ts)
    yield 'compose(leaf)', ts.compose(L)
    yield 'list-of.child(0)', optree.tree_structure([inst, 0], **kw).child(0)
    yield 'transform(identity)', ts.transform(lambda s: s, lambda s: s)
    yield 'pickle', pickle.loads(pickle.dumps(ts))
    yield 'treespec_from_collection', optree.treespec_from_collection(
        type(inst)(**{f.name: (L if f.metadata.get('pytree_node', True) else getattr(inst, f.name)) for f in dataclasses.fields(inst)}), **kw)

def by_field_name(layout, nil):
    bad = []
    cls = layout_class(layout)
    values = {f'f{i}': (i if kind == 'm' else {'k': object()}) for i, kind in enumerate(layout)}
    inst = cls(**values)
    kw = dict(namespace=NS, none_is_leaf=nil)
    child_names = [f'f{i}' for i, kind in enumerate(layout) if kind == 'c']
    ts = optree.tree_structure(inst, **kw)
    for how, s in derived(ts, inst, kw):
        what = f'{cls.__name__}{layout!r}: treespec {s!r} obtained via {how}'
        top = s if s.num_children == len(child_names) and s.type is cls else None
        if top is None:
            bad.append(('C19.children_addressed_by_field_name', f'{what}: root is not the dataclass node with {len(child_names)} children')); continue
        if list(top.entries()) != child_names:
            bad.append(('C19.children_addressed_by_field_name', f'{what}: entries() = {top.entries()!r}, the pytree_node fields are {child_names!r}'))
        if [top.entry(i) for i in range(len(child_names))] != child_names:
            bad.append(('C19.children_addressed_by_field_name', f'{what}: entry(i) = {[top.entry(i) for i in range(len(child_names))]!r}, expected {child_names!r}'))
        firsts = [p[0] for p in top.paths() if p]
        if any(f not in child_names for f in firsts):
            bad.append(('C19.children_addressed_by_field_name', f'{what}: paths() start with {firsts!r}, the pytree_node fields are {child_names!r}'))
        if top.num_leaves == len(child_names) and 'deeper' not in how and 'compose' not in how and 'from_collection' not in how:
            for a, nm in zip(top.accessors(), child_names):
                try:
                    got = a(inst)
                except Exception as e:
                    bad.append(('C19.children_addressed_by_field_name', f'{what}: accessor {a!r} raised {type(e).__name__}: {e}')); continue
                if got is not values[nm]['k']:
                    bad.append(('C19.children_addressed_by_field_name', f'{what}: accessor {a!r} does not fetch the value under field {nm}'))
    return bad

def cases(tier):
    for layout in LAYOUTS:
        for nil in (False, True):
            yield ('byname', layout, nil)
    for n in (2, 3):
        for flags in itertools.product((True, False, None), repeat=n):
            for share in ('shared-dict', 'separate-dicts', 'none', 'empty-shared', 'proxy-shared'):
                yield ('field', flags, share)
    for chain in itertools.chain.from_iterable(itertools.product(('o', 'f'), repeat=d) for d in (1, 2, 3)):
        yield ('partial', chain)

def check(spec):
    bad = []
    if spec[0] == 'byname':
        return by_field_name(spec[1], spec[2])
    if spec[0] == 'field':
        _, flags, share = spec
        user = {'unit': 'm'}
        def md(i):
            if share == 'shared-dict': return user
            if share == 'separate-dicts': return {'unit': 'm', 'i': i}
            if share == 'none': return None
            if share == 'empty-shared': return user if False else EMPTY
            return types.MappingProxyType(user)
        EMPTY = {}
        before_user, before_empty = dict(user), dict(EMPTY)
        ns = {}
        names = [f'f{i}' for i in range(len(flags))]
        annotations = {nm: int for nm in names}
        body = {'__annotations__': annotations, '__module__': 'builtins', '__qualname__': 'DC'}
        for i, (nm, fl) in enumerate(zip(names, flags)):
            body[nm] = odc.field(default=i, metadata=md(i), pytree_node=fl)
        if dict(user) != before_user or dict(EMPTY) != before_empty:
            bad.append(('C19.field_does_not_modify_the_callers_metadata', f'field(metadata=<{share}>, pytree_node={flags!r}) changed the caller\'s mapping to {user!r} / {EMPTY!r}'))
        cls = type(f'DC{next(COUNTER)}', (), body)
        cls = odc.dataclass(cls, namespace=NS)
        obj = cls(*[10 + i for i in range(len(flags))])
        want_children = [10 + i for i, fl in enumerate(flags) if fl is not False]      # default pytree_node=True
        leaves = optree.tree_leaves(obj, namespace=NS)
        if leaves != want_children:
            bad.append(('C19.children_are_the_pytree_node_fields_in_order', f'fields {list(zip(names, flags))!r} with metadata <{share}>: leaves {leaves!r}, expected {want_children!r}'))
        mapped = optree.tree_map(lambda x: x + 100, obj, namespace=NS)
        for i, (nm, fl) in enumerate(zip(names, flags)):
            exp = 10 + i + (100 if fl is not False else 0)
            if getattr(mapped, nm) != exp:
                bad.append(('C19.tree_map_maps_exactly_the_pytree_node_fields', f'field {nm} (pytree_node={fl}) is {getattr(mapped, nm)!r} after tree_map(+100), expected {exp!r}; metadata <{share}>'))
        for f in dataclasses.fields(cls):
            if f.metadata.get('pytree_node') != (flags[names.index(f.name)] is not False):
                bad.append(('C19.field_metadata_records_its_own_setting', f'{f.name}.metadata["pytree_node"] = {f.metadata.get("pytree_node")!r}, declared {flags[names.index(f.name)]!r}; metadata <{share}>'))
        return bad
    _, chain = spec
    def base(a, b=0, *rest, bias=0, scale=1):
        return ('base', a, b, rest, bias, scale)
    fn = base
    args_per_level = []
    for lvl, kind in enumerate(reversed(chain)):           # innermost first
        a, kw = (lvl * 10 + 1,), {'bias' if lvl % 2 == 0 else 'scale': lvl * 10 + 5}
        fn = (ofn.partial if kind == 'o' else functools.partial)(fn, *a, **kw)
        args_per_level.append((kind, a, kw))
    outer_kind, outer_args, outer_kw = args_per_level[-1]
    if outer_kind != 'o':
        return bad            # only optree partials are pytree nodes
    inner = fn.func
    leaves = optree.tree_leaves(fn)
    want = list(outer_args) + [outer_kw[k] for k in sorted(outer_kw)]
    if leaves != want:
        bad.append(('C19.partial_not_merged_with_nested_partial', f'chain {chain!r} (outermost first): leaves {leaves!r}, expected exactly the outer arguments {want!r}'))
    if tuple(fn.args) != tuple(outer_args) or dict(fn.keywords) != outer_kw:
        bad.append(('C19.partial_not_merged_with_nested_partial', f'chain {chain!r}: outer args/keywords are {fn.args!r} / {fn.keywords!r}, expected {outer_args!r} / {outer_kw!r}'))
    ref = fn()
    mapped = optree.tree_map(lambda x: x + 1000, fn)
    exp_fn = functools.partial(inner, *[x + 1000 for x in outer_args], **{k: v + 1000 for k, v in outer_kw.items()})
    if mapped() != exp_fn():
        bad.append(('C19.rebuilt_partial_calls_the_same_function_with_mapped_arguments', f'chain {chain!r}: tree_map(+1000)(...)() = {mapped()!r}, expected {exp_fn()!r} (unmapped call gives {ref!r})'))
    return bad
'''


def run(tier, seed):
    return run_core('c19_extra', CORE, tier,
                    scope='field(): 2-3 fields x pytree_node in {True, False, None} x 5 ways of sharing the metadata mapping; partial: all chains of '
                          'optree / functools partials of depth 1-3',
                    rule='one evaluation = one dataclass built and flattened / mapped, or one partial chain flattened / mapped / called')
