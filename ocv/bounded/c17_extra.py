"""C17 bounded monitor, part 2 (forced interleavings, deterministic): a second thread changes the registration of a custom
type (unregister + register with other functions) exactly while the first thread is inside that type's flatten function
(window forced with threading.Event inside the callback), for tree_flatten / tree_flatten_with_path / tree_iter /
tree_map / tree_structure; and (part 3) a second operation - in another thread, or re-entrantly in the same thread - runs
on instances of a namedtuple class exactly while the first operation is inside its *first classification* of that class (the
window is forced from a Python-level metaclass __getattribute__ on `_fields` / `_make` / `_asdict`): both operations must
return what they return when run alone.  Clause: "a flatten that overlaps a registry change observes, for each node, either the old or the
new registration - never a torn one": the treespec obtained must unflatten with the unflatten function that belongs to the
flatten function that produced the children.  The schedule space is NOT enumerated: one forced schedule per case."""
from ocv.bounded._extra import run_core

CORE = r'''
import threading
import optree

NS = 'c17x'
class Box:
    def __init__(self, *c): self.c = list(c)
    def __eq__(self, o): return type(o) is Box and o.c == self.c
    def __repr__(self): return f'Box{tuple(self.c)!r}'

import collections
_counter = [0]

def first_classification(spec):
    _, attr, how, opname = spec
    state = {'armed': False, 'fired': False}
    out = {}
    def op(x):
        if opname == 'tree_leaves': return optree.tree_leaves(x)
        if opname == 'tree_structure': return repr(optree.tree_structure(x))
        if opname == 'is_namedtuple': return optree.is_namedtuple(x)
        if opname == 'tree_flatten_with_path': return optree.tree_flatten_with_path(x)[:2]
        return optree.tree_map(lambda v: v + 1, x)
    class Meta(type):
        def __getattribute__(cls, name):
            if state['armed'] and not state['fired'] and name == attr:
                state['fired'] = True
                other = [cls(5, 6), {'k': cls(7, 8)}]
                def second():
                    try: out['second'] = op(other)
                    except BaseException as e: out['second'] = ('exc', type(e).__name__)   # noqa: BLE001
                if how == 'thread':
                    t = threading.Thread(target=second, daemon=True); t.start(); t.join(10)
                    if t.is_alive(): out['second'] = ('hang',)
                else:
                    second()
                out['second_alone_args'] = other
            return super().__getattribute__(name)
    _counter[0] += 1
    base = collections.namedtuple(f'Point{_counter[0]}', ['x', 'y'])
    Point = Meta(f'Point{_counter[0]}', (base,), {'__slots__': ()})     # a class the library has never seen
    tree = {'p': Point(1, 2), 'q': [Point(3, 4)]}
    state['armed'] = True
    try: out['first'] = op(tree)
    except BaseException as e: out['first'] = ('exc', type(e).__name__)   # noqa: BLE001
    state['armed'] = False
    bad = []
    if not state['fired']:
        return bad                # the library did not look this attribute up while classifying: no window to force
    alone_first = op(tree)
    alone_second = op(out['second_alone_args'])
    if out['first'] != alone_first:
        bad.append(('C17.first_classification_window', f'{opname} interrupted at its first lookup of {attr} ({how}) returned {out["first"]!r}; run alone it returns {alone_first!r}'))
    if out.get('second') != alone_second:
        bad.append(('C17.first_classification_window', f'{opname} run ({how}) while another {opname} was inside its first classification of the class (lookup of {attr}) returned {out.get("second")!r}; run alone it returns {alone_second!r}'))
    return bad

def concurrent_registration(kind, same_funcs):
    """two threads register the SAME class in the same namespace; the window is forced from the warnings machinery (the
    registration of a namedtuple / struct-sequence-like class emits a UserWarning): exactly one succeeds"""
    import warnings, time
    _counter[0] += 1
    ns = f'c17reg{_counter[0]}'
    base = collections.namedtuple(f'RP{_counter[0]}', ['x', 'y'])
    cls = type(f'RP{_counter[0]}', (base,), {'__slots__': ()}) if kind == 'namedtuple_subclass' else base
    barrier = threading.Barrier(2)
    def hook(*a, **k):
        try: barrier.wait(1.5)
        except threading.BrokenBarrierError: pass
    results = {}
    def worker(tag):
        fl = (lambda v: ((v.x, v.y), tag)) if not same_funcs else FL
        un = (lambda m, c: cls(*c))
        try:
            with warnings.catch_warnings():
                warnings.simplefilter('always')
                optree.register_pytree_node(cls, fl, un, namespace=ns)
            results[tag] = ('ok', fl)
        except ValueError as e:
            results[tag] = ('ValueError', None)
        except BaseException as e:   # noqa: BLE001
            results[tag] = (type(e).__name__, None)
    FL = lambda v: ((v.x, v.y), 'same')
    old = warnings.showwarning
    warnings.showwarning = hook
    try:
        ts = [threading.Thread(target=worker, args=(t,), daemon=True) for t in ('A', 'B')]
        [t.start() for t in ts]; [t.join(20) for t in ts]
    finally:
        warnings.showwarning = old
    bad = []
    if any(t.is_alive() for t in ts):
        return [('C17.concurrent_registration_succeeds_exactly_once', f'{kind}: a registering thread never finished (deadlock)')]
    oks = [t for t, r in results.items() if r[0] == 'ok']
    if len(oks) != 1 or sorted(r[0] for r in results.values()) != ['ValueError', 'ok']:
        bad.append(('C17.concurrent_registration_succeeds_exactly_once', f'{kind}: outcomes of two concurrent registrations of one class in one namespace: {sorted((t, r[0]) for t, r in results.items())!r}; expected exactly one success and one ValueError'))
    else:
        w = oks[0]
        entry = optree.register_pytree_node.get(cls, namespace=ns)
        leaves, spec = optree.tree_flatten(cls(1, 2), namespace=ns)
        md = spec.entries() and None
        want_md = 'same' if same_funcs else w
        got_md = results[w][1](cls(1, 2))[1]
        if entry is None or entry.flatten_func is not results[w][1]:
            bad.append(('C17.concurrent_registration_succeeds_exactly_once', f'{kind}: the Python-visible registry entry is not the one of the thread whose registration succeeded ({w})'))
        if leaves != [1, 2]:
            bad.append(('C17.concurrent_registration_succeeds_exactly_once', f'{kind}: after the winning registration the class flattens to {leaves!r}'))
    try: optree.unregister_pytree_node(cls, namespace=ns)
    except Exception: pass
    return bad

REENTRANT_SRC = """
import sys, threading, optree
how, op = sys.argv[1], sys.argv[2]
state = {'armed': False, 'fired': False, 'inner': None}
class K:
    def __init__(self, v): self.v = v
    def __hash__(self): return hash(self.v)
    def __eq__(self, o):
        if state['armed'] and not state['fired']:
            state['fired'] = True
            def second():
                try: state['inner'] = run(op, X, Y)
                except BaseException as e: state['inner'] = ('exc', type(e).__name__)
            if how == 'thread':
                t = threading.Thread(target=second, daemon=True); t.start(); t.join(10)
                if t.is_alive(): state['inner'] = ('hang',)
            else:
                second()
        return isinstance(o, K) and o.v == self.v
    def __lt__(self, o): return self.v < o.v
    def __repr__(self): return f'K({self.v})'
def run(op, a, b):
    if op == 'is_prefix': return a.is_prefix(b)
    if op == 'is_suffix': return b.is_suffix(a)
    if op == 'le': return a <= b
    if op == 'lt': return a < b
    if op == 'eq': return a == b
    return a.broadcast_to_common_suffix(b) == b
A = optree.tree_structure({K(1): 0, K(2): [0, 0], K(3): {K(4): 0}})
B = optree.tree_structure({K(3): {K(4): (1, 2)}, K(2): [(0, 0), 0], K(1): 0})
X = optree.tree_structure([{K(7): 0, K(8): 0}, (0, 0), {'a': [0] * 40}])
Y = optree.tree_structure([{K(8): (0,), K(7): 0}, (0, (0, 0)), {'a': [(0, 0)] * 40}])
alone_outer, alone_inner = run(op, A, B), run(op, X, Y)
state['armed'] = True
try: got_outer = run(op, A, B)
except BaseException as e: got_outer = ('exc', type(e).__name__, str(e)[:80])
state['armed'] = False
bad = []
if not state['fired']: sys.exit(0)
if got_outer != alone_outer: bad.append(f'{op} interrupted inside a key comparison ({how}) returned {got_outer!r}; alone it returns {alone_outer!r}')
if state['inner'] != alone_inner: bad.append(f'{op} run ({how}) while another {op} was inside a key comparison returned {state["inner"]!r}; alone it returns {alone_inner!r}')
print('; '.join(bad)); sys.exit(1 if bad else 0)
"""

def overlapping_comparison(how, op):
    import subprocess, sys, os
    r = subprocess.run([sys.executable, '-c', REENTRANT_SRC, how, op], capture_output=True, text=True,
                       env=dict(os.environ, PYTHONPATH=os.pathsep.join(sys.path), MALLOC_PERTURB_='165'), cwd='/', timeout=120)
    if r.returncode == 0:
        return []
    what = r.stdout.strip()[:400] if r.returncode == 1 else f'child interpreter died with status {r.returncode}: {r.stderr.strip()[-200:]}'
    return [('C17.overlapping_treespec_comparisons', what)]

def cases(tier):
    for how in ('thread', 'reentrant'):
        for op in ('is_prefix', 'is_suffix', 'le', 'lt', 'eq', 'broadcast'):
            yield ('overlap', how, op)
    for kind in ('namedtuple', 'namedtuple_subclass'):
        for same in (False, True):
            yield ('concreg', kind, same)
    for attr in ('_fields', '_make', '_asdict'):
        for how in ('thread', 'reentrant'):
            for opname in ('tree_leaves', 'tree_structure', 'is_namedtuple', 'tree_flatten_with_path', 'tree_map'):
                yield ('first', attr, how, opname)
    for entry in ('tree_flatten', 'tree_flatten_with_path', 'tree_structure', 'tree_map', 'tree_flatten_with_accessor'):
        for nil in (False, True):
            for position in (0, 1):
                yield (entry, nil, position)

def check(spec):
    if spec[0] == 'first':
        return first_classification(spec)
    if spec[0] == 'overlap':
        return overlapping_comparison(spec[1], spec[2])
    if spec[0] == 'concreg':
        return concurrent_registration(spec[1], spec[2])
    entry, nil, position = spec
    inside, resume = threading.Event(), threading.Event()
    log = []
    armed = {'on': True}
    def fl1(b):
        if armed['on'] and b.c and b.c[0] == 'trigger':
            armed['on'] = False
            inside.set(); resume.wait(10)
        return (tuple(b.c), 'v1', None)
    def un1(m, ch): log.append(('un', 'v1', m)); return Box(*ch)
    def fl2(b): return (tuple(reversed(b.c)), 'v2', None)
    def un2(m, ch): log.append(('un', 'v2', m)); return Box(*reversed(ch))
    try: optree.unregister_pytree_node(Box, namespace=NS)
    except ValueError: pass
    optree.register_pytree_node(Box, fl1, un1, namespace=NS)
    boxes = [Box('trigger', 2, 3), Box(4, 5)]
    if position == 1: boxes.reverse()
    tree = list(boxes)
    out = {}
    def worker():
        try:
            kw = dict(none_is_leaf=nil, namespace=NS)
            if entry == 'tree_map':
                out['tree'] = optree.tree_map(lambda x: x, tree, **kw)
            else:
                r = getattr(optree, entry)(tree, **kw)
                ts = r if entry == 'tree_structure' else r[-1]
                leaves = optree.tree_leaves(tree, **kw) if entry == 'tree_structure' else (r[0] if entry == 'tree_flatten' else r[1])
                out['ts'], out['leaves'] = ts, leaves
        except BaseException as e:   # noqa: BLE001
            out['err'] = e
    t = threading.Thread(target=worker); t.start()
    if not inside.wait(10):
        resume.set(); t.join(10)
        return [('C17.harness', 'the flatten function was never entered')]
    optree.unregister_pytree_node(Box, namespace=NS)
    optree.register_pytree_node(Box, fl2, un2, namespace=NS)
    resume.set(); t.join(20)
    bad = []
    try:
        if 'err' in out:
            return bad            # failing cleanly is an acceptable outcome of the overlap
        if entry == 'tree_map':
            rebuilt = out['tree']
        else:
            if entry == 'tree_structure':
                return bad        # leaves were taken separately after the change: nothing to pair
            rebuilt = optree.tree_unflatten(out['ts'], out['leaves'])
        if rebuilt != tree:
            bad.append(('C17.no_torn_registration', f'{entry} overlapped by a re-registration of Box: rebuilding gives {rebuilt!r} for {tree!r}; unflatten calls {log!r} - children of the old flatten function were handed to the new unflatten function (or vice versa)'))
    finally:
        try: optree.unregister_pytree_node(Box, namespace=NS)
        except ValueError: pass
    return bad
'''


def run(tier, seed):
    return run_core('c17_extra', CORE, tier, exhaustive=False,
                    scope='3 class attributes x {second thread, re-entrant call} x 5 operations at the first classification of a namedtuple class; '
                          '5 entry points x none_is_leaf x position of the node whose flatten function is interrupted; ONE forced schedule each '
                          '(re-registration strictly inside the flatten callback)',
                    rule='one evaluation = one forced two-thread schedule; the schedule space is sampled, not enumerated')
