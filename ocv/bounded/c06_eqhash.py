"""C06 — treespec equality means same structure, and equal treespecs hash equally (bounded monitor).

Oracle (from the property text): a == b  <=>  same none_is_leaf  AND  compatible namespaces ('' matches
anything, otherwise equal)  AND  same node type / arity / key set / metadata at every position and leaves at
the same positions.  The structural part is decided by the reference model (`_util_b.absify` + `sig`), which
is computed from the Python trees and the flatten options only; the treespec's own `none_is_leaf` /
`namespace` attributes supply the other two parts.  Key order of dict/defaultdict is only promised to be
irrelevant in sorted mode with sortable keys: pairs whose only difference is the key *order* of a
dict/defaultdict node (unsortable keys, insertion-ordered mode) are not judged.

Clauses (finding keys)
  C06.eq_false_for_same_structure / C06.eq_true_for_different_structure   == against the reference
  C06.eq_reflexive, C06.eq_symmetric, C06.ne_is_negation, C06.eq_transitive (one namespace)
  C06.eq_implies_hash          a == b  =>  hash(a) == hash(b)
  C06.set_membership           equal specs find each other in a set / dict, unequal ones do not
  C06.route_independent        same structure obtained by another route (other leaf values, other dict
                               insertion order, flatten variants, constructors, children+rebuild, transform,
                               compose, broadcast, pickle, copy) is == to the flattened one
  C06.state_view_disagrees     the treespec's __getstate__ view is not the structure of the tree it came from
  C06.unexpected_exception
"""
from __future__ import annotations

import random

import optree

from ocv.bounded import _util_b as U
from ocv.bounded import scope as S
from ocv.result import BoundedReport


class Ent:
    __slots__ = ('spec', 'cls', 'lcls', 'nil', 'ns', 'h', 'd', 'o', 'ins', 'nn')

    def src(self, var):
        """Script lines defining `var` as this treespec."""
        t = U.src(self.d)
        if self.ins:
            return (f"with optree.dict_insertion_ordered(True, namespace={self.o['namespace']!r}):\n"
                    f"    {var} = optree.tree_structure({t}, **{U.opt_src(self.o)})\n")
        return f'{var} = optree.tree_structure({t}, **{U.opt_src(self.o)})\n'

    def label(self):
        return f"{U.show(self.d)} [{S.opt_repr(self.o)}{' insertion-ordered' if self.ins else ''}]"


class Interner:
    def __init__(self):
        self.t = {}

    def __call__(self, x):
        return self.t.setdefault(x, len(self.t))


def make_ent(d, o, intern, lintern, bag, ins=False):
    t = U.build(d)
    try:
        if ins:
            with optree.dict_insertion_ordered(True, namespace=o['namespace']):
                spec = optree.tree_structure(t, **o)
        else:
            spec = optree.tree_structure(t, **o)
        h = hash(spec)
    except Exception as e:   # noqa: BLE001
        bag.add('C06.unexpected_exception', f'tree_structure/hash of {U.show(d)} [{S.opt_repr(o)}] raised {U.exc_name(e)}',
                f't = {U.src(d)}\ns = optree.tree_structure(t, **{U.opt_src(o)})\nhash(s)\nsys.exit(0)\n')
        return None
    a = U.absify(t, insertion=ins, **o)
    e = Ent()
    e.spec, e.d, e.o, e.ins, e.h = spec, d, o, ins, h
    e.nil, e.ns = spec.none_is_leaf, spec.namespace
    e.cls = intern(U.sig(a))
    e.lcls = lintern(U.sig(a, loose=True))
    e.nn = U.n_nodes(d)
    # the state view must describe the same structure (ties the reference to the object under test)
    bag.ev()
    try:
        b, nil, ns = U.abs_from_state(spec)
        ok = U.a_same(a, b) and nil == o['none_is_leaf'] and ns in ('', o['namespace'])
    except U.Malformed as ex:
        ok, b = False, ex
    if not ok:
        bag.add('C06.state_view_disagrees', f'{e.label()}: __getstate__ describes {b!r}, tree is {a!r}',
                f't = {U.src(d)}\no = {U.opt_src(o)}\n' + ('with optree.dict_insertion_ordered(True, namespace=o["namespace"]):\n    ' if ins else '') +
                f'a = optree.tree_structure(t, **o)\nn = U.absify(t, insertion={ins!r}, **o)\nb, nil, ns = U.abs_from_state(a)\n'
                f'print(a, n, b)\nsys.exit(1 if not (U.a_same(n, b) and nil == o["none_is_leaf"] and ns in ("", o["namespace"])) else 0)\n')
    return e


def pair_body(x, y, cond):
    return x.src('a') + y.src('b') + f'sys.exit(1 if ({cond}) else 0)\n'


def exc_body(x, y, stmts):
    return x.src('a') + y.src('b') + stmts + '\nsys.exit(0)\n'


def check_pair(x, y, bag, stats):
    """All pairwise clauses on two entities (slow, complete path)."""
    a, b = x.spec, y.spec
    bag.ev()
    try:
        e1 = a == b
        e2 = b == a
        n1 = a != b
        n2 = b != a
    except Exception as e:   # noqa: BLE001
        bag.add('C06.unexpected_exception', f'comparing {x.label()} with {y.label()} raised {U.exc_name(e)}',
                exc_body(x, y, 'a == b; b == a; a != b; b != a'))
        return
    same_struct = x.cls == y.cls
    flags_ok = x.nil == y.nil and U.ns_compatible(x.ns, y.ns)
    unspecified = (not same_struct) and x.lcls == y.lcls and flags_ok
    if unspecified:
        stats['unspecified'] += 1
    else:
        exp = same_struct and flags_ok
        if e1 != exp:
            key = 'C06.eq_false_for_same_structure' if exp else 'C06.eq_true_for_different_structure'
            bag.add(key, f'a = {x.label()}, b = {y.label()}: a == b is {e1}, expected {exp} '
                         f'(none_is_leaf {x.nil}/{y.nil}, namespace {x.ns!r}/{y.ns!r})',
                    lambda: pair_body(x, y, f'(a == b) != {exp}'))
    if e1 != e2:
        bag.add('C06.eq_symmetric', f'a = {x.label()}, b = {y.label()}: a == b is {e1} but b == a is {e2}',
                lambda: pair_body(x, y, '(a == b) != (b == a)'))
    if n1 == e1 or n2 == e2:
        bag.add('C06.ne_is_negation', f'a = {x.label()}, b = {y.label()}: a == b is {e1}, a != b is {n1}, b != a is {n2}',
                lambda: pair_body(x, y, '(a != b) == (a == b) or (b != a) == (b == a)'))
    if e1 and x.h != y.h:
        bag.add('C06.eq_implies_hash', f'a = {x.label()} (namespace {x.ns!r}), b = {y.label()} (namespace {y.ns!r}): '
                                       f'a == b but hash(a) != hash(b)',
                lambda: pair_body(x, y, 'a == b and hash(a) != hash(b)'))
    # dict keys / set members
    try:
        in_set = b in {a}
        got = {a: 1}.get(b)
    except Exception as e:   # noqa: BLE001
        bag.add('C06.unexpected_exception', f'set/dict use of {x.label()} / {y.label()} raised {U.exc_name(e)}',
                exc_body(x, y, '(b in {a}); {a: 1}.get(b)'))
        return
    if in_set != e1 or (got == 1) != e1:
        bag.add('C06.set_membership', f'a = {x.label()}, b = {y.label()}: a == b is {e1} but (b in {{a}}) is {in_set}, '
                                      f'{{a: 1}}.get(b) is {got}',
                lambda: pair_body(x, y, '(b in {a}) != (a == b) or ({a: 1}.get(b) == 1) != (a == b)'))


def all_pairs(ents, bag, stats):
    """Fast path over all unordered pairs (incl. i == j); anything irregular goes to check_pair."""
    P = len(ents)
    specs = [e.spec for e in ents]
    cls = [e.cls for e in ents]
    nils = [e.nil for e in ents]
    nss = [e.ns for e in ents]
    hs = [e.h for e in ents]
    n = 0
    for i in range(P):
        si, ci, ni, li, hi = specs[i], cls[i], nss[i], nils[i], hs[i]
        for j in range(i, P):
            sj = specs[j]
            try:
                e1 = si == sj
                exp = ci == cls[j] and li == nils[j] and (ni == '' or nss[j] == '' or ni == nss[j])
                if e1 is not exp or (sj == si) is not e1 or (si != sj) is e1 or (e1 and hi != hs[j]):
                    check_pair(ents[i], ents[j], bag, stats)
            except Exception:   # noqa: BLE001 - re-evaluated and reported by the slow path
                check_pair(ents[i], ents[j], bag, stats)
        n += P - i
    bag.ev(n)
    return n


def transitivity(ents, bag, limit, rng):
    """Within one namespace: a == b and b == c  =>  a == c, on the observed relation."""
    groups = {}
    for e in ents:
        groups.setdefault(e.ns, []).append(e)
    for ns, g in sorted(groups.items()):
        g = U.thin(g, limit, rng)
        rows = []
        for x in g:
            r = 0
            xs = x.spec
            for k, y in enumerate(g):
                try:
                    if xs == y.spec:
                        r |= 1 << k
                except Exception:   # noqa: BLE001 - already reported by the pair loop
                    pass
            rows.append(r)
        bag.ev(len(g) * len(g))
        for i, r in enumerate(rows):
            m = r
            k = 0
            while m:
                if m & 1 and k > i and rows[k] != r:
                    diff = rows[k] ^ r
                    c = diff.bit_length() - 1
                    x, y, z = g[i], g[k], g[c]
                    bag.add('C06.eq_transitive',
                            f'namespace {ns!r}: a = {x.label()}, b = {y.label()}, c = {z.label()}: a == b but (a == c) is '
                            f'{bool(r >> c & 1)} and (b == c) is {bool(rows[k] >> c & 1)}',
                            lambda x=x, y=y, z=z: x.src('a') + y.src('b') + z.src('c') +
                            'sys.exit(1 if (a == b and (a == c) != (b == c)) else 0)\n')
                m >>= 1
                k += 1


def reorder_dicts(d):
    """Same tree with the other insertion order at every dict/defaultdict node with sortable str keys."""
    if len(d) == 1:
        return d
    ch = [reorder_dicts(c) for c in d[1]]
    swap = {'dictR': 'dictF', 'dictF': 'dictR', 'ddictR': 'ddictF', 'ddictF': 'ddictR'}
    if d[0] in swap and len(ch) >= 2:
        return (swap[d[0]], ch[::-1])
    return (d[0], ch)


ROUTES = [
    # name, source expression over: a (flattened spec), t (tree), o (options dict), leaf (leaf spec)
    ('tree_flatten', 'optree.tree_flatten(t, **o)[1]'),
    ('tree_flatten_with_path', 'optree.tree_flatten_with_path(t, **o)[2]'),
    ('other_leaf_values', 'optree.tree_structure(optree.tree_map(lambda x: 0, t, **o), **o)'),
    ('unflatten_flatten', 'optree.tree_structure(a.unflatten(range(a.num_leaves)), **{**o, "is_leaf": None})'),
    ('transform_identity', 'a.transform(lambda s: s, lambda s: s)'),
    ('transform_none', 'a.transform()'),
    ('compose_leaf_outer', 'leaf.compose(a)'),
    ('compose_leaf_inner', 'a.compose(leaf)'),
    ('broadcast_self', 'a.broadcast_to_common_suffix(a)'),
    ('broadcast_leaf', 'a.broadcast_to_common_suffix(leaf)'),
    ('leaf_broadcast', 'leaf.broadcast_to_common_suffix(a)'),
    ('children_rebuild', 'a if a.is_leaf() else optree.treespec_from_collection(a.one_level().unflatten(a.children()), '
                         'none_is_leaf=a.none_is_leaf, namespace=o["namespace"])'),
    ('child_rebuild', 'a if a.is_leaf() else optree.treespec_from_collection(a.one_level().unflatten('
                      '[a.child(i) for i in range(a.num_children)]), none_is_leaf=a.none_is_leaf, namespace=o["namespace"])'),
    ('pickle', 'pickle.loads(pickle.dumps(a))'),
    ('copy', 'copy.copy(a)'),
    ('deepcopy', 'copy.deepcopy(a)'),
]


def check_routes(d, o, bag):
    t = U.build(d)
    try:
        a = optree.tree_structure(t, **o)
        leaf = optree.treespec_leaf(none_is_leaf=o['none_is_leaf'])
        ha = hash(a)
    except Exception as e:   # noqa: BLE001
        bag.add('C06.unexpected_exception', f'tree_structure of {U.show(d)} [{S.opt_repr(o)}] raised {U.exc_name(e)}',
                f't = {U.src(d)}\noptree.tree_structure(t, **{U.opt_src(o)})\nsys.exit(0)\n')
        return
    n = U.absify(t, **o)
    routes = list(ROUTES)
    # 'unflatten_flatten' re-flattens a tree whose leaves are ints: only meaningful without an is_leaf predicate
    if o['is_leaf'] is not None:
        routes = [r for r in routes if r[0] not in ('unflatten_flatten', 'other_leaf_values')]
    routes.append(('constructors', U.ctor_src(n, o['none_is_leaf'], o['namespace'])))
    routes.append(('from_collection', U.ctor_src(n, o['none_is_leaf'], o['namespace'], generic=True)))
    d2 = reorder_dicts(d)
    if d2 != d:
        routes.append(('other_insertion_order', f'optree.tree_structure({U.src(d2)}, **o)'))
    head = f't = {U.src(d)}\no = {U.opt_src(o)}\na = optree.tree_structure(t, **o)\n' \
           f"leaf = optree.treespec_leaf(none_is_leaf=o['none_is_leaf'])\n"
    for name, expr in routes:
        bag.ev()
        st, r = U.guard(U.ev, expr, a=a, t=t, o=o, leaf=leaf)
        if st == 'exc':
            bag.add('C06.unexpected_exception', f'route {name} on {U.show(d)} [{S.opt_repr(o)}] raised {U.exc_name(r)}',
                    head + f'r = {expr}\nsys.exit(0)\n')
            continue
        try:
            eq = (r == a) and (a == r) and not (r != a) and not (a != r)
            hr = hash(r)
        except Exception as e:   # noqa: BLE001
            bag.add('C06.unexpected_exception', f'comparing route {name} on {U.show(d)} raised {U.exc_name(e)}',
                    head + f'r = {expr}\nr == a; hash(r)\nsys.exit(0)\n')
            continue
        if not eq:
            bag.add('C06.route_independent',
                    f'{U.show(d)} [{S.opt_repr(o)}]: treespec obtained via {name} ({r!r}) is not == the flattened one ({a!r})',
                    head + f'r = {expr}\nsys.exit(1 if not ((r == a) and (a == r) and not (r != a) and not (a != r)) else 0)\n')
        elif hr != ha:
            bag.add('C06.eq_implies_hash',
                    f'{U.show(d)} [{S.opt_repr(o)}]: treespec via {name} (namespace {r.namespace!r}) == flattened one '
                    f'(namespace {a.namespace!r}) but the hashes differ',
                    head + f'r = {expr}\nsys.exit(1 if (r == a and hash(r) != hash(a)) else 0)\n')
        elif (r in {a}) is not True or {a: 7}.get(r) != 7:
            bag.add('C06.set_membership', f'{U.show(d)} [{S.opt_repr(o)}]: treespec via {name} not found in a set/dict holding the flattened one',
                    head + f'r = {expr}\nsys.exit(1 if (r not in {{a}} or {{a: 7}}.get(r) != 7) else 0)\n')


def run(tier: str, seed: int) -> BoundedReport:
    U.ensure_registered()
    quick = tier == 'quick'
    rng = random.Random(seed)
    bag = U.Bag('c06_eqhash')
    stats = {'unspecified': 0}
    intern, lintern = Interner(), Interner()
    opts6 = U.options(namespaces=('', U.NS, U.NS_OTHER))
    opts_pred = U.options(namespaces=('', U.NS), predicates=S.PREDICATES[1:])
    opts_ns2 = U.options(namespaces=(U.NS2,))

    # ---- population for the all-pairs matrix ------------------------------------------------------
    pop = []
    seen_rep = {}

    def add(d, o, ins=False, max_rep=2):
        e = make_ent(d, o, intern, lintern, bag, ins)
        if e is None:
            return
        k = (e.cls, e.nil, e.ns)
        c = seen_rep.get(k, 0)
        if c >= max_rep:
            return
        seen_rep[k] = c + 1
        pop.append(e)
        bag.seen((U.freeze(d), U.opt_key(o), ins))

    small = list(U.descriptions(3, U.MID_KINDS + ['customM'], U.CORE_ATOMS))
    for d in small:
        for o in opts6:
            add(d, o)
    for d in U.descriptions(3, ['list', 'dictR', 'tuple', 'customN'], U.CORE_ATOMS):
        for o in opts_pred + opts_ns2:
            add(d, o)
    # insertion-ordered mode (namespace NS): only trees with a dict / defaultdict node
    for d in U.descriptions(3, ['dictR', 'dictF', 'ddictR', 'odictR', 'tuple'], ['leaf', 'none']):
        if 'dict' in U.show(d):
            for nil in (False, True):
                add(d, {'none_is_leaf': nil, 'namespace': U.NS, 'is_leaf': None}, ins=True)
    # every node kind / atom at least once (2-node trees over the full tables)
    for d in U.descriptions(2, U.ALL_KINDS, U.ALL_ATOMS):
        for o in opts6[:2] + opts6[3:5]:
            add(d, o)
    if not quick:
        big = list(U.descriptions(4, U.CORE_KINDS, U.CORE_ATOMS, min_nodes=4))
        big = U.thin(big, 1500, rng)
        for d in big:
            for o in opts6:
                add(d, o, max_rep=1)
    limit = 2600 if quick else 11000
    thinned = len(pop) > limit
    if thinned:
        keep = [e for e in pop if e.nn <= 2]
        rest = [e for e in pop if e.nn > 2]
        pop = keep + U.thin(rest, limit - len(keep), rng)
    npairs = all_pairs(pop, bag, stats)
    transitivity(pop, bag, 700 if quick else 2500, rng)
    # complete (slow) path on every expected-equal pair and a sample of the others: set / dict behaviour
    by_cls = {}
    for e in pop:
        by_cls.setdefault(e.cls, []).append(e)
    for g in by_cls.values():
        for i, x in enumerate(g):
            for y in g[i:]:
                check_pair(x, y, bag, stats)
    for _ in range(3000 if quick else 40000):
        check_pair(rng.choice(pop), rng.choice(pop), bag, stats)

    # ---- pairs differing in exactly one node attribute -------------------------------------------
    bases = list(U.descriptions(3, U.CORE_KINDS + ['customN', 'dictU'], ['leaf', 'none']))
    if quick:
        bases = [d for d in bases if U.n_nodes(d) <= 2] + U.thin([d for d in bases if U.n_nodes(d) == 3], 60, rng)
    else:
        bases = bases + U.thin(list(U.descriptions(4, U.CORE_KINDS, ['leaf', 'none'], min_nodes=4)), 250, rng)
    mopts = [opts6[0], opts6[1], opts6[4]] if quick else opts6
    nmut = 0
    for d in bases:
        xs = [make_ent(d, o, intern, lintern, bag) for o in mopts]
        for m in U.mutants(d):
            ys = [make_ent(m, o, intern, lintern, bag) for o in mopts]
            for x in xs:
                for y in ys:
                    if x is not None and y is not None:
                        check_pair(x, y, bag, stats)
                        nmut += 1
            bag.seen((U.freeze(d), U.freeze(m)))

    # ---- construction routes -------------------------------------------------------------------------
    rdescr = [d for d in U.descriptions(3, U.MID_KINDS + ['ddictI', 'dictH', 'ntB', 'customM'], U.CORE_ATOMS + ['e_list', 'e_deque'])]
    if quick:
        rdescr = [d for d in rdescr if U.n_nodes(d) <= 2] + U.thin([d for d in rdescr if U.n_nodes(d) == 3], 350, rng)
    else:
        rdescr += U.thin(list(U.descriptions(4, U.CORE_KINDS + ['customN'], U.CORE_ATOMS, min_nodes=4)), 1500, rng)
    ropts = opts6 + opts_ns2[:1] + (opts_pred[:2] if quick else opts_pred)
    for d in rdescr:
        for o in ropts:
            check_routes(d, o, bag)
            bag.seen((U.freeze(d), U.opt_key(o), 'routes'))

    for e in (pop[1], pop[len(pop) // 3], pop[len(pop) // 2], pop[-1]):
        bag.sample(f'{e.label()} -> {e.spec!r}')
    bag.sample(f'routes per tree: {[r[0] for r in ROUTES] + ["constructors", "from_collection", "other_insertion_order"]}')
    return bag.report(
        rule='distinct = (tree description, options[, dict-order mode]) entries of the pair population, (base, one-node mutant) '
             'pairs and (tree, options) route cases; trivial single-leaf trees are included but are < 1% of the population',
        scope=f'{tier}: all unordered pairs of {len(pop)} treespecs ({npairs} pairs; trees with <= {3 if quick else 4} nodes over '
              f'{len(U.MID_KINDS) + 1} node kinds x none_is_leaf x namespace in ("", registered {U.NS!r}, {U.NS2!r}, unknown) x is_leaf '
              f'predicates x dict-order mode; at most 2 representatives per (structure, none_is_leaf, namespace)); '
              f'{nmut} (tree, one-node mutant) pairs over all {len(U.ALL_KINDS)} kind variants x option pairs; '
              f'{len(rdescr)} trees x {len(ropts)} options x {len(ROUTES) + 3} construction routes; '
              f'{stats["unspecified"]} pairs not judged (only dict key order differs where the order is not canonical)',
        exhaustive=False,
        notes='pair population is thinned by seed above 3 nodes; comparison with non-treespec objects is not part of the property',
    )
