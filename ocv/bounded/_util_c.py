"""Shared helpers of the monitors c12 / c13 / c14 / c18 / c19.

* `Ctx`            – bookkeeping of evaluations / distinct non-trivial inputs / samples / findings
                     (at most MAX_PER_KEY findings per key, first = smallest inputs first).
* `run_isolated`   – runs the real body of a monitor (`_run(ctx, tier, seed)`) in a child process so that a
                     SIGSEGV / deadlock inside optree becomes a *finding* instead of killing the monitor.
                     The child streams its findings to a side file; whatever was found before a crash survives.
* `child`          – run a snippet in a fresh interpreter with the same environment (timeout, rc, out, err).
* `source_of`      – `inspect.getsource` of several objects, used to assemble self-contained replay scripts
                     from the very code the monitor executes.
"""
from __future__ import annotations

import importlib
import inspect
import json
import os
import subprocess
import sys
import textwrap
import time
import traceback

from ocv.result import BoundedReport, Finding

MAX_PER_KEY = 5


def global_ns():
    """The global-namespace sentinel = default value of the `namespace` parameter is *not* available (the
    parameter is required), so take it from the registry module (name-mangling free lookup)."""
    import optree.registry as r
    return next(v for k, v in vars(r).items() if k.endswith('__GLOBAL_NAMESPACE'))


GLOBAL_NS_SRC = (
    "import optree.registry as _r\n"
    "GLOBAL = next(v for k, v in vars(_r).items() if k.endswith('__GLOBAL_NAMESPACE'))\n"
)


class Ctx:
    def __init__(self, name: str, tier: str, seed: int, budget_s: float, side_file: str | None = None,
                 progress_file: str | None = None):
        self.name = name
        self.tier = tier
        self.seed = seed
        self.t0 = time.time()
        self.deadline = self.t0 + budget_s
        self.evaluations = 0
        self.nontrivial: set = set()
        self.nontrivial_extra = 0
        self.samples: list = []
        self.findings: dict[str, list[Finding]] = {}
        self.suppressed: dict[str, int] = {}
        self.notes: list[str] = []
        self.truncated = False
        self._side = open(side_file, 'a') if side_file else None
        self._progress = open(progress_file, 'w') if progress_file else None

    # -- time -------------------------------------------------------------------------------------
    def time_left(self) -> float:
        return self.deadline - time.time()

    def out_of_time(self) -> bool:
        if time.time() > self.deadline:
            self.truncated = True
            return True
        return False

    # -- bookkeeping ------------------------------------------------------------------------------
    def progress(self, text: str) -> None:
        """Remember what is being executed (read by the parent if the worker dies)."""
        if self._progress is not None:
            self._progress.seek(0)
            self._progress.write(text[:4000])
            self._progress.truncate()
            self._progress.flush()

    def count(self, n: int = 1) -> None:
        self.evaluations += n

    def mark_nontrivial(self, canonical) -> None:
        self.nontrivial.add(canonical)

    def sample(self, s, limit: int = 6) -> None:
        if len(self.samples) < limit:
            self.samples.append(s)

    def wants(self, key: str) -> bool:
        """False once MAX_PER_KEY findings for that key were recorded (callers may skip building scripts)."""
        return len(self.findings.get(key, ())) < MAX_PER_KEY

    def n_findings(self) -> int:
        return sum(len(v) for v in self.findings.values())

    def fail(self, key: str, what: str, script, data: dict | None = None, group=None, cap: int = MAX_PER_KEY) -> None:
        """Record a violation; `script` may be a string or a zero-argument callable producing it.

        `group` (optional) opens a separate quota of `cap` findings for the same key, so that one family of
        violations cannot crowd out another family that violates the same clause."""
        lst = self.findings.setdefault(key if group is None else (key, group), [])
        if len(lst) >= cap:
            self.suppressed[key] = self.suppressed.get(key, 0) + 1
            return
        if callable(script):
            script = script()
        f = Finding(key=key, what=' '.join(str(what).split())[:1500], script=script, data=data or {})
        lst.append(f)
        if self._side is not None:
            self._side.write(json.dumps(f.to_json(), default=str) + '\n')
            self._side.flush()

    def check(self, ok: bool, key: str, what, script, data: dict | None = None) -> bool:
        """One contract evaluation. `what` may be a callable (evaluated only on failure)."""
        self.evaluations += 1
        if not ok:
            self.fail(key, what() if callable(what) else what, script, data)
        return ok

    def report(self, rule: str, scope: str, exhaustive: bool) -> BoundedReport:
        notes = list(self.notes)
        if self.truncated:
            notes.append('time budget reached: enumeration truncated (exhaustive=false)')
        for k, n in sorted(self.suppressed.items()):
            notes.append(f'{n} further violations of {k} not listed')
        return BoundedReport(
            name=self.name,
            evaluations=self.evaluations,
            distinct_nontrivial=len(self.nontrivial) + self.nontrivial_extra,
            rule=rule,
            scope=scope,
            exhaustive=bool(exhaustive and not self.truncated),
            samples=self.samples[:6],
            findings=[f for k in self.findings for f in self.findings[k]],
            wall_s=round(time.time() - self.t0, 2),
            notes='; '.join(notes),
        )


# ------------------------------------------------------------------------------------------------
# child processes


def child(code: str, timeout: float = 60, argv: list[str] | None = None) -> tuple[int | None, str, str]:
    """Run `code` in a fresh interpreter (same environment). rc None = timeout (killed)."""
    env = dict(os.environ)
    env.setdefault('PYTHONDONTWRITEBYTECODE', '1')
    try:
        r = subprocess.run([sys.executable, '-c', code] + (argv or []), env=env, capture_output=True, text=True,
                           timeout=timeout)
    except subprocess.TimeoutExpired as e:
        out = e.stdout.decode() if isinstance(e.stdout, bytes) else (e.stdout or '')
        err = e.stderr.decode() if isinstance(e.stderr, bytes) else (e.stderr or '')
        return None, out, err
    return r.returncode, r.stdout, r.stderr


def run_isolated(module: str, prop: str, tier: str, seed: int, budget_s: float, hard_timeout_s: float) -> BoundedReport:
    """Execute `ocv.bounded.<module>._run(ctx, tier, seed) -> BoundedReport` in a child process."""
    base = f'/tmp/ocv-{module}-{os.getpid()}-{int(time.time() * 1000) % 100000}'
    out, side, prog = base + '.json', base + '.findings.jsonl', base + '.progress'
    for p in (out, side, prog):
        if os.path.exists(p):
            os.unlink(p)
    cmd = [sys.executable, '-m', 'ocv.bounded._util_c', module, tier, str(seed), str(budget_s), out, side, prog]
    env = dict(os.environ)
    env.setdefault('PYTHONDONTWRITEBYTECODE', '1')
    t0 = time.time()
    rc: int | None
    try:
        r = subprocess.run(cmd, env=env, capture_output=True, text=True, timeout=hard_timeout_s)
        rc, stderr = r.returncode, r.stderr
    except subprocess.TimeoutExpired as e:
        rc, stderr = None, (e.stderr.decode() if isinstance(e.stderr, bytes) else (e.stderr or ''))
    try:
        if rc == 0 and os.path.exists(out):
            with open(out) as f:
                return BoundedReport.from_json(json.load(f))
        # the worker died: keep what it found, add the crash itself as a finding
        findings = []
        if os.path.exists(side):
            with open(side) as f:
                findings = [Finding(**json.loads(line)) for line in f if line.strip()]
        last = open(prog).read() if os.path.exists(prog) else ''
        how = 'timed out (deadlock?)' if rc is None else (f'died with signal {-rc}' if rc < 0 else f'exited with rc={rc}')
        key = f'{prop}.worker_timeout' if rc is None else (f'{prop}.worker_crashed_by_signal' if rc < 0 else f'{prop}.monitor_error')
        script = ("import subprocess, sys\n"
                  f"r = subprocess.run([sys.executable, '-m', 'ocv.bounded._util_c', {module!r}, {tier!r}, '{seed}', "
                  f"'{budget_s}', '/dev/null', '/dev/null', '/dev/null'], timeout={hard_timeout_s})\n"
                  "sys.exit(1 if r.returncode != 0 else 0)\n")
        findings.append(Finding(key=key, what=f'monitor worker {how} while executing: {last[:600]!r}; stderr tail: {stderr[-600:]!r}',
                                script=script, data={'last_case': last, 'stderr': stderr[-3000:]}))
        return BoundedReport(name=module, findings=findings, wall_s=round(time.time() - t0, 2),
                             notes=f'worker {how}; partial findings only', rule='(worker died)', scope='(worker died)')
    finally:
        for p in (out, side, prog):
            if os.path.exists(p):
                os.unlink(p)


def source_of(*objs) -> str:
    return '\n\n'.join(textwrap.dedent(inspect.getsource(o)) for o in objs) + '\n'


def _worker_main(argv: list[str]) -> int:
    module, tier, seed, budget, out, side, prog = argv
    import optree  # noqa: F401
    mod = importlib.import_module(f'ocv.bounded.{module}')
    ctx = Ctx(module, tier, int(seed), float(budget), side_file=None if side == '/dev/null' else side,
              progress_file=None if prog == '/dev/null' else prog)
    try:
        rep = mod._run(ctx, tier, int(seed))
    except BaseException:
        traceback.print_exc()
        return 3
    if out != '/dev/null':
        with open(out, 'w') as f:
            json.dump(rep.to_json(), f, default=str)
    else:
        return 1 if rep.findings else 0
    return 0


if __name__ == '__main__':
    sys.exit(_worker_main(sys.argv[1:]))
