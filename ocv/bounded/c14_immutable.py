"""C14 - treespecs are immutable values independent of their source tree and registry (bounded monitor).

Parts (each case is a plain tuple, executed by `run_case`, also inside the replay scripts):
  unary    : every public operation on (tree, leaves, treespec) - succeeding or failing - leaves the input tree,
             the leaf sequence, argument collections and the operand treespec exactly as they were
  pair     : the binary operations on two trees / treespecs (mostly FAILING: mismatching structures) likewise
  fresh    : every list handed out by paths / accessors / entries / children and the leaves list of flatten is a
             fresh object; mutating it changes nothing
  lifetime : all orders of {mutate source containers, mutate returned lists, unregister, re-register the custom
             type, delete tree+leaves, gc.collect} after creating the treespec, re-observing it after each action;
             weak references to the leaves die once tree and leaves are deleted
  cycle    : a treespec in a reference cycle through its metadata is reclaimed by the garbage collector

A snapshot of a treespec is a deep *frozen* rendering (nothing in it aliases treespec internals) of
`__getstate__()`, repr, hash, counts, paths, entries, children, accessors, one_level and of what `unflatten`
builds.  The section between the core markers is pasted verbatim into the replay scripts.
"""
from __future__ import annotations

import itertools
import random

from ocv.bounded import _util_c as U
from ocv.result import BoundedReport

# >>> core
import collections
import copy
import gc
import itertools
import pickle
import sys
import weakref
from collections import OrderedDict, defaultdict, deque

import optree
import optree.registry as _registry

from ocv.bounded import scope as S

GLOBAL = next(v for k, v in vars(_registry).items() if k.endswith('__GLOBAL_NAMESPACE'))
C14_NS = 'c14_ns'


class WL:
    """Leaf with identity that can be weakly referenced."""
    __slots__ = ('n', '__weakref__')

    def __init__(self, n):
        self.n = n

    def __repr__(self):
        return 'W%d' % self.n


def build(descr, counter, fresh=None):
    head = descr[0]
    if head == 'leaf':
        return WL(next(counter))
    if head == 'none':
        return None
    if head == 'empty_tuple':
        return ()
    if head == 'empty_dict':
        return {}
    if head == 'empty_list':
        return []
    if head == 'fresh':
        return fresh([build(c, counter, fresh) for c in descr[1]], ('meta', len(descr[1])))
    return S.KIND_BY_NAME[head].make([build(c, counter, fresh) for c in descr[1]])


def show(descr):
    if len(descr) == 1:
        return S.show(descr)
    return '%s(%s)' % (descr[0], ', '.join(show(c) for c in descr[1]))


# ---- frozen renderings --------------------------------------------------------------------------

def fz(x, pins):
    """Deep immutable rendering of a Python value; unknown objects by identity (pinned so ids stay unique)."""
    if x is None or isinstance(x, (bool, int, float, str, bytes)):
        return repr(x)
    if isinstance(x, WL):
        return repr(x)
    if isinstance(x, type):
        return 'type:%s.%s' % (x.__module__, x.__qualname__)
    if isinstance(x, (list, tuple, deque)) and not hasattr(x, '_fields'):
        return (type(x).__name__,) + tuple(fz(i, pins) for i in x)
    if isinstance(x, dict):
        return (type(x).__name__,) + tuple((fz(k, pins), fz(v, pins)) for k, v in x.items())
    if isinstance(x, (S.UKey, S.L)):
        return repr(x)
    pins.append(x)
    return '%s@%x' % (type(x).__name__, id(x))


def snap_tree(t):
    """Deep rendering of a pytree: container types, key order, metadata, leaf identities."""
    if t is None or isinstance(t, (WL, int, str)):
        return repr(t)
    if isinstance(t, dict):
        fac = getattr(t, 'default_factory', None)
        return (type(t).__name__, getattr(fac, '__name__', repr(fac)), tuple((repr(k), snap_tree(v)) for k, v in t.items()))
    if isinstance(t, deque):
        return ('deque', t.maxlen, tuple(snap_tree(c) for c in t))
    if isinstance(t, (list, tuple)):
        return (type(t).__name__, tuple(snap_tree(c) for c in t))
    if isinstance(t, (S.CustomE, S.CustomF)):
        return (type(t).__name__, repr(t.meta), type(t.children).__name__, tuple(snap_tree(c) for c in t.children))
    if isinstance(t, S.CustomN):
        return ('CustomN', type(t.children).__name__, tuple(snap_tree(c) for c in t.children))
    if getattr(type(t), '_c14_fresh', False):
        return ('Fresh', repr(t.meta), t.tag, type(t.children).__name__, tuple(snap_tree(c) for c in t.children))
    return 'other:' + repr(t)


def snap_spec_light(spec, pins):
    return (fz(spec.__getstate__(), pins), repr(spec))


def snap_spec(spec, pins, twin=None):
    n = spec.num_leaves
    out = {
        'state': fz(spec.__getstate__(), pins),
        'repr': repr(spec),
        'hash': hash(spec),
        'counts': (n, spec.num_nodes, spec.num_children, spec.none_is_leaf, spec.namespace, spec.kind.name,
                   fz(spec.type, pins), len(spec)),
        'paths': fz(spec.paths(), pins),
        'entries': fz(spec.entries(), pins),
        'children': tuple(repr(c) for c in spec.children()),
        'accessors': tuple(repr(a) for a in spec.accessors()),
        'one_level': repr(spec.one_level()),
        'unflatten': snap_tree(spec.unflatten(list(range(n)))),
    }
    if twin is not None:
        out['eq_twin'] = (spec == twin, hash(spec) == hash(twin))
    return out


def diff(a, b):
    if isinstance(a, dict):
        return {k: (a[k], b.get(k)) for k in a if a[k] != b.get(k)}
    return (a, b)


def _kw(o):
    return {'is_leaf': o['is_leaf'], 'none_is_leaf': o['none_is_leaf'], 'namespace': o['namespace']}


def _ident(x):
    return x


def _first(x, *rest):
    return x


# ---- operations ---------------------------------------------------------------------------------
# unary tree operations: f(tree, options)
TREE_OPS = {
    'tree_flatten': lambda t, o: optree.tree_flatten(t, **_kw(o)),
    'tree_flatten_with_path': lambda t, o: optree.tree_flatten_with_path(t, **_kw(o)),
    'tree_flatten_with_accessor': lambda t, o: optree.tree_flatten_with_accessor(t, **_kw(o)),
    'tree_iter': lambda t, o: list(optree.tree_iter(t, **_kw(o))),
    'tree_leaves': lambda t, o: optree.tree_leaves(t, **_kw(o)),
    'tree_structure': lambda t, o: optree.tree_structure(t, **_kw(o)),
    'tree_paths': lambda t, o: optree.tree_paths(t, **_kw(o)),
    'tree_accessors': lambda t, o: optree.tree_accessors(t, **_kw(o)),
    'tree_is_leaf': lambda t, o: optree.tree_is_leaf(t, **_kw(o)),
    'all_leaves': lambda t, o: optree.all_leaves([t, t], **_kw(o)),
    'tree_map': lambda t, o: optree.tree_map(_ident, t, **_kw(o)),
    'tree_map_': lambda t, o: optree.tree_map_(_ident, t, **_kw(o)),
    'tree_map_2': lambda t, o: optree.tree_map(_first, t, t, **_kw(o)),
    'tree_map_with_path': lambda t, o: optree.tree_map_with_path(lambda p, x: x, t, **_kw(o)),
    'tree_map_with_path_': lambda t, o: optree.tree_map_with_path_(lambda p, x: x, t, **_kw(o)),
    'tree_map_with_accessor': lambda t, o: optree.tree_map_with_accessor(lambda a, x: x, t, **_kw(o)),
    'tree_map_with_accessor_': lambda t, o: optree.tree_map_with_accessor_(lambda a, x: x, t, **_kw(o)),
    'tree_replace_nones': lambda t, o: optree.tree_replace_nones(0, t, namespace=o['namespace']),
    'tree_transpose_map': lambda t, o: optree.tree_transpose_map(lambda x: (x, x), t, **_kw(o)),
    'tree_transpose_map_with_path': lambda t, o: optree.tree_transpose_map_with_path(lambda p, x: [x], t, **_kw(o)),
    'tree_broadcast_prefix': lambda t, o: optree.tree_broadcast_prefix(t, t, **_kw(o)),
    'broadcast_prefix': lambda t, o: optree.broadcast_prefix(t, t, **_kw(o)),
    'tree_broadcast_common': lambda t, o: optree.tree_broadcast_common(t, t, **_kw(o)),
    'broadcast_common': lambda t, o: optree.broadcast_common(t, t, **_kw(o)),
    'tree_broadcast_map': lambda t, o: optree.tree_broadcast_map(_first, t, t, **_kw(o)),
    'tree_broadcast_map_with_path': lambda t, o: optree.tree_broadcast_map_with_path(lambda p, x, y: x, t, t, **_kw(o)),
    'tree_reduce': lambda t, o: optree.tree_reduce(_first, t, 0, **_kw(o)),
    'tree_max': lambda t, o: optree.tree_max(t, default=None, key=lambda x: getattr(x, 'n', 0), **_kw(o)),
    'tree_all': lambda t, o: optree.tree_all(t, **_kw(o)),
    'tree_any': lambda t, o: optree.tree_any(t, **_kw(o)),
    'tree_flatten_one_level': lambda t, o: optree.tree_flatten_one_level(t, **_kw(o)),
    'prefix_errors': lambda t, o: optree.prefix_errors(t, t, **_kw(o)),
}

# treespec operations: f(spec, ctx)  ctx: leaves (list), tree, leafspec, speclist, specmap, nil, ns
SPEC_OPS = {
    'unflatten': lambda s, c: s.unflatten(c['leaves']),
    'unflatten_iterator': lambda s, c: s.unflatten(iter(c['leaves'])),
    'unflatten_too_few': lambda s, c: s.unflatten(c['leaves'][:-1]) if c['leaves'] else s.unflatten([0]),
    'unflatten_too_many': lambda s, c: s.unflatten(c['leaves'] + [0]),
    'tree_unflatten': lambda s, c: optree.tree_unflatten(s, c['leaves']),
    'flatten_up_to': lambda s, c: s.flatten_up_to(c['tree']),
    'flatten_up_to_mismatch': lambda s, c: s.flatten_up_to([c['tree']]),
    'paths': lambda s, c: s.paths(),
    'accessors': lambda s, c: s.accessors(),
    'entries': lambda s, c: s.entries(),
    'entry0': lambda s, c: s.entry(0),
    'entry_out_of_range': lambda s, c: s.entry(99),
    'children': lambda s, c: s.children(),
    'child0': lambda s, c: s.child(0),
    'child_out_of_range': lambda s, c: s.child(-99),
    'one_level': lambda s, c: s.one_level(),
    'is_leaf': lambda s, c: (s.is_leaf(), s.is_leaf(strict=False), s.is_one_level()),
    'is_prefix_self': lambda s, c: (s.is_prefix(s), s.is_prefix(s, strict=True), s.is_suffix(s)),
    'compare_self': lambda s, c: (s == s, s != s, s < s, s <= s, s > s, s >= s),
    'hash_len_repr': lambda s, c: (hash(s), len(s), repr(s), str(s)),
    'transform_identity': lambda s, c: s.transform(_ident, _ident),
    'transform_none': lambda s, c: s.transform(),
    'transform_to_list': lambda s, c: s.transform(lambda n: optree.treespec_list(n.children(), none_is_leaf=c['nil'], namespace=c['ns'])),
    'compose_leaf': lambda s, c: s.compose(c['leafspec']),
    'compose_self': lambda s, c: s.compose(s),
    'traverse': lambda s, c: s.traverse(c['leaves'], _ident, _ident),
    'walk': lambda s, c: s.walk(c['leaves'], lambda t, m, ch: ch, _ident),
    'broadcast_self': lambda s, c: s.broadcast_to_common_suffix(s),
    'broadcast_leaf': lambda s, c: (s.broadcast_to_common_suffix(c['leafspec']), c['leafspec'].broadcast_to_common_suffix(s)),
    'pickle': lambda s, c: pickle.loads(pickle.dumps(s)),
    'copy': lambda s, c: (copy.copy(s), copy.deepcopy(s)),
    'treespec_tuple': lambda s, c: optree.treespec_tuple(c['speclist'], none_is_leaf=c['nil'], namespace=c['ns']),
    'treespec_list': lambda s, c: optree.treespec_list(c['speclist'], none_is_leaf=c['nil'], namespace=c['ns']),
    'treespec_deque': lambda s, c: optree.treespec_deque(c['speclist'], maxlen=5, none_is_leaf=c['nil'], namespace=c['ns']),
    'treespec_dict': lambda s, c: optree.treespec_dict(c['specmap'], none_is_leaf=c['nil'], namespace=c['ns']),
    'treespec_ordereddict': lambda s, c: optree.treespec_ordereddict(c['specmap'], none_is_leaf=c['nil'], namespace=c['ns']),
    'treespec_defaultdict': lambda s, c: optree.treespec_defaultdict(list, c['specmap'], none_is_leaf=c['nil'], namespace=c['ns']),
    'treespec_from_collection': lambda s, c: optree.treespec_from_collection(c['speclist'], none_is_leaf=c['nil'], namespace=c['ns']),
    'treespec_function_forms': lambda s, c: (optree.treespec_paths(s), optree.treespec_accessors(s), optree.treespec_entries(s),
                                             optree.treespec_children(s), optree.treespec_one_level(s),
                                             optree.treespec_is_leaf(s), optree.treespec_is_prefix(s, s)),
    'tree_transpose': lambda s, c: optree.tree_transpose(s, c['leafspec'], c['tree']),
}

# binary operations: f(a, b, ta, tb, la, lb, options)
PAIR_OPS = {
    'broadcast_to_common_suffix': lambda a, b, ta, tb, la, lb, o: a.broadcast_to_common_suffix(b),
    'is_prefix': lambda a, b, ta, tb, la, lb, o: (a.is_prefix(b), a.is_prefix(b, strict=True)),
    'is_suffix': lambda a, b, ta, tb, la, lb, o: (a.is_suffix(b), a.is_suffix(b, strict=True)),
    'compare': lambda a, b, ta, tb, la, lb, o: (a == b, a != b, a < b, a <= b),
    'compose': lambda a, b, ta, tb, la, lb, o: a.compose(b),
    'flatten_up_to': lambda a, b, ta, tb, la, lb, o: a.flatten_up_to(tb),
    'unflatten_other_leaves': lambda a, b, ta, tb, la, lb, o: a.unflatten(lb),
    'tree_broadcast_common': lambda a, b, ta, tb, la, lb, o: optree.tree_broadcast_common(ta, tb, **_kw(o)),
    'broadcast_common': lambda a, b, ta, tb, la, lb, o: optree.broadcast_common(ta, tb, **_kw(o)),
    'tree_broadcast_prefix': lambda a, b, ta, tb, la, lb, o: optree.tree_broadcast_prefix(ta, tb, **_kw(o)),
    'broadcast_prefix': lambda a, b, ta, tb, la, lb, o: optree.broadcast_prefix(ta, tb, **_kw(o)),
    'tree_map': lambda a, b, ta, tb, la, lb, o: optree.tree_map(_first, ta, tb, **_kw(o)),
    'tree_map_': lambda a, b, ta, tb, la, lb, o: optree.tree_map_(_first, ta, tb, **_kw(o)),
    'tree_broadcast_map': lambda a, b, ta, tb, la, lb, o: optree.tree_broadcast_map(_first, ta, tb, **_kw(o)),
    'prefix_errors': lambda a, b, ta, tb, la, lb, o: optree.prefix_errors(ta, tb, **_kw(o)),
    'tree_transpose': lambda a, b, ta, tb, la, lb, o: optree.tree_transpose(a, b, ta),
    'tree_transpose_map': lambda a, b, ta, tb, la, lb, o: optree.tree_transpose_map(lambda x: tb, ta, inner_treespec=b, **_kw(o)),
}

PREDICATES = {'none': None, 'list_is_leaf': lambda x: isinstance(x, (WL, list)), 'dict_is_leaf': lambda x: isinstance(x, (WL, dict))}


def options(opt):
    nil, ns, pred = opt
    return {'none_is_leaf': nil, 'namespace': ns, 'is_leaf': PREDICATES[pred]}


def _call(f, *args):
    """Run an operation; operations are allowed to fail here (the contract is about what they leave behind)."""
    try:
        f(*args)
        return None
    except Exception as e:   # noqa: BLE001
        return e


def case_unary(descr, opt):
    S.ensure_registered()
    o = options(opt)
    out = []
    tree = build(descr, itertools.count())
    t0 = snap_tree(tree)
    stats = {}
    for name, f in TREE_OPS.items():
        exc = _call(f, tree, o)
        stats[name] = exc is None
        t1 = snap_tree(tree)
        if t1 != t0:
            out.append(('C14.operation_mutates_input_tree', '%s(%s) [%s]: tree before %r, after %r'
                        % (name, show(descr), 'raised %s' % type(exc).__name__ if exc else 'ok', t0, t1)))
            tree = build(descr, itertools.count())
    leaves, spec = optree.tree_flatten(tree, **_kw(o))
    pins = []
    leaves0 = list(leaves)
    s0 = snap_spec_light(spec, pins)
    full0 = snap_spec(spec, pins)
    leafspec = optree.treespec_leaf(none_is_leaf=o['none_is_leaf'])
    l0 = snap_spec_light(leafspec, pins)
    speclist = [spec, leafspec, spec]
    specmap = {'b': spec, 'a': leafspec}
    ctx = {'leaves': leaves, 'tree': tree, 'leafspec': leafspec, 'speclist': speclist, 'specmap': specmap,
           'nil': o['none_is_leaf'], 'ns': o['namespace']}
    for name, f in SPEC_OPS.items():
        exc = _call(f, spec, ctx)
        stats[name] = exc is None
        how = 'raised %s: %s' % (type(exc).__name__, str(exc)[:80]) if exc else 'ok'
        s1 = snap_spec_light(spec, pins)
        if s1 != s0:
            out.append(('C14.operation_mutates_operand_treespec', '%s on treespec of %s %r [%s]: before %r, after %r'
                        % (name, show(descr), opt, how, s0, s1)))
            s0 = s1
        if snap_spec_light(leafspec, pins) != l0:
            out.append(('C14.operation_mutates_operand_treespec', '%s changed the leaf treespec argument' % name))
            l0 = snap_spec_light(leafspec, pins)
        if len(leaves) != len(leaves0) or any(x is not y for x, y in zip(leaves, leaves0)):
            out.append(('C14.operation_mutates_leaf_sequence', '%s on treespec of %s [%s]: leaves before %r, after %r'
                        % (name, show(descr), how, leaves0, leaves)))
            leaves[:] = leaves0
        if len(speclist) != 3 or speclist[0] is not spec or speclist[1] is not leafspec or speclist[2] is not spec or \
                list(specmap) != ['b', 'a'] or specmap['b'] is not spec or specmap['a'] is not leafspec:
            out.append(('C14.operation_mutates_input_collection', '%s on treespec of %s [%s]: argument collection changed: %r %r'
                        % (name, show(descr), how, speclist, specmap)))
            speclist[:] = [spec, leafspec, spec]
            specmap.clear()
            specmap.update({'b': spec, 'a': leafspec})
        t1 = snap_tree(tree)
        if t1 != t0:
            out.append(('C14.operation_mutates_input_tree', '%s on treespec of %s [%s]: tree before %r, after %r'
                        % (name, show(descr), how, t0, t1)))
            t0 = t1
    full1 = snap_spec(spec, pins)
    if full1 != full0:
        out.append(('C14.operation_mutates_operand_treespec', 'after all operations on treespec of %s %r: %r'
                    % (show(descr), opt, diff(full0, full1))))
    return out, len(TREE_OPS) + 4 * len(SPEC_OPS) + 1, stats


def case_pair(d1, d2, opt):
    S.ensure_registered()
    o = options(opt)
    out = []
    c = itertools.count()
    ta, tb = build(d1, c), build(d2, c)
    la, a = optree.tree_flatten(ta, **_kw(o))
    lb, b = optree.tree_flatten(tb, **_kw(o))
    pins = []
    sa, sb = snap_spec(a, pins), snap_spec(b, pins)
    xa, xb = snap_tree(ta), snap_tree(tb)
    ka, kb = list(la), list(lb)
    stats = {}
    for name, f in PAIR_OPS.items():
        exc = _call(f, a, b, ta, tb, la, lb, o)
        stats[name] = exc is None
        how = 'raised %s: %s' % (type(exc).__name__, str(exc)[:100]) if exc else 'ok'
        na, nb = snap_spec(a, pins), snap_spec(b, pins)
        label = '%s with first=%s second=%s %r [%s]' % (name, show(d1), show(d2), opt, how)
        if na != sa:
            out.append(('C14.operation_mutates_operand_treespec', '%s: FIRST treespec changed: (before, after) = %r' % (label, diff(sa, na))))
            sa = na
        if nb != sb:
            out.append(('C14.operation_mutates_operand_treespec', '%s: SECOND treespec changed: (before, after) = %r' % (label, diff(sb, nb))))
            sb = nb
        ya, yb = snap_tree(ta), snap_tree(tb)
        if ya != xa or yb != xb:
            out.append(('C14.operation_mutates_input_tree', '%s: trees before %r %r, after %r %r' % (label, xa, xb, ya, yb)))
            xa, xb = ya, yb
        if len(la) != len(ka) or len(lb) != len(kb) or any(x is not y for x, y in zip(la + lb, ka + kb)):
            out.append(('C14.operation_mutates_leaf_sequence', '%s: leaf lists changed' % label))
            la[:], lb[:] = ka, kb
    return out, 4 * len(PAIR_OPS), stats


LIST_GETTERS = {
    'paths': lambda s: s.paths(),
    'accessors': lambda s: s.accessors(),
    'entries': lambda s: s.entries(),
    'children': lambda s: s.children(),
    'treespec_paths': optree.treespec_paths,
    'treespec_accessors': optree.treespec_accessors,
    'treespec_entries': optree.treespec_entries,
    'treespec_children': optree.treespec_children,
}


def _scramble(lst):
    lst.reverse()
    lst.append('junk')
    if len(lst) > 1:
        lst[0] = ('junk',)
        del lst[1]
    lst.clear()


def case_fresh(descr, opt):
    S.ensure_registered()
    o = options(opt)
    out = []
    evals = 0
    tree = build(descr, itertools.count())
    leaves, spec = optree.tree_flatten(tree, **_kw(o))
    pins = []
    s0 = snap_spec(spec, pins)
    t0 = snap_tree(tree)
    label = 'treespec of %s %r' % (show(descr), opt)
    for name, g in LIST_GETTERS.items():
        r1 = g(spec)
        r2 = g(spec)
        evals += 3
        if type(r1) is not list:
            out.append(('C14.handed_out_list_is_fresh', '%s of %s returned %s, not a list' % (name, label, type(r1).__name__)))
            continue
        if r1 is r2:
            out.append(('C14.handed_out_list_is_fresh', '%s of %s returned the same list object twice' % (name, label)))
        v0 = fz(r2, pins) if 'children' not in name and 'accessors' not in name else tuple(map(repr, r2))
        _scramble(r1)
        r3 = g(spec)
        v3 = fz(r3, pins) if 'children' not in name and 'accessors' not in name else tuple(map(repr, r3))
        if v3 != v0:
            out.append(('C14.handed_out_list_is_fresh', 'after mutating the list returned by %s of %s the method returns %r instead of %r'
                        % (name, label, v3, v0)))
        s1 = snap_spec(spec, pins)
        if s1 != s0:
            out.append(('C14.handed_out_list_is_fresh', 'mutating the list returned by %s changed the %s: (before, after) = %r'
                        % (name, label, diff(s0, s1))))
            s0 = s1
    # entry(i) / child(i) / one_level hand out values, not views
    for i in range(spec.num_children):
        if repr(spec.child(i)) != s0['children'][i] or fz(spec.entry(i), pins) != s0['entries'][1 + i]:
            out.append(('C14.handed_out_list_is_fresh', 'child(%d)/entry(%d) of %s disagree with children()/entries()' % (i, i, label)))
    # dict-like nodes: the key list given out by entries() is what unflatten uses
    keep = list(leaves)
    _scramble(leaves)
    evals += 3
    s1 = snap_spec(spec, pins)
    if s1 != s0:
        out.append(('C14.handed_out_list_is_fresh', 'mutating the leaves list returned by tree_flatten changed the %s: %r'
                    % (label, diff(s0, s1))))
    if snap_tree(tree) != t0:
        out.append(('C14.handed_out_list_is_fresh', 'mutating the leaves list returned by tree_flatten changed the tree %s' % show(descr)))
    again, spec2 = optree.tree_flatten(tree, **_kw(o))
    if again is leaves or len(again) != len(keep) or any(x is not y for x, y in zip(again, keep)) or spec2 != spec:
        out.append(('C14.handed_out_list_is_fresh', 'tree_flatten(%s) after mutating its previous result: leaves %r, expected %r'
                    % (show(descr), again, keep)))
    return out, evals, {}


# ---- lifetime -----------------------------------------------------------------------------------
ACTIONS = ('mutate_source', 'mutate_returned', 'unregister', 'reregister', 'delete', 'gc')


def make_fresh_type():
    class Fresh:
        _c14_fresh = True

        def __init__(self, children, meta, tag='v1'):
            self.children = list(children)
            self.meta = meta
            self.tag = tag

    def flatten1(x):
        return x.children, x.meta, tuple('c%d' % i for i in range(len(x.children)))

    def unflatten1(meta, children):
        return Fresh(children, meta, 'v1')

    def flatten2(x):
        return list(reversed(x.children)), ('other', x.meta)

    def unflatten2(meta, children):
        return Fresh(children, meta, 'v2')
    return Fresh, (flatten1, unflatten1), (flatten2, unflatten2)


def mutate_containers(tree):
    """Mutate every mutable container of the tree in place (structure, order and keys all change)."""
    todo = []
    stack = [tree]
    while stack:                      # explicit stack: no recursive closure, hence no garbage cycle holding the tree
        t = stack.pop()
        if isinstance(t, dict):
            stack.extend(t.values())
            todo.append(t)
        elif isinstance(t, (list, tuple, deque)):
            stack.extend(t)
            if not isinstance(t, tuple):
                todo.append(t)
        elif isinstance(t, (S.CustomE, S.CustomN)) or getattr(type(t), '_c14_fresh', False):
            stack.extend(t.children)
            todo.append(t.children)
        elif isinstance(t, S.CustomF):
            stack.extend(t.children)
    del stack
    for t in todo:
        if isinstance(t, dict):
            keys = list(t)
            t['~new'] = 'junk'
            if keys:
                v = t.pop(keys[0])
                t[keys[0]] = v                 # moves the first key to the end
                if len(keys) > 1:
                    del t[keys[1]]
            if isinstance(t, defaultdict):
                t.default_factory = int
        elif isinstance(t, deque):
            t.appendleft('junk')
            t.rotate(1)
        else:
            t.append('junk')
            t.reverse()


def case_lifetime(descr, perm, opt):
    S.ensure_registered()
    nil, where = opt
    out = []
    evals = 0
    Fresh, v1, v2 = make_fresh_type()
    nsarg = GLOBAL if where == 'global' else C14_NS
    ns = '' if where == 'global' else C14_NS
    optree.register_pytree_node(Fresh, v1[0], v1[1], namespace=nsarg)
    registered = True
    h = {}
    try:
        def make():
            c = itertools.count()
            sub = build(descr, c, Fresh)
            return {'k': [Fresh([sub, WL(next(c))], ('m', 1)), WL(next(c))], 'j': (WL(next(c)), build(descr, c, Fresh))}
        h['tree'] = make()
        h['leaves'], spec = optree.tree_flatten(h['tree'], none_is_leaf=nil, namespace=ns)
        twin = optree.tree_structure(make(), none_is_leaf=nil, namespace=ns)
        refs = [weakref.ref(x) for x in h['leaves'] if isinstance(x, WL)]
        pins = []
        s0 = snap_spec(spec, pins, twin)
        deleted = False
        for act in perm:
            if act == 'mutate_source':
                if not deleted:
                    mutate_containers(h['tree'])
            elif act == 'mutate_returned':
                for g in (spec.paths, spec.accessors, spec.entries, spec.children):
                    _scramble(g())
                if not deleted:
                    _scramble(h['leaves'])
            elif act == 'unregister':
                if registered:
                    optree.unregister_pytree_node(Fresh, namespace=nsarg)
                    registered = False
            elif act == 'reregister':
                if registered:
                    optree.unregister_pytree_node(Fresh, namespace=nsarg)
                optree.register_pytree_node(Fresh, v2[0], v2[1], namespace=nsarg)
                registered = True
            elif act == 'delete':
                h.clear()
                deleted = True
            elif act == 'gc':
                gc.collect()
            evals += 1
            try:
                s1 = snap_spec(spec, pins, twin)
            except Exception as e:   # noqa: BLE001
                out.append(('C14.unexpected_exception', 'inspecting the treespec of a tree with %s %r after actions %r raised %s: %s'
                            % (show(descr), opt, perm[:perm.index(act) + 1], type(e).__name__, e)))
                break
            if s1 != s0:
                key = {'mutate_source': 'C14.treespec_independent_of_source_tree', 'delete': 'C14.treespec_independent_of_source_tree',
                       'mutate_returned': 'C14.handed_out_list_is_fresh', 'unregister': 'C14.treespec_independent_of_registry',
                       'reregister': 'C14.treespec_independent_of_registry', 'gc': 'C14.treespec_survives_gc'}[act]
                out.append((key, 'treespec of {k: [Fresh([%s, *]), *], j: (*, %s)} %r changed after action %r (actions so far %r): '
                            '(before, after) = %r' % (show(descr), show(descr), opt, act, perm[:perm.index(act) + 1], diff(s0, s1))))
                s0 = s1
            if deleted:
                evals += 1
                if any(r() is not None for r in refs):
                    gc.collect()          # garbage cycles of the *test* (none expected) must not be blamed on the treespec
                alive = [x for x in (r() for r in refs) if x is not None]
                if alive:
                    who = [type(x).__name__ for x in gc.get_referrers(alive[0])][:6]
                    out.append(('C14.treespec_holds_no_leaf_reference', 'leaves %r of a tree with %s %r are still alive after deleting tree '
                                'and leaves (treespec alive; actions %r); referrers: %r' % (alive, show(descr), opt, perm, who)))
                    refs = []
                del alive
    finally:
        h.clear()
        if registered:
            optree.unregister_pytree_node(Fresh, namespace=nsarg)
    return out, evals, {}


# ---- cycles -------------------------------------------------------------------------------------
CYCLE_KINDS = ('custom_metadata', 'custom_entries', 'dict_key', 'ordereddict_key', 'defaultdict_factory', 'namedtuple_type',
               'nested_metadata')


def case_cycle(kind, nil):
    class Holder:
        def __call__(self):
            return None
    out = []
    holder = Holder()
    Fresh, v1, _ = make_fresh_type()
    registered = False
    target = holder
    try:
        if kind in ('custom_metadata', 'custom_entries', 'nested_metadata'):
            if kind == 'custom_entries':
                def fl(x):
                    return x.children, 'm', tuple(holder for _ in x.children)
            else:
                fl = v1[0]
            optree.register_pytree_node(Fresh, fl, v1[1], namespace=C14_NS)
            registered = True
            tree = Fresh([WL(0)], holder)
            if kind == 'nested_metadata':
                tree = {'a': [tree, (None, WL(1))]}
            spec = optree.tree_structure(tree, none_is_leaf=nil, namespace=C14_NS)
        elif kind == 'dict_key':
            spec = optree.tree_structure({holder: WL(0), 'x': WL(1)}, none_is_leaf=nil)
        elif kind == 'ordereddict_key':
            spec = optree.tree_structure(OrderedDict([(holder, WL(0))]), none_is_leaf=nil)
        elif kind == 'defaultdict_factory':
            spec = optree.tree_structure(defaultdict(holder, {'a': WL(0)}), none_is_leaf=nil)
        elif kind == 'namedtuple_type':
            NT = collections.namedtuple('NT', ['x'])
            spec = optree.tree_structure([NT(WL(0))], none_is_leaf=nil)
            target = NT
        else:
            raise AssertionError(kind)
        target.spec = spec            # closes the cycle: treespec -> metadata -> treespec
        ref = weakref.ref(target)
        if registered:
            optree.unregister_pytree_node(Fresh, namespace=C14_NS)
            registered = False
        del holder, target, spec, Holder
        tree = NT = fl = None
        gc.collect()
        gc.collect()
        if ref() is not None:
            out.append(('C14.metadata_cycle_is_collected', 'cycle treespec -> %s -> treespec (none_is_leaf=%s) is not reclaimed by '
                        'gc.collect(); referrers of the object: %r' % (kind, nil, [type(x).__name__ for x in gc.get_referrers(ref())][:6])))
    finally:
        if registered:
            optree.unregister_pytree_node(Fresh, namespace=C14_NS)
    return out, 1, {}


def run_case(case):
    part = case[0]
    if part == 'unary':
        return case_unary(case[1], case[2])
    if part == 'pair':
        return case_pair(case[1], case[2], case[3])
    if part == 'fresh':
        return case_fresh(case[1], case[2])
    if part == 'lifetime':
        return case_lifetime(case[1], case[2], case[3])
    if part == 'cycle':
        return case_cycle(case[1], case[2])
    raise AssertionError(part)
# <<< core


def _core_source() -> str:
    src = open(__file__).read()
    return src[src.index('\n# >>> core\n') + 1:src.index('\n# <<< core\n') + 1]


def _script(case, key) -> str:
    return (_core_source() + '\n\n'
            f'CASE = {case!r}\nKEY = {key!r}\n'
            'try:\n'
            '    found, _, _ = run_case(CASE)\n'
            'except Exception:\n'
            '    import traceback\n'
            '    traceback.print_exc()\n'
            '    sys.exit(2)   # the replay itself is broken - not a reproduction\n'
            'for k, d in found:\n'
            '    print(k, d[:600])\n'
            'sys.exit(1 if any(k == KEY for k, _ in found) else 0)\n')


def _tuplify(d):
    return (d[0],) if len(d) == 1 else (d[0], tuple(_tuplify(c) for c in d[1]))


def _nontrivial_tree(d) -> bool:
    """A tree is non-trivial iff it has an internal node with at least one child."""
    return len(d) > 1


def _run(ctx: U.Ctx, tier: str, seed: int) -> BoundedReport:
    rng = random.Random(seed)
    quick = tier == 'quick'
    S.ensure_registered()
    op_ok: dict = {}
    n_cases = {'unary': 0, 'pair': 0, 'fresh': 0, 'lifetime': 0, 'cycle': 0}

    def one(case, nontrivial):
        n_cases[case[0]] += 1
        ctx.progress(repr(case)[:600])
        try:
            found, evals, stats = run_case(case)
        except Exception as e:   # noqa: BLE001 - the monitor's own set-up calls failed: report, never hide
            ctx.fail('C14.unexpected_exception', f'case {case!r} raised {type(e).__name__}: {e}', lambda: _script(case, 'C14.unexpected_exception'),
                     {'case': repr(case)})
            return
        ctx.count(evals)
        for k, v in stats.items():
            op_ok[k] = op_ok.get(k, 0) + (1 if v else 0)
        if nontrivial:
            ctx.mark_nontrivial(case)
        for key, detail in found:
            ctx.fail(key, detail, lambda: _script(case, key), {'case': repr(case)})

    gen = S.TreeGen(seed=seed)
    descs3 = [_tuplify(d) for d in gen.descriptions(3)]
    opts_all = [(nil, ns, pred) for nil in (False, True) for ns in ('', S.NS, S.NS_OTHER) for pred in PREDICATES]
    opts_few = [(False, '', 'none'), (True, S.NS, 'none'), (False, S.NS, 'dict_is_leaf')]
    parts = []
    complete = True

    # ---- unary ----
    if quick:
        cases = [('unary', d, o) for d in descs3 for o in opts_few]
        rng.shuffle(cases)
        small = [c for c in cases if S.count_nodes(c[1]) <= 2]
        big = [c for c in cases if S.count_nodes(c[1]) > 2][:900]
        cases = small + big
        parts.append(f'unary: {len(cases)} (tree<=3 nodes of all {len(S.KINDS)} kinds, options) cases - all trees<=2 nodes x 3 option '
                     f'sets, seeded sample of the 3-node trees - x {len(TREE_OPS)} tree operations + {len(SPEC_OPS)} treespec operations')
    else:
        descs4 = [_tuplify(d) for _, d in S.TreeGen(seed=seed).trees(4, limit=6000)]
        cases = [('unary', d, o) for d in descs3 for o in opts_all]
        cases += [('unary', d, rng.choice(opts_all)) for d in descs4 if S.count_nodes(d) == 4]
        parts.append(f'unary: {len(cases)} cases = all trees<=3 nodes x {len(opts_all)} option sets + sampled 4-node trees, x '
                     f'{len(TREE_OPS)} tree operations + {len(SPEC_OPS)} treespec operations')
    for i, c in enumerate(cases):
        one(c, _nontrivial_tree(c[1]))
        if i % 50 == 0 and ctx.time_left() < (ctx.deadline - ctx.t0) * 0.72:
            complete = False
            ctx.notes.append(f'unary part stopped after {i} of {len(cases)} cases (time share)')
            break

    # ---- pairs ----
    pool = [d for d in descs3 if S.count_nodes(d) <= 2 or (len(d) > 1 and len(d[1]) == 2)]
    popts = [(False, ''), (True, S.NS)] if quick else [(False, ''), (True, S.NS), (True, ''), (False, S.NS)]
    pairs = [(a, b) for a in pool for b in pool]
    rng.shuffle(pairs)
    # pairs of one-level dict-like nodes of the same arity are where key comparison happens: take all of them first
    def dictlike(d):
        return len(d) > 1 and S.KIND_BY_NAME[d[0]].dictlike
    first = [p for p in pairs if dictlike(p[0]) and dictlike(p[1]) and len(p[0][1]) == len(p[1][1])
             and all(len(c) == 1 and c[0] == 'leaf' for c in p[0][1] + p[1][1])]
    fset = set(first)
    rest = [p for p in pairs if p not in fset]
    share = 0.45 if quick else 0.4
    k = 0
    for a, b in first + rest:
        for nil, ns in popts:
            one(('pair', a, b, (nil, ns, 'none')), _nontrivial_tree(a) and _nontrivial_tree(b))
        k += 1
        if k % 20 == 0 and ctx.time_left() < (ctx.deadline - ctx.t0) * share:
            break
    parts.append(f'pair: {k} of {len(pairs)} ordered pairs of trees (<=2 nodes, or one node with two children; all '
                 f'{len(first)} pairs of equal-arity dict-like nodes first, then a seeded order) x {len(popts)} option sets x '
                 f'{len(PAIR_OPS)} binary operations (most of them failing)')

    # ---- fresh ----
    fcases = [('fresh', d, o) for d in descs3 for o in opts_few[:2]]
    if quick:
        rng.shuffle(fcases)
        fcases = fcases[:1200]
    for i, c in enumerate(fcases):
        one(c, _nontrivial_tree(c[1]))
        if i % 50 == 0 and ctx.time_left() < (ctx.deadline - ctx.t0) * (0.33 if quick else 0.3):
            break
    parts.append(f'fresh: {n_cases["fresh"]} (tree, options) cases x {len(LIST_GETTERS)} list-returning inspection methods + '
                 f'the leaves list of tree_flatten')

    # ---- cycles (cheap, always complete) ----
    for kind in CYCLE_KINDS:
        for nil in (False, True):
            one(('cycle', kind, nil), True)
    parts.append(f'cycle: {len(CYCLE_KINDS)} kinds of cycle through metadata x none_is_leaf')

    # ---- lifetime ----
    perms = list(itertools.permutations(ACTIONS))
    sub_pool = [d for d in descs3 if S.count_nodes(d) <= 2] + [('fresh', (('leaf',), ('none',)))]
    lopts = [(False, 'named'), (True, 'global')]
    lcases = []
    for d in sub_pool:
        ps = perms if not quick else rng.sample(perms, 12)
        for p in ps:
            lcases.append(('lifetime', d, p, lopts[len(lcases) % 2]))
    if not quick:
        rng.shuffle(lcases)
    for i, c in enumerate(lcases):
        one(c, True)
        if i % 20 == 0 and ctx.time_left() < 3:
            complete = False
            break
    parts.append(f'lifetime: {n_cases["lifetime"]} of {len(lcases)} cases = {len(sub_pool)} subtrees embedded in '
                 f'{{k: [Fresh([sub, *]), *], j: (*, sub)}} with a freshly registered custom type x '
                 f'{"all 720" if not quick else "12 sampled"} orders of {ACTIONS}')

    never = sorted(k for k, v in op_ok.items() if v == 0)
    if never:
        ctx.notes.append('operations that never succeeded on any input (only their failing path was exercised): ' + ', '.join(never))
    ctx.notes.append('exceptions raised by the operations under test are not judged here (C15); not checked: mutation of user metadata '
                     'objects, __getstate__ aliasing, PyTreeIter cycles, cycles through registered flatten/unflatten functions')
    for c in [('pair', ('dict_mixed', (('leaf',), ('leaf',))), ('odict', (('leaf',), ('leaf',))), (False, '', 'none')),
              ('lifetime', ('list', (('leaf',),)), ACTIONS, (False, 'named')),
              ('cycle', 'custom_metadata', False), ('unary', ('customE', (('none',), ('leaf',))), (True, S.NS, 'none'))]:
        ctx.sample(repr(c))
    return ctx.report(
        rule='a case is non-trivial iff its tree(s) have an internal node with children (lifetime / cycle cases always are); one '
             'evaluation = one before/after snapshot comparison of a tree, a leaf sequence, an argument collection or a treespec '
             'around one operation, or one re-observation of the treespec after one lifetime action',
        scope='; '.join(parts),
        exhaustive=False)


def run(tier: str, seed: int) -> BoundedReport:
    budget = 50 if tier == 'quick' else 660
    return U.run_isolated('c14_immutable', 'C14', tier, seed, budget_s=budget, hard_timeout_s=budget * 2 + 60)
