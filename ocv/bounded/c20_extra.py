"""C20 bounded monitor, part 2: leaves whose memory layout is not C-contiguous (transposes, Fortran-ordered arrays,
negative strides, broadcast views, non-contiguous slices) and wrong-dtype inputs to a mixed-dtype unravel function that are
NARROWER than the promoted dtype.  Clauses: the flat array is the concatenation of the leaves raveled in C (row-major)
order; unravel(ravel(t)) == t element-wise with shapes and dtypes; the mixed-dtype unravel rejects every other dtype (narrower or
wider) with ValueError.  numpy always; torch and jax when importable.  Exhaustive over the listed grid."""
from ocv.bounded._extra import run_core

CORE = r'''
import itertools
import numpy as np
import optree
from optree.integration import numpy as onp
try:
    import torch
    from optree.integration import torch as otorch
except Exception:
    torch = None
try:
    import jax, jax.numpy as jnp
    from optree.integration import jax as ojax
except Exception:
    jax = None

def layouts(a):
    return {'c': a, 'T': a.T, 'fortran': np.asfortranarray(a), 'rev': a[::-1], 'step': a[..., ::2] if a.shape[-1] > 1 else a,
            'bcast': np.broadcast_to(a[:1], a.shape), 'swap': np.swapaxes(a, 0, -1)}

BACKENDS = ['numpy'] + (['torch'] if torch is not None else []) + (['jax'] if jax is not None else [])

def cases(tier):
    for be in BACKENDS:
        for lay in ('c', 'T', 'fortran', 'rev', 'step', 'bcast', 'swap'):
            for shape in ((2, 3), (3, 2, 2), (4,), (1, 5)):
                for mixed in (False, True):
                    yield ('layout', be, lay, shape, mixed)
        for tree_dt in (('float64', 'float32'), ('int64', 'int32'), ('float32', 'int16'), ('complex128', 'float64')):
            for given in ('bool', 'int8', 'int16', 'int32', 'int64', 'float16', 'float32', 'float64', 'complex64', 'complex128'):
                yield ('dtype', be, tree_dt, given)

def as_np(x):
    return np.asarray(x.detach().numpy() if torch is not None and isinstance(x, torch.Tensor) else x)

def mod(be):
    return {'numpy': onp, 'torch': otorch if torch is not None else None, 'jax': ojax if jax is not None else None}[be]

def check(spec):
    bad = []
    if spec[0] == 'layout':
        _, be, lay, shape, mixed = spec
        base = np.arange(int(np.prod(shape)), dtype=np.float64).reshape(shape) + 1
        leaf = layouts(base)[lay]
        other = np.arange(3, dtype=(np.float32 if mixed else np.float64)) + 100
        if be == 'numpy':
            tree = {'b': leaf, 'a': [other, np.float64(7.0)]}
        elif be == 'torch':
            # torch keeps strides for transposes / flips are not supported: build the same logical layouts with torch ops
            tb = torch.as_tensor(base)
            tl = {'c': tb, 'T': tb.T if tb.dim() == 2 else tb.permute(*reversed(range(tb.dim()))), 'fortran': tb.T.contiguous().T if tb.dim() == 2 else tb,
                  'rev': torch.flip(tb, [0]), 'step': tb[..., ::2] if tb.shape[-1] > 1 else tb, 'bcast': tb[:1].expand(tb.shape),
                  'swap': tb.transpose(0, -1)}[lay]
            leaf = tl.numpy() if lay != 'T' or tb.dim() == 2 else np.transpose(base)
            tree = {'b': tl, 'a': [torch.as_tensor(other), torch.tensor(7.0, dtype=torch.float64)]}
        else:
            tree = {'b': jnp.asarray(leaf), 'a': [jnp.asarray(other), jnp.asarray(7.0)]}
        m = mod(be)
        flat, unravel = m.tree_ravel(tree)
        leaves = optree.tree_leaves(tree)
        want = np.concatenate([np.ravel(as_np(x), order='C').astype(as_np(flat).dtype) for x in leaves])
        if as_np(flat).shape != want.shape or not np.array_equal(as_np(flat), want):
            bad.append(('C20.flat_is_concatenation_of_leaves_in_row_major_order', f'{be}: leaf layout {lay} shape {shape}: flat = {as_np(flat).tolist()!r}, expected {want.tolist()!r}'))
        back = unravel(flat)
        for x, y in zip(leaves, optree.tree_leaves(back)):
            if as_np(x).shape != as_np(y).shape or not np.array_equal(as_np(x), as_np(y)) or str(as_np(x).dtype) != str(as_np(y).dtype):
                bad.append(('C20.unravel_of_ravel_is_identity', f'{be}: leaf layout {lay} shape {shape} mixed={mixed}: leaf {as_np(x).tolist()!r} ({as_np(x).dtype}) came back as {as_np(y).tolist()!r} ({as_np(y).dtype})'))
                break
        return bad
    _, be, tree_dt, given = spec
    if be == 'jax' and ('64' in ''.join(tree_dt) or '64' in given or '128' in given):
        return bad          # jax without x64 silently narrows: outside the property's dtype clause
    mk = {'numpy': lambda dt, n: np.arange(n).astype(dt),
          'torch': (lambda dt, n: torch.arange(n).to(getattr(torch, dt))) if torch is not None else None,
          'jax': (lambda dt, n: jnp.arange(n).astype(dt)) if jax is not None else None}[be]
    tree = [mk(tree_dt[0], 2), {'k': mk(tree_dt[1], 3)}]
    m = mod(be)
    flat, unravel = m.tree_ravel(tree)
    promoted = str(as_np(flat).dtype)
    wrong = mk(given, 5)
    accepted = True
    try:
        unravel(wrong)
    except ValueError:
        accepted = False
    except TypeError:
        accepted = False
    if accepted and given != promoted:
        bad.append(('C20.mixed_dtype_unravel_rejects_wrong_dtype', f'{be}: tree dtypes {tree_dt} (promoted {promoted}): unravel accepted an array of dtype {given}'))
    if not accepted and given == promoted:
        bad.append(('C20.unravel_accepts_the_right_dtype', f'{be}: tree dtypes {tree_dt}: unravel rejected an array of the promoted dtype {promoted}'))
    return bad
'''


def run(tier, seed):
    return run_core('c20_extra', CORE, tier,
                    scope='back ends present x 7 memory layouts x 4 shapes x single / mixed dtype; 4 mixed-dtype trees x 10 given dtypes',
                    rule='one evaluation = one tree raveled and unraveled, or one wrong-dtype array handed to a mixed-dtype unravel function')
