"""C08 — treespec inspection, constructors, transform and compose are consistent (bounded monitor).

Every expected value is computed from the Python tree by the reference model (`_util_b.absify`): the root
node's type, arity, entries, children, the leaf / node counts.  The treespec under test is the one returned by
`tree_structure(tree, **options)` and, recursively, every spec returned by `children()`.

Clauses (finding keys)
  C08.counts                 num_leaves, num_nodes, num_children, len()
  C08.root_description       kind, type, is_leaf(strict), is_one_level, none_is_leaf, namespace
  C08.python_twin_agrees     optree.treespec_* functions give the same answers as the methods
  C08.entries                entries() and entry(i), i in [-n-1, n]; IndexError exactly outside [-n, n)
  C08.children               children() / child(i), i in [-n-1, n], describe the child trees (state view), inherit
                             none_is_leaf / namespace, and their counts sum up to the parent's
  C08.one_level              one_level() is None for a leaf, else the same root over leaves
  C08.rebuild_transform      one_level().transform(f_leaf -> i-th child) == spec, same paths / entries
  C08.rebuild_constructor    treespec_from_collection / treespec_tuple / list / dict / ordereddict / defaultdict / deque /
                             namedtuple / structseq over the collection of child specs == spec, same paths / entries
  C08.transform_identity     transform(), transform(id, id), transform(f_node = rebuild one level) == spec
  C08.compose                a.compose(b) == structure of the a-shaped tree of b-shaped trees; counts multiply;
                             paths concatenate
  C08.transform_leaf_is_compose   a.transform(f_leaf = lambda _: b) == a.compose(b)
  C08.repr                   documented notation; stable; equal specs print equally
  C08.unexpected_exception
"""
from __future__ import annotations

import random

import optree

from ocv.bounded import _util_b as U
from ocv.bounded import scope as S
from ocv.result import BoundedReport

LEAF = ('leaf',)
KIND_ENUM = {k: optree.PyTreeKind(v) for k, v in U.KIND_INT.items()}


class Ctx:
    """Where a spec under test came from (for messages and scripts)."""
    __slots__ = ('d', 'o', 'path')

    def __init__(self, d, o, path=()):
        self.d, self.o, self.path = d, o, path

    def head(self):
        sub = ''.join(f'.child({i})' for i in self.path)
        return f't = {U.src(self.d)}\no = {U.opt_src(self.o)}\ns = optree.tree_structure(t, **o){sub}\n'

    def label(self):
        sub = ''.join(f'.child({i})' for i in self.path)
        return f'tree_structure({U.show(self.d)} [{S.opt_repr(self.o)}]){sub}'


def expect(bag, key, ctx, expr, got, want, eq=None):
    """Record a finding when got != want; the script re-evaluates `expr` on the same spec."""
    bag.ev()
    ok = (got == want) if eq is None else eq(got, want)
    if not ok:
        bag.add(key, f'{ctx.label()}: {expr} is {got!r}, expected {want!r}',
                lambda: ctx.head() + f'got = {expr}\nprint(got)\nsys.exit(1 if got != {U.lit(want)} else 0)\n')
    return ok


def idx_outcome(fn, i):
    try:
        return ('ok', fn(i))
    except IndexError:
        return ('IndexError', None)
    except Exception as e:   # noqa: BLE001
        return (type(e).__name__, None)


IDX_SRC = '''\
def outcome(fn, i):
    try:
        return ('ok', fn(i))
    except IndexError:
        return ('IndexError', None)
    except Exception as e:
        return (type(e).__name__, None)
'''


def same_paths(a, b):
    return a.paths() == b.paths() and a.entries() == b.entries() and a.accessors() == b.accessors()


CTOR = {
    'tuple': ('optree.treespec_tuple(coll, none_is_leaf=nil, namespace=ns)', lambda c, nil, ns: optree.treespec_tuple(c, none_is_leaf=nil, namespace=ns)),
    'list': ('optree.treespec_list(coll, none_is_leaf=nil, namespace=ns)', lambda c, nil, ns: optree.treespec_list(c, none_is_leaf=nil, namespace=ns)),
    'dict': ('optree.treespec_dict(coll, none_is_leaf=nil, namespace=ns)', lambda c, nil, ns: optree.treespec_dict(c, none_is_leaf=nil, namespace=ns)),
    'odict': ('optree.treespec_ordereddict(coll, none_is_leaf=nil, namespace=ns)',
              lambda c, nil, ns: optree.treespec_ordereddict(c, none_is_leaf=nil, namespace=ns)),
    'ddict': ('optree.treespec_defaultdict(coll.default_factory, coll, none_is_leaf=nil, namespace=ns)',
              lambda c, nil, ns: optree.treespec_defaultdict(c.default_factory, c, none_is_leaf=nil, namespace=ns)),
    'deque': ('optree.treespec_deque(coll, maxlen=coll.maxlen, none_is_leaf=nil, namespace=ns)',
              lambda c, nil, ns: optree.treespec_deque(c, maxlen=c.maxlen, none_is_leaf=nil, namespace=ns)),
    'namedtuple': ('optree.treespec_namedtuple(coll, none_is_leaf=nil, namespace=ns)',
                   lambda c, nil, ns: optree.treespec_namedtuple(c, none_is_leaf=nil, namespace=ns)),
    'structseq': ('optree.treespec_structseq(coll, none_is_leaf=nil, namespace=ns)',
                  lambda c, nil, ns: optree.treespec_structseq(c, none_is_leaf=nil, namespace=ns)),
    'none': ('optree.treespec_none(none_is_leaf=nil, namespace=ns)', lambda c, nil, ns: optree.treespec_none(none_is_leaf=nil, namespace=ns)),
    'leaf': ('optree.treespec_leaf(none_is_leaf=nil, namespace=ns)', lambda c, nil, ns: optree.treespec_leaf(none_is_leaf=nil, namespace=ns)),
}
GENERIC = ('optree.treespec_from_collection(coll, none_is_leaf=nil, namespace=ns)',
           lambda c, nil, ns: optree.treespec_from_collection(c, none_is_leaf=nil, namespace=ns))


def check_spec(s, n, ctx, bag, depth=0):
    o = ctx.o
    A = len(n.children)
    NL, NN = U.a_num_leaves(n), U.a_num_nodes(n)
    is_leaf = n.kind == 'leaf'
    try:
        expect(bag, 'C08.counts', ctx, '(s.num_leaves, s.num_nodes, s.num_children, len(s))',
               (s.num_leaves, s.num_nodes, s.num_children, len(s)), (NL, NN, A, NL))
        expect(bag, 'C08.root_description', ctx, 'int(s.kind)', int(s.kind), U.KIND_INT[n.kind])
        expect(bag, 'C08.root_description', ctx, 's.kind == optree.PyTreeKind(int(s.kind))', s.kind == KIND_ENUM[n.kind], True)
        expect(bag, 'C08.root_description', ctx, 's.type', s.type, n.typ, eq=lambda a, b: a is b)
        expect(bag, 'C08.root_description', ctx, '(s.is_leaf(), s.is_leaf(strict=True), s.is_leaf(strict=False), s.is_one_level())',
               (s.is_leaf(), s.is_leaf(strict=True), s.is_leaf(strict=False), s.is_one_level()),
               (is_leaf, is_leaf, A == 0, (not is_leaf) and all(c.kind == 'leaf' for c in n.children)))
        expect(bag, 'C08.root_description', ctx, 's.none_is_leaf', s.none_is_leaf, o['none_is_leaf'])
        expect(bag, 'C08.root_description', ctx, "s.namespace in ('', o['namespace'])", s.namespace in ('', o['namespace']), True)
        expect(bag, 'C08.python_twin_agrees', ctx,
               '(optree.treespec_is_leaf(s), optree.treespec_is_leaf(s, strict=False), optree.treespec_is_strict_leaf(s), optree.treespec_is_one_level(s))'
               ' == (s.is_leaf(), s.is_leaf(strict=False), s.is_leaf(strict=True), s.is_one_level())',
               (optree.treespec_is_leaf(s), optree.treespec_is_leaf(s, strict=False), optree.treespec_is_strict_leaf(s), optree.treespec_is_one_level(s))
               == (s.is_leaf(), s.is_leaf(strict=False), s.is_leaf(strict=True), s.is_one_level()), True)

        # entries / entry(i)
        ents = s.entries()
        expect(bag, 'C08.entries', ctx, 's.entries()', ents, list(n.entries), eq=lambda a, b: type(a) is list and a == b)
        expect(bag, 'C08.python_twin_agrees', ctx, 'optree.treespec_entries(s) == s.entries()', optree.treespec_entries(s) == ents, True)
        want = [('ok', n.entries[i]) if -A <= i < A else ('IndexError', None) for i in range(-A - 1, A + 1)]
        got = [idx_outcome(s.entry, i) for i in range(-A - 1, A + 1)]
        bag.ev()
        if got != want:
            bag.add('C08.entries', f'{ctx.label()}: entry(i) for i in [{-A - 1}, {A}] gives {got!r}, expected {want!r}',
                    lambda: ctx.head() + IDX_SRC + f'got = [outcome(s.entry, i) for i in range({-A - 1}, {A + 1})]\nprint(got)\n'
                    f'sys.exit(1 if got != {U.lit(want)} else 0)\n')
        got2 = [idx_outcome(lambda i: optree.treespec_entry(s, i), i) for i in range(-A - 1, A + 1)]
        expect(bag, 'C08.python_twin_agrees', ctx, 'treespec_entry(s, i) like s.entry(i) for all i', got2 == got, True)

        # children / child(i)
        ch = s.children()
        bag.ev()
        ok = type(ch) is list and len(ch) == A
        detail = ''
        if ok:
            for i, (c, cn) in enumerate(zip(ch, n.children)):
                try:
                    ca, cnil, cns = U.abs_from_state(c)
                    if not U.a_same(ca, cn):
                        ok, detail = False, f'child {i} is {c!r}, the tree there is {cn!r}'
                    elif cnil != s.none_is_leaf or cns != s.namespace:
                        ok, detail = False, f'child {i} has none_is_leaf={cnil}, namespace={cns!r}; parent {s.none_is_leaf}, {s.namespace!r}'
                except U.Malformed as e:
                    ok, detail = False, f'child {i}: {e}'
                if not ok:
                    break
        if ok and not is_leaf:
            if sum(c.num_leaves for c in ch) != s.num_leaves or sum(c.num_nodes for c in ch) + 1 != s.num_nodes:
                ok, detail = False, 'children counts do not sum up to the parent counts'
        if not ok:
            bag.add('C08.children', f'{ctx.label()}: children() = {ch!r}: {detail or "wrong number of children"}; expected children {n.children!r}',
                    lambda: ctx.head() + 'n = U.absify(t, **o)\n' + ''.join(f'n = n.children[{i}]\n' for i in ctx.path) +
                    'ch = s.children()\nprint(ch)\nbad = len(ch) != len(n.children)\n'
                    'for c, cn in zip(ch, n.children):\n    ca, nil, ns = U.abs_from_state(c)\n'
                    '    bad |= not U.a_same(ca, cn) or nil != s.none_is_leaf or ns != s.namespace\n'
                    'if n.kind != "leaf":\n    bad |= sum(c.num_leaves for c in ch) != s.num_leaves or sum(c.num_nodes for c in ch) + 1 != s.num_nodes\n'
                    'sys.exit(1 if bad else 0)\n')
        expect(bag, 'C08.python_twin_agrees', ctx, 'optree.treespec_children(s) == s.children()', optree.treespec_children(s) == ch, True)
        got = [idx_outcome(s.child, i) for i in range(-A - 1, A + 1)]
        bag.ev()
        bad_i = None
        for i, g in zip(range(-A - 1, A + 1), got):
            if -A <= i < A:
                good = g[0] == 'ok' and g[1] == ch[i] and g[1].__getstate__() == ch[i].__getstate__()
            else:
                good = g[0] == 'IndexError'
            if not good:
                bad_i = i
                break
        if bad_i is not None:
            bag.add('C08.children', f'{ctx.label()}: child({bad_i}) gives {got[bad_i + A + 1]!r}; expected '
                                    f'{"children()[" + str(bad_i) + "]" if -A <= bad_i < A else "IndexError"} (children: {ch!r})',
                    lambda: ctx.head() + IDX_SRC + f'i = {bad_i}\ng = outcome(s.child, i)\nprint(g)\n' +
                    (f'sys.exit(1 if not (g[0] == "ok" and g[1] == s.children()[i] and g[1].__getstate__() == s.children()[i].__getstate__()) else 0)\n'
                     if -A <= bad_i < A else 'sys.exit(1 if g[0] != "IndexError" else 0)\n'))
        got2 = [idx_outcome(lambda i: optree.treespec_child(s, i), i) for i in range(-A - 1, A + 1)]
        expect(bag, 'C08.python_twin_agrees', ctx, 'treespec_child(s, i) like s.child(i) for all i',
               [(g[0], g[1]) for g in got2] == [(g[0], g[1]) for g in got], True)

        # one_level
        one = s.one_level()
        bag.ev()
        if is_leaf:
            if one is not None:
                bag.add('C08.one_level', f'{ctx.label()}: one_level() of a leaf is {one!r}, expected None',
                        ctx.head() + 'sys.exit(1 if s.one_level() is not None else 0)\n')
        else:
            flat = U.N(n.kind, n.typ, n.meta, n.keys, n.entries, [U.N('leaf') for _ in n.children])
            good = one is not None
            if good:
                try:
                    oa, onil, ons = U.abs_from_state(one)
                    good = U.a_same(oa, flat) and onil == s.none_is_leaf and ons == s.namespace and one.is_one_level() \
                        and (one.num_children, one.num_leaves, one.num_nodes) == (A, A, A + 1) and one.type is s.type and one.kind == s.kind \
                        and one.entries() == ents
                except U.Malformed:
                    good = False
            if not good:
                bag.add('C08.one_level', f'{ctx.label()}: one_level() is {one!r}, expected the root node {flat!r} over {A} leaves with the same flags',
                        lambda: ctx.head() + 'one = s.one_level()\nprint(one)\n'
                        f'sys.exit(1 if one is None or not (one.is_one_level() and (one.num_children, one.num_leaves, one.num_nodes) == ({A}, {A}, {A + 1}) '
                        'and one.type is s.type and one.kind == s.kind and one.entries() == s.entries() and one.none_is_leaf == s.none_is_leaf '
                        'and one.namespace == s.namespace and all(c.is_leaf() for c in one.children())) else 0)\n')
            expect(bag, 'C08.python_twin_agrees', ctx, 'optree.treespec_one_level(s) == s.one_level()', optree.treespec_one_level(s) == one, True)

        # rebuild
        nil, ns = s.none_is_leaf, o['namespace']
        if not is_leaf and one is not None and len(ch) == A:
            it = iter(ch)
            bag.ev()
            st, r = U.guard(one.transform, None, lambda _x: next(it))
            if st == 'exc' or not (r == s and s == r and same_paths(r, s)):
                bag.add('C08.rebuild_transform', f'{ctx.label()}: one_level().transform(None, leaf -> i-th child) gives '
                                                 f'{U.exc_name(r) if st == "exc" else repr(r)}, expected {s!r} with paths {s.paths()!r}',
                        lambda: ctx.head() + 'it = iter(s.children())\nr = s.one_level().transform(None, lambda _: next(it))\nprint(r, r.paths())\n'
                        'sys.exit(1 if not (r == s and s == r and r.paths() == s.paths() and r.entries() == s.entries() and r.accessors() == s.accessors()) else 0)\n')
            st, coll = U.guard(one.unflatten, ch)
            if st == 'exc':
                bag.add('C08.unexpected_exception', f'{ctx.label()}: one_level().unflatten(children()) raised {U.exc_name(coll)}',
                        ctx.head() + 's.one_level().unflatten(s.children())\nsys.exit(0)\n')
            else:
                ctors = [GENERIC] + ([CTOR[n.kind]] if n.kind in CTOR else [])
                for text, fn in ctors:
                    bag.ev()
                    st, r = U.guard(fn, coll, nil, ns)
                    if st == 'exc' or not (r == s and s == r and same_paths(r, s)):
                        bag.add('C08.rebuild_constructor', f'{ctx.label()}: {text.split("(")[0]} over the collection of child specs {coll!r} gives '
                                                           f'{U.exc_name(r) if st == "exc" else repr(r) + " paths " + repr(r.paths())}, expected {s!r} with paths {s.paths()!r}',
                                lambda text=text: ctx.head() + f'coll = s.one_level().unflatten(s.children())\nnil, ns = s.none_is_leaf, o["namespace"]\nr = {text}\n'
                                'print(r, r.paths())\n'
                                'sys.exit(1 if not (r == s and s == r and r.paths() == s.paths() and r.entries() == s.entries() and r.accessors() == s.accessors()) else 0)\n')
        elif depth == 0 and n.kind in ('leaf', 'none'):
            text, fn = CTOR[n.kind]
            bag.ev()
            st, r = U.guard(fn, None, nil, ns)
            if st == 'exc' or not (r == s and same_paths(r, s)):
                bag.add('C08.rebuild_constructor', f'{ctx.label()}: {text} gives {r!r}, expected {s!r}',
                        lambda: ctx.head() + f'nil, ns = s.none_is_leaf, o["namespace"]\nr = {text}\nsys.exit(1 if not (r == s and r.paths() == s.paths()) else 0)\n')

        # transform identities
        for text, fn in (('s.transform()', lambda: s.transform()),
                         ('s.transform(lambda x: x, lambda x: x)', lambda: s.transform(lambda x: x, lambda x: x)),
                         ('optree.treespec_transform(s, lambda x: optree.treespec_from_collection(x.unflatten(x.children()), none_is_leaf=x.none_is_leaf, '
                          'namespace=o["namespace"]))',
                          lambda: optree.treespec_transform(s, lambda x: optree.treespec_from_collection(
                              x.unflatten(x.children()), none_is_leaf=x.none_is_leaf, namespace=o['namespace'])))):
            bag.ev()
            st, r = U.guard(fn)
            if st == 'exc' or not (r == s and s == r and same_paths(r, s) and (r.num_leaves, r.num_nodes) == (NL, NN)):
                bag.add('C08.transform_identity', f'{ctx.label()}: {text} gives {U.exc_name(r) if st == "exc" else repr(r)}, expected {s!r}',
                        lambda text=text: ctx.head() + f'r = {text}\nprint(r)\n'
                        'sys.exit(1 if not (r == s and s == r and r.paths() == s.paths() and r.entries() == s.entries() and r.accessors() == s.accessors()) else 0)\n')

        # repr
        bag.ev()
        r1, r2 = repr(s), repr(s)
        want = U.ref_repr(n, s.none_is_leaf, s.namespace)
        if r1 != r2 or str(s) != r1:
            bag.add('C08.repr', f'{ctx.label()}: repr is not stable: {r1!r} / {r2!r} / str {str(s)!r}', ctx.head() + 'sys.exit(1 if repr(s) != repr(s) or str(s) != repr(s) else 0)\n')
        elif want is not None and r1 != want:
            bag.add('C08.repr', f'{ctx.label()}: repr is {r1!r}, documented notation gives {want!r}',
                    lambda: ctx.head() + f'print(repr(s))\nsys.exit(1 if repr(s) != {want!r} else 0)\n')
        elif r1.count('*') != NL:
            bag.add('C08.repr', f'{ctx.label()}: repr {r1!r} shows {r1.count("*")} leaves, the tree has {NL}',
                    lambda: ctx.head() + f'sys.exit(1 if repr(s).count("*") != {NL} else 0)\n')
    except Exception as e:   # noqa: BLE001 - no inspection method may raise here
        import traceback
        tb = traceback.format_exc().strip().splitlines()
        bag.add('C08.unexpected_exception', f'{ctx.label()}: {U.exc_name(e)} at {tb[-3].strip() if len(tb) >= 3 else ""}',
                ctx.head() + 's.num_leaves; s.kind; s.type; s.entries(); s.children(); s.one_level(); s.transform(); repr(s)\n'
                '[s.child(i) for i in range(s.num_children)]; [s.entry(i) for i in range(s.num_children)]\nsys.exit(0)\n')
        return
    if depth < 3 and not is_leaf and len(ch) == A:
        for i, (c, cn) in enumerate(zip(ch, n.children)):
            if cn.children:     # childless children are covered as roots of the one-node trees
                check_spec(c, cn, Ctx(ctx.d, ctx.o, ctx.path + (i,)), bag, depth + 1)


def subst(da, db, nil):
    """a-shaped tree whose every leaf position (under none_is_leaf=nil) holds a b-shaped tree."""
    if len(da) == 1:
        if da[0] == 'leaf' or (da[0] == 'none' and nil):
            return db
        return da
    return (da[0], [subst(c, db, nil) for c in da[1]])


def check_compose(da, db, o, bag):
    ta, tb = U.build(da), U.build(db)
    dc = subst(da, db, o['none_is_leaf'])
    na = U.absify(ta, **o)
    if any(not (x is None or isinstance(x, S.L)) for x in U.a_leaves(na)):
        return      # a node kind of `a` is an unregistered class (a leaf) under these options: description-level substitution is not the composed tree
    head = f'o = {U.opt_src(o)}\na = optree.tree_structure({U.src(da)}, **o)\nb = optree.tree_structure({U.src(db)}, **o)\n' \
           f'c = optree.tree_structure({U.src(dc)}, **o)   # the a-shaped tree of b-shaped trees\n'
    label = f'a = {U.show(da)}, b = {U.show(db)} [{S.opt_repr(o)}]'
    try:
        a, b = optree.tree_structure(ta, **o), optree.tree_structure(tb, **o)
        c = optree.tree_structure(U.build(dc), **o)
        bag.ev()
        st, r = U.guard(a.compose, b)
        if st == 'exc':
            bag.add('C08.compose', f'{label}: a.compose(b) raised {U.exc_name(r)}', head + 'a.compose(b)\nsys.exit(0)\n')
            return
        want_paths = [pa + pb for pa in a.paths() for pb in b.paths()]
        if not (r == c and c == r and r.num_leaves == a.num_leaves * b.num_leaves and r.paths() == c.paths() == want_paths
                and r.num_nodes == (a.num_nodes - a.num_leaves) + a.num_leaves * b.num_nodes):
            bag.add('C08.compose', f'{label}: a.compose(b) is {r!r} (leaves {r.num_leaves}, paths {r.paths()!r}); the composed tree has structure {c!r}, '
                                   f'{a.num_leaves}*{b.num_leaves} leaves, paths {want_paths!r}',
                    head + 'r = a.compose(b)\nprint(r)\nwant = [pa + pb for pa in a.paths() for pb in b.paths()]\n'
                    'sys.exit(1 if not (r == c and c == r and r.num_leaves == a.num_leaves * b.num_leaves and r.paths() == c.paths() == want) else 0)\n')
        try:
            ra, _, _ = U.abs_from_state(r)
            ok = U.a_same(ra, U.absify(U.build(dc), **o))
        except U.Malformed:
            ok = False
        if not ok:
            bag.add('C08.compose', f'{label}: the state view of a.compose(b) = {r!r} is not the structure of the composed tree {c!r}',
                    head + 'r = a.compose(b)\nsys.exit(1 if r.__getstate__()[0] != c.__getstate__()[0] else 0)\n')
        bag.ev()
        st, r2 = U.guard(a.transform, None, lambda _x: b)
        if st == 'exc' or not (r2 == r and r == r2 and r2.paths() == r.paths()):
            bag.add('C08.transform_leaf_is_compose', f'{label}: a.transform(None, lambda _: b) is {U.exc_name(r2) if st == "exc" else repr(r2)}, a.compose(b) is {r!r}',
                    head + 'r = a.compose(b)\nr2 = a.transform(None, lambda _: b)\nsys.exit(1 if not (r2 == r and r == r2 and r2.paths() == r.paths()) else 0)\n')
    except Exception as e:   # noqa: BLE001
        bag.add('C08.unexpected_exception', f'{label}: {U.exc_name(e)}', head + 'r = a.compose(b)\nr.paths()\nsys.exit(0)\n')


def sibling_family():
    """Roots with 3..4 children whose subtree sizes take every pattern over {1, 2, 3, 4 nodes}."""
    subs = [LEAF, ('none',), ('tuple', [LEAF]), ('list', [LEAF, LEAF]), ('dictR', [LEAF, ('tuple', [LEAF, LEAF])])]
    import itertools
    for k in ('tuple', 'dictR', 'odictR', 'customE', 'deque', 'ddictR'):
        for n in (3, 4):
            for combo in itertools.product(subs, repeat=n):
                yield (k, list(combo))


def run(tier: str, seed: int) -> BoundedReport:
    U.ensure_registered()
    quick = tier == 'quick'
    rng = random.Random(seed)
    bag = U.Bag('c08_inspect')
    opts6 = U.options(namespaces=('', U.NS, U.NS_OTHER))
    opts_pred = U.options(namespaces=('', U.NS), predicates=S.PREDICATES[1:])
    reprs = {}
    nspecs = 0

    def one(d, o):
        nonlocal nspecs
        t = U.build(d)
        st, s = U.guard(optree.tree_structure, t, **o)
        if st == 'exc':
            bag.add('C08.unexpected_exception', f'tree_structure({U.show(d)}) [{S.opt_repr(o)}] raised {U.exc_name(s)}',
                    f'optree.tree_structure({U.src(d)}, **{U.opt_src(o)})\nsys.exit(0)\n')
            return
        n = U.absify(t, **o)
        check_spec(s, n, Ctx(d, o), bag)
        nspecs += 1
        bag.seen((U.freeze(d), U.opt_key(o)))
        # equal specs print equally (same structure, flags and namespace)
        k = (U.sig(n), s.none_is_leaf, s.namespace)
        st, r = U.guard(repr, s)
        if st == 'exc':
            return              # reported by check_spec
        prev = reprs.setdefault(k, (r, d, o))
        if prev[0] != r:
            bag.add('C08.repr', f'equal treespecs print differently: {prev[0]!r} ({U.show(prev[1])}) vs {r!r} ({U.show(d)})',
                    f'a = optree.tree_structure({U.src(prev[1])}, **{U.opt_src(prev[2])})\nb = optree.tree_structure({U.src(d)}, **{U.opt_src(o)})\n'
                    'sys.exit(1 if a == b and a.namespace == b.namespace and repr(a) != repr(b) else 0)\n')

    core = list(U.descriptions(4, U.CORE_KINDS, U.CORE_ATOMS))
    mid = list(U.descriptions(3, [k for k in U.ALL_KINDS if k not in U.CORE_KINDS], U.ALL_ATOMS))
    fam = list(sibling_family())
    if quick:
        core = [d for d in core if U.n_nodes(d) <= 3] + U.thin([d for d in core if U.n_nodes(d) == 4], 900, rng)
        mid = [d for d in mid if U.n_nodes(d) <= 2] + U.thin([d for d in mid if U.n_nodes(d) == 3], 500, rng)
        fam = U.thin(fam, 500, rng)
    else:
        core += U.thin(list(U.descriptions(5, U.CORE_KINDS, ['leaf', 'none'], min_nodes=5)), 12000, rng)
        core += U.thin(list(U.descriptions(6, ['tuple', 'dictR', 'odictR', 'customE'], ['leaf', 'none'], min_nodes=6)), 6000, rng)
    for d in core:
        for o in (opts6 if not quick or U.n_nodes(d) <= 3 else (opts6[0], opts6[4])):
            one(d, o)
    for d in mid:
        for o in (opts6[0], opts6[1], opts6[4], {'none_is_leaf': False, 'namespace': U.NS2, 'is_leaf': None}):
            one(d, o)
    for d in fam:
        one(d, opts6[0] if rng.random() < 0.7 else opts6[4])
    for d in U.thin(core, 400 if quick else 4000, rng):
        for o in opts_pred:
            one(d, o)
    bag.sample(f'{nspecs} root specs (+ their children() recursively), e.g. {U.show(core[len(core) // 2])}')
    bag.sample(f'sibling-size family, e.g. {U.show(fam[len(fam) // 2])}')

    # compose / transform(leaf -> b)
    comp = list(U.descriptions(3, U.CORE_KINDS + ['customN'], U.CORE_ATOMS))
    ca = U.thin(comp, 90 if quick else 330, rng)
    cb = U.thin(comp, 90 if quick else 330, rng)
    ncomp = 0
    for da in ca:
        for db in cb:
            for o in ((opts6[0],) if (ncomp % 3) else (opts6[1], opts6[4])):
                check_compose(da, db, o, bag)
                bag.seen((U.freeze(da), U.freeze(db), U.opt_key(o), 'compose'))
            ncomp += 1
    bag.sample(f'compose: a = {U.show(ca[3])}, b = {U.show(cb[5])}')
    return bag.report(
        rule='distinct = (tree description, options) root specs and (a, b, options) compose pairs; single-leaf trees are trivial and are < 1%',
        scope=f'{tier}: {nspecs} root treespecs (trees with <= {4 if quick else 6} nodes over {len(U.ALL_KINDS)} kind variants and {len(U.ALL_ATOMS)} childless atoms, '
              f'a sibling-size family with 3-4 children of 1-4 nodes; none_is_leaf x namespace x is_leaf) and every children() spec below them; '
              f'indices in [-n-1, n]; {ncomp} compose pairs (trees <= 3 nodes)',
        exhaustive=False,
        notes='repr text is only compared for node kinds whose notation the docs show (no struct sequences); '
              'compose/transform error cases (mismatching none_is_leaf / namespaces) are not promised by the property and not checked',
    )
